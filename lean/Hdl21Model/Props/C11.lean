/-
# C11 — Exported packages survive a round trip through from_proto

Proved here, for connection targets of any nesting: importing a well-formed target and exporting it
again gives the identical target — `slice.top` inclusive ↔ Python's exclusive stop, concatenation parts
reversed on the way out and on the way in (`target_roundtrip`).  The table parts of the round trip
(prefix maps, ideal-primitive name maps, pulse-source parameter renaming: importer = inverse of exporter
on every entry) are the `decide` theorems of Props/C13 over tables regenerated from the code.
Everything else of the property (ports, signals, instances, parameters, external modules with port order
and spice type, literals; and that elaboration of the imported modules changes nothing) is decided by the
correspondence: `to_proto(from_proto(P)) == P` as protobuf equality for every package the design
generator, the examples and the primitive / external-module parameter space produce.
-/
import Hdl21Model.Import
import Hdl21Model.Lemmas.Export
import Hdl21Model.Props.C13
namespace Hdl21.Props.C11
open Hdl21 Hdl21.Pkg

theorem exportParts_snoc (xs : List SConn) (y : SConn) (ts : List PTarget) (t : PTarget)
    (hx : exportParts xs = .ok ts) (hy : exportTarget y = .ok t) : exportParts (xs ++ [y]) = .ok (t :: ts) := by
  induction xs generalizing ts with
  | nil =>
    rw [exportParts] at hx; injection hx with hx; subst hx
    rw [List.nil_append, exportParts]; simp only [bind, Except.bind, hy]
    rw [exportParts]; rfl
  | cons x xs ih =>
    rw [exportParts] at hx
    simp only [bind, Except.bind] at hx
    cases hxt : exportTarget x with
    | error e => simp [hxt] at hx
    | ok tx =>
      simp only [hxt] at hx
      cases hxs : exportParts xs with
      | error e => simp [hxs] at hx
      | ok txs =>
        simp only [hxs] at hx
        injection hx with hx; subst hx
        rw [List.cons_append, exportParts]
        simp only [bind, Except.bind, hxt, ih txs hxs]
        rfl

mutual
/-- **Round trip of connection targets**: export ∘ import is the identity on well-formed targets. -/
theorem target_roundtrip (ws : List (String × Nat)) : (t : PTarget) → wfTarget ws t = true →
    exportTarget (importTarget ws t) = .ok t
  | .sig n, _ => by rw [importTarget, exportTarget]
  | .slice n top bot, h => by
    rw [wfTarget] at h
    cases hl : lookup n ws with
    | none => simp [hl] at h
    | some w =>
      simp only [hl, Bool.and_eq_true, decide_eq_true_eq] at h
      obtain ⟨hbt, htw⟩ := h
      rw [importTarget, exportTarget]
      simp only [hl, Option.getD_some, bind, Except.bind]
      have h0 : ¬ ((bot : Int) < 0) := by omega
      have hA : pyClamp w 1 (bot : Int) = bot := by
        unfold pyClamp; rw [if_neg h0, if_neg (by omega)]
      have hB : pyClamp w 1 ((top : Int) + 1) = (top : Int) + 1 := by
        unfold pyClamp
        rw [if_neg (by omega)]
        split
        · rw [if_neg (by omega)]; omega
        · rfl
      have hL : pyLen (bot : Int) ((top : Int) + 1) 1 = top + 1 - bot := by
        unfold pyLen
        rw [if_neg (by omega), if_pos (by omega)]
        omega
      simp only [sliceInner, Option.getD_none, pyAdjust, hA, hB, hL]
      rw [if_neg (by omega), if_neg (by omega), if_pos (by omega)]
      simp only []
      rw [if_neg (by simp)]
      have e1 : ((bot : Int) + (((top + 1 - bot : Nat) : Int) - 1) * 1 + 1 - 1).toNat = top := by omega
      have e2 : ((bot : Int)).toNat = bot := by omega
      rw [e1, e2]
  | .concat parts, h => by
    rw [wfTarget] at h
    rw [importTarget, exportTarget]
    simp only [bind, Except.bind]
    rw [parts_roundtrip ws parts h]
theorem parts_roundtrip (ws : List (String × Nat)) : (ps : List PTarget) → wfParts ws ps = true →
    exportParts (importParts ws ps) = .ok ps
  | [], _ => by rw [importParts, exportParts]
  | p :: rest, h => by
    rw [wfParts, Bool.and_eq_true] at h
    rw [importParts]
    exact exportParts_snoc _ _ rest p (parts_roundtrip ws rest h.2) (target_roundtrip ws p h.1)
end

/-- The table parts of the round trip (regenerated from exporter and importer on every run). -/
theorem tables_roundtrip :
    (∀ pv ∈ prefixValues, ∃ name, Params.exportPrefix pv = some name ∧ Params.importPrefix name = some pv) ∧
    (∀ p ∈ exportPrimMap, Params.lookupS p.2 importPrimMap = some p.1) ∧
    (∀ p ∈ exportPulseMap, Params.lookupS p.2 importPulseMap = some p.1) :=
  ⟨Props.C13.prefix_roundtrip, Props.C13.prim_maps_inverse, Props.C13.pulse_maps_inverse⟩

/-! ### Non-vacuity -/
example : exportTarget (importTarget [("a", 4), ("b", 2)] (.concat [.slice "a" 2 1, .sig "b"]))
        = .ok (.concat [.slice "a" 2 1, .sig "b"]) := by rfl

end Hdl21.Props.C11
