/-
# C11 — Exported packages survive a round trip through from_proto

Proved here, for connection targets of any nesting: importing a well-formed target and exporting it
again gives the identical target — `slice.top` inclusive ↔ Python's exclusive stop, concatenation parts
reversed on the way out and on the way in (`target_roundtrip`).  The table parts of the round trip
(prefix maps, ideal-primitive name maps, pulse-source parameter renaming: importer = inverse of exporter
on every entry) are the `decide` theorems of Props/C13 over tables regenerated from the code.
Everything else of the property (ports, signals, instances, parameters, external modules with port order
and spice type, literals; and that elaboration of the imported modules changes nothing) is decided by the
correspondence: `to_proto(from_proto(P)) == P` as protobuf equality for every package the design
generator, the examples and the primitive / external-module parameter space produce.
-/
import Hdl21Model.Import
import Hdl21Model.Lemmas.RoundTrip
import Hdl21Model.Lemmas.Export
import Hdl21Model.Props.C13
import Hdl21Model.Props.C06
import Hdl21Model.Lemmas.ResolveNF
namespace Hdl21.Props.C11
open Hdl21 Hdl21.Pkg

theorem exportParts_snoc (xs : List SConn) (y : SConn) (ts : List PTarget) (t : PTarget)
    (hx : exportParts xs = .ok ts) (hy : exportTarget y = .ok t) : exportParts (xs ++ [y]) = .ok (t :: ts) := by
  induction xs generalizing ts with
  | nil =>
    rw [exportParts] at hx; injection hx with hx; subst hx
    rw [List.nil_append, exportParts]; simp only [bind, Except.bind, hy]
    rw [exportParts]; rfl
  | cons x xs ih =>
    rw [exportParts] at hx
    simp only [bind, Except.bind] at hx
    cases hxt : exportTarget x with
    | error e => simp [hxt] at hx
    | ok tx =>
      simp only [hxt] at hx
      cases hxs : exportParts xs with
      | error e => simp [hxs] at hx
      | ok txs =>
        simp only [hxs] at hx
        injection hx with hx; subst hx
        rw [List.cons_append, exportParts]
        simp only [bind, Except.bind, hxt, ih txs hxs]
        rfl

mutual
/-- **Round trip of connection targets**: export ∘ import is the identity on well-formed targets. -/
theorem target_roundtrip (ws : List (String × Nat)) : (t : PTarget) → wfTarget ws t = true →
    exportTarget (importTarget ws t) = .ok t
  | .sig n, _ => by rw [importTarget, exportTarget]
  | .slice n top bot, h => by
    rw [wfTarget] at h
    cases hl : lookup n ws with
    | none => simp [hl] at h
    | some w =>
      simp only [hl, Bool.and_eq_true, decide_eq_true_eq] at h
      obtain ⟨hbt, htw⟩ := h
      rw [importTarget, exportTarget]
      simp only [hl, Option.getD_some, bind, Except.bind]
      have h0 : ¬ ((bot : Int) < 0) := by omega
      have hA : pyClamp w 1 (bot : Int) = bot := by
        unfold pyClamp; rw [if_neg h0, if_neg (by omega)]
      have hB : pyClamp w 1 ((top : Int) + 1) = (top : Int) + 1 := by
        unfold pyClamp
        rw [if_neg (by omega)]
        split
        · rw [if_neg (by omega)]; omega
        · rfl
      have hL : pyLen (bot : Int) ((top : Int) + 1) 1 = top + 1 - bot := by
        unfold pyLen
        rw [if_neg (by omega), if_pos (by omega)]
        omega
      simp only [sliceInner, Option.getD_none, pyAdjust, hA, hB, hL]
      rw [if_neg (by omega), if_neg (by omega), if_pos (by omega)]
      simp only []
      rw [if_neg (by simp)]
      have e1 : ((bot : Int) + (((top + 1 - bot : Nat) : Int) - 1) * 1 + 1 - 1).toNat = top := by omega
      have e2 : ((bot : Int)).toNat = bot := by omega
      rw [e1, e2]
  | .concat parts, h => by
    rw [wfTarget] at h
    rw [importTarget, exportTarget]
    simp only [bind, Except.bind]
    rw [parts_roundtrip ws parts h]
theorem parts_roundtrip (ws : List (String × Nat)) : (ps : List PTarget) → wfParts ws ps = true →
    exportParts (importParts ws ps) = .ok ps
  | [], _ => by rw [importParts, exportParts]
  | p :: rest, h => by
    rw [wfParts, Bool.and_eq_true] at h
    rw [importParts]
    exact exportParts_snoc _ _ rest p (parts_roundtrip ws rest h.2) (target_roundtrip ws p h.1)
end

/-- The table parts of the round trip (regenerated from exporter and importer on every run). -/
theorem tables_roundtrip :
    (∀ pv ∈ prefixValues, ∃ name, Params.exportPrefix pv = some name ∧ Params.importPrefix name = some pv) ∧
    (∀ p ∈ exportPrimMap, Params.lookupS p.2 importPrimMap = some p.1) ∧
    (∀ p ∈ exportPulseMap, Params.lookupS p.2 importPulseMap = some p.1) :=
  ⟨Props.C13.prefix_roundtrip, Props.C13.prim_maps_inverse, Props.C13.pulse_maps_inverse⟩

/-! ## whole modules -/
open Hdl21.RoundTrip

/-- **Round trip of a module**: a module of the shape `export_module` writes — signal names distinct, internal signals
    first and then the ports in the order of the port list, directions of the enumeration, instances of defined things
    connected on existing ports to well-formed targets — is imported without error, and exporting what was imported gives
    the identical module: same signals in the same order, same ports with the same directions in the same order, same
    instances with the same references, parameters and connection targets.  (`ctx`: the port names of what a reference
    resolves to — an earlier module of the package, a declared external module, a primitive.) -/
theorem module_roundtrip (ctx : PRef → Option (List String)) (p : PModule) (h : Shape ctx p = true) :
    ∃ m, importModule ctx p = .ok m ∧ exportModule m = .ok p := by
  unfold Shape at h
  simp only [Bool.and_eq_true, decide_eq_true_eq, List.all_eq_true] at h
  obtain ⟨⟨⟨⟨⟨hsn, hpn⟩, hdirs⟩, hsplit⟩, hports⟩, hinst⟩ := h
  have hd : ∀ q ∈ p.ports, q.2 ∈ protoDirs := hdirs
  -- signals
  have hdecl : (p.ports.all fun q => (lookup q.1 p.signals).isSome) = true := by
    rw [List.all_eq_true]
    intro q hq
    have hqm : q.1 ∈ (p.signals.filter (fun sw => isPort p sw.1)).map (·.1) := by
      rw [hports]; exact List.mem_map.mpr ⟨q, hq, rfl⟩
    obtain ⟨sw, hsw, hname⟩ := List.mem_map.mp hqm
    have hin : sw ∈ p.signals := (List.mem_filter.mp hsw).1
    rw [← hname]
    exact lookup_isSome_of_mem p.signals sw hin
  have hsigs : importSigs p = .ok (p.signals.map (imp p.ports)) := by
    unfold importSigs
    rw [if_pos hdecl, importSigList_eq p.ports hd]
  obtain ⟨hi, hi1, hi2⟩ := insts_roundtrip ctx p.signals (target_roundtrip p.signals) p.instances
    (by rw [List.all_eq_true]; exact hinst)
  obtain ⟨fS, fN⟩ := filter_imp p hd p.signals
  refine ⟨_, by unfold importModule; rw [hsigs, hi1], ?_⟩
  unfold exportModule
  simp only [fS, fN]
  rw [exportPorts_imp p.ports hpn hd _ p.ports hports (fun x hx => hx), hi2]
  simp only [← List.map_append, map_back]
  rw [← hsplit]
where
  lookup_isSome_of_mem : ∀ (l : List (String × Nat)) (sw : String × Nat), sw ∈ l → (lookup sw.1 l).isSome = true
    | [], _, h => by cases h
    | (a, b) :: rest, sw, h => by
      unfold lookup
      by_cases ha : a = sw.1
      · simp [ha]
      · rw [if_neg ha]
        rcases List.mem_cons.mp h with h | h
        · exact absurd (by rw [h]) ha
        · exact lookup_isSome_of_mem rest sw h

/-- The same for an exporter that writes the ports' signals first: the round trip is the identity on *that* layout. The importer is
    the same function — it files signals by whether a port entry names them, wherever they stand. -/
theorem module_roundtrip_ports_first (ctx : PRef → Option (List String)) (p : PModule) (h : ShapePF ctx p = true) :
    ∃ m, importModule ctx p = .ok m ∧ exportModulePF m = .ok p := by
  unfold ShapePF at h
  simp only [Bool.and_eq_true, decide_eq_true_eq, List.all_eq_true] at h
  obtain ⟨⟨⟨⟨⟨hsn, hpn⟩, hdirs⟩, hsplit⟩, hports⟩, hinst⟩ := h
  have hd : ∀ q ∈ p.ports, q.2 ∈ protoDirs := hdirs
  have hdecl : (p.ports.all fun q => (lookup q.1 p.signals).isSome) = true := by
    rw [List.all_eq_true]
    intro q hq
    have hqm : q.1 ∈ (p.signals.filter (fun sw => isPort p sw.1)).map (·.1) := by
      rw [hports]; exact List.mem_map.mpr ⟨q, hq, rfl⟩
    obtain ⟨sw, hsw, hname⟩ := List.mem_map.mp hqm
    have hin : sw ∈ p.signals := (List.mem_filter.mp hsw).1
    rw [← hname]
    exact module_roundtrip.lookup_isSome_of_mem p.signals sw hin
  have hsigs : importSigs p = .ok (p.signals.map (imp p.ports)) := by
    unfold importSigs
    rw [if_pos hdecl, importSigList_eq p.ports hd]
  obtain ⟨hi, hi1, hi2⟩ := insts_roundtrip ctx p.signals (target_roundtrip p.signals) p.instances
    (by rw [List.all_eq_true]; exact hinst)
  obtain ⟨fS, fN⟩ := filter_imp p hd p.signals
  refine ⟨_, by unfold importModule; rw [hsigs, hi1], ?_⟩
  unfold exportModulePF
  simp only [fS, fN]
  rw [exportPorts_imp p.ports hpn hd _ p.ports hports (fun x hx => hx), hi2]
  simp only [← List.map_append, map_back]
  rw [← hsplit]

/-- What the importer makes of such a module, spelled out: the internal signals and the ports in two lists, each in the
    order of the package's signal list, every port with the direction of its port entry. -/
theorem import_shape (ctx : PRef → Option (List String)) (p : PModule) (h : Shape ctx p = true) (m : HModule)
    (hm : importModule ctx p = .ok m) :
    m.name = p.name ∧
    m.signals.map (fun s => (s.name, s.width)) = p.signals.filter (fun sw => !isPort p sw.1) ∧
    m.ports.map (fun s => (s.name, s.width)) = p.signals.filter (fun sw => isPort p sw.1) ∧
    (∀ s ∈ m.signals, s.dir = none) ∧ m.instances.length = p.instances.length := by
  unfold Shape at h
  simp only [Bool.and_eq_true, decide_eq_true_eq, List.all_eq_true] at h
  obtain ⟨⟨⟨⟨⟨_, _⟩, hdirs⟩, _⟩, hports⟩, hinst⟩ := h
  have hd : ∀ q ∈ p.ports, q.2 ∈ protoDirs := hdirs
  obtain ⟨hi, hi1, hi2⟩ := insts_roundtrip ctx p.signals (target_roundtrip p.signals) p.instances
    (by rw [List.all_eq_true]; exact hinst)
  obtain ⟨fS, fN⟩ := filter_imp p hd p.signals
  unfold importModule at hm
  cases hs : importSigs p with
  | error e => simp [hs] at hm
  | ok sigs =>
    have hsigs : sigs = p.signals.map (imp p.ports) := by
      unfold importSigs at hs
      split at hs
      · rw [importSigList_eq p.ports hd] at hs; injection hs with hs; exact hs.symm
      · cases hs
    simp only [hs, hi1] at hm
    injection hm with hm
    subst hm
    subst hsigs
    refine ⟨rfl, ?_, ?_, ?_, ?_⟩
    · simp only [fN, map_back]
    · simp only [fS, map_back]
    · intro s hs
      have := (List.mem_filter.mp hs).2
      cases hdir : s.dir with
      | none => rfl
      | some d => simp [hdir] at this
    · exact exportInsts_length hi p.instances hi2
where
  exportInsts_length : ∀ (hs : List HInst) (is : List PInst), exportInsts hs = .ok is → hs.length = is.length
    | [], is, h => by simp [exportInsts] at h; subst h; rfl
    | i :: rest, is, h => by
      unfold exportInsts at h
      cases hc : exportConns i.conns with
      | error e => simp [hc] at h
      | ok cs =>
        cases hr : exportInsts rest with
        | error e => simp [hc, hr] at h
        | ok r =>
          simp only [hc, hr] at h
          injection h with h
          subst h
          simp [exportInsts_length rest r hr]

/-! ### Non-vacuity -/
def exCtx : PRef → Option (List String) := fun r => if r = .ext "vlsir.primitives" "resistor" then some ["p", "n"] else none
def exMod : PModule := ⟨"Top", [("s", 2), ("a", 1), ("b", 3)], [("a", "INPUT"), ("b", "NONE")],
  [⟨"r1", .ext "vlsir.primitives" "resistor", [("r", "5")], [("p", .slice "s" 1 1), ("n", .concat [.slice "b" 0 0])]⟩]⟩
example : Shape exCtx exMod = true ∧
    (importModule exCtx exMod).toOption.map (fun m => (m.signals.map (·.name), m.ports.map (fun s => (s.name, s.dir))))
      = some (["s"], [("a", some "INPUT"), ("b", some "NONE")]) := by decide

example : exportTarget (importTarget [("a", 4), ("b", 2)] (.concat [.slice "a" 2 1, .sig "b"]))
        = .ok (.concat [.slice "a" 2 1, .sig "b"]) := by rfl


/-! ## re-elaboration of what was exported: the resolver's output is a fixed point of the resolver -/

/-- **A connection the elaborator has resolved is left alone when it is elaborated again** — which is what
    `to_proto(from_proto(P)) = P` needs of the importer's connections (they are written back as `SliceResolver` left them: a
    signal, a slice taken directly from a signal and not the whole of it, or a non-empty concatenation of those: `resolve_nf`),
    for every nesting, width, step and sign of the expression they came from.  (Seed C11-r9-1 left a whole-signal slice standing
    inside a concatenation: not a fixed point, and the second export differed.) -/
theorem resolved_connection_is_a_fixed_point (fuel : Nat) (c r : SConn) (h : resolveSliceable fuel c = .ok r) :
    ∃ f, resolveSliceable f r = .ok r :=
  nf_fixed r ((resolve_nf fuel).2.2.1 c r h)

example :
    let c : SConn := .slice (.concat [.sig "a" 4, .sig "b" 4]) (.range (some 0) (some 6) none)
    (match resolveSliceable 30 c with
     | .ok r => (match resolveSliceable 30 r with | .ok r' => some (r'.size == r.size && r.exportable) | .error _ => none)
     | .error _ => none) = some true := by decide +kernel

/-! ## what the elaborator hands the exporter round-trips: the composed pass list (ModulePipe.lean) meets `module_roundtrip` -/
section Pipeline
open Hdl21.RoundTrip Hdl21.ExportWF Hdl21.ModulePipe Hdl21.Props.C06

theorem lookupS_mem : ∀ (l : List (String × String)) (k v : String), lookupS k l = some v → (k, v) ∈ l
  | [], k, v, h => by simp [lookupS] at h
  | (a, b) :: rest, k, v, h => by
    unfold lookupS at h
    by_cases hk : a = k
    · simp [hk] at h; subst h; subst hk; simp
    · simp [hk] at h; exact List.mem_cons_of_mem _ (lookupS_mem rest k v h)

theorem exportPorts_dirs : ∀ (l : List HSig) (q : List (String × String)), exportPorts l = .ok q → ∀ x ∈ q, x.2 ∈ protoDirs
  | [], q, h, x, hx => by simp [exportPorts] at h; subst h; cases hx
  | sg :: rest, q, h, x, hx => by
    unfold exportPorts at h
    cases hd : sg.dir.bind (lookupS · exportDirMap) with
    | none => simp [hd] at h
    | some d =>
      cases hr : exportPorts rest with
      | error e => simp [hd, hr] at h
      | ok r =>
        simp only [hd, hr] at h
        injection h with h; subst h
        rcases List.mem_cons.mp hx with rfl | hx
        · simp only
          cases hdir : sg.dir with
          | none => simp [hdir] at hd
          | some k =>
            simp only [hdir, Option.bind_some] at hd
            have hm := lookupS_mem exportDirMap k d hd
            have hall : ∀ kv ∈ exportDirMap, kv.2 ∈ protoDirs := by decide
            exact hall _ hm
        · exact exportPorts_dirs rest r hr x hx

theorem connsOK_of (ports : List String) (ws : List (String × Nat)) : ∀ (cs : List (String × PTarget)),
    (∀ pt ∈ cs, pt.1 ∈ ports ∧ wfTarget ws pt.2 = true) → connsOK ports ws cs = true
  | [], _ => rfl
  | (pn, t) :: rest, h => by
    obtain ⟨h1, h2⟩ := h (pn, t) (List.mem_cons_self ..)
    simp [connsOK, h1, h2, connsOK_of ports ws rest (fun x hx => h x (List.mem_cons_of_mem _ hx))]


/-- the layout `export_module` writes — internal signals `A`, then the ports' signals `B` in port order — has the `Shape` -/
theorem shape_of_layout (ctx' : PRef → Option (List String)) (nm : String) (A B : List (String × Nat)) (q : List (String × String))
    (ps : List PInst) (hnd : ((A ++ B).map (·.1)).Nodup) (hq : q.map (·.1) = B.map (·.1)) (hdirs : ∀ x ∈ q, x.2 ∈ protoDirs)
    (hinst : ∀ pi ∈ ps, RoundTrip.instOK ctx' (A ++ B) pi = true) : Shape ctx' ⟨nm, A ++ B, q, ps⟩ = true := by
  have hBnd : (B.map (·.1)).Nodup := by rw [List.map_append] at hnd; exact (List.nodup_append.mp hnd).2.1
  have hisp : ∀ n, (q.any (fun x => x.1 == n)) = true ↔ n ∈ B.map (·.1) := by
    intro n
    simp only [List.any_eq_true, beq_iff_eq]
    rw [← hq]
    constructor
    · rintro ⟨x, hx, rfl⟩; exact List.mem_map.mpr ⟨x, hx, rfl⟩
    · intro hn; obtain ⟨x, hx, rfl⟩ := List.mem_map.mp hn; exact ⟨x, hx, rfl⟩
  have hA : ∀ sw ∈ A, (q.any (fun x => x.1 == sw.1)) = false := by
    intro sw hsw
    cases hb : q.any (fun x => x.1 == sw.1) with
    | false => rfl
    | true =>
      rw [List.map_append] at hnd
      exact absurd rfl ((List.nodup_append.mp hnd).2.2 sw.1 (List.mem_map.mpr ⟨sw, hsw, rfl⟩) sw.1 ((hisp _).mp hb))
  have hB : ∀ sw ∈ B, (q.any (fun x => x.1 == sw.1)) = true :=
    fun sw hsw => (hisp _).mpr (List.mem_map.mpr ⟨sw, hsw, rfl⟩)
  have f1 : (A ++ B).filter (fun sw => !(q.any (fun x => x.1 == sw.1))) = A := by
    rw [List.filter_append, List.filter_eq_self.mpr (fun sw hsw => by simp [hA sw hsw]),
      List.filter_eq_nil_iff.mpr (fun sw hsw => by simp [hB sw hsw])]
    simp
  have f2 : (A ++ B).filter (fun sw => q.any (fun x => x.1 == sw.1)) = B := by
    rw [List.filter_append, List.filter_eq_nil_iff.mpr (fun sw hsw => by simp [hA sw hsw]),
      List.filter_eq_self.mpr (fun sw hsw => hB sw hsw)]
    simp
  unfold Shape
  simp only [Bool.and_eq_true, decide_eq_true_eq, List.all_eq_true, isPort, f1, f2]
  exact ⟨⟨⟨⟨⟨hnd, by rw [hq]; exact hBnd⟩, hdirs⟩, trivial⟩, hq.symm⟩, hinst⟩

/-- **Whatever the composed passes and the exporter return has the shape the round-trip theorem asks for** — so every exported
    F1 module is imported without error and exported back identically (`module_roundtrip`), with no assumption on the package
    other than where it came from.  (`hpar`: instances of Modules carry no parameters — hdl21 cannot write one that does.) -/
theorem pipeline_output_roundtrips (fuel : Nat) (ctx : PRef → Option (List (String × Nat))) (h : HModule) (p : PModule)
    (hm : ModOK ctx h) (hpar : ∀ i ∈ h.instances, ∀ n, i.ref = .loc n → i.params = [])
    (hp : pipeline fuel ctx h = .ok p) :
    Shape (fun r => (ctx r).map (·.map (·.1))) p = true ∧
    ∃ m, importModule (fun r => (ctx r).map (·.map (·.1))) p = .ok m ∧ RoundTrip.exportModule m = .ok p := by
  have hshape : Shape (fun r => (ctx r).map (·.map (·.1))) p = true := by
    obtain ⟨hnames, _, hdir, _, hcn, hctx⟩ := hm
    have hp0 := hp
    unfold pipeline at hp
    cases he : elabModule fuel ctx h with
    | error x => simp [he] at hp
    | ok e =>
      simp only [he] at hp
      obtain ⟨_, _, hs, hc', ho'⟩ := elabModule_inv he
      obtain ⟨_, hsig, hport, hrel⟩ := sliceResolver_inv hs
      unfold RoundTrip.exportModule at hp
      cases h1 : exportPorts e.ports with
      | error x => simp [h1] at hp
      | ok q =>
        cases h2 : exportInsts e.instances with
        | error x => simp [h1, h2] at hp
        | ok ps =>
          simp only [h1, h2] at hp
          injection hp with hp
          subst hp
          have hqn : q.map (·.1) = h.ports.map (·.name) := by rw [← hport]; exact exportPorts_names _ _ h1
          have hlay : (e.signals ++ e.ports).map (fun s => (s.name, s.width)) =
              h.signals.map (fun s => (s.name, s.width)) ++ h.ports.map (fun s => (s.name, s.width)) := by
            rw [hsig, hport, List.map_append]
          rw [hlay]
          apply shape_of_layout
          · rw [← List.map_append, List.map_map]; exact hnames
          · rw [hqn, List.map_map]; rfl
          · exact exportPorts_dirs _ _ h1
          · intro pi hpi
            obtain ⟨r, hr, x1, x2, x3, xcs⟩ := forall2_mem_right (exportInsts_spec _ _ h2) pi hpi
            obtain ⟨i, hi, r1, r2, r3, rcs⟩ := forall2_mem_right hrel r hr
            obtain ⟨ports, hcr, hpass⟩ := connTypes_inst hc' r hr
            have hrnd : (r.conns.map (·.1)).Nodup := by
              rw [forall2_map_eq (f := fun (pc : String × SConn) => pc.1) (g := fun (pc : String × SConn) => pc.1) (fun a b hr => hr.1) rcs]
              exact hcn i hi
            have hall := (ConnTypes.passes_iff ports r.conns (hctx _ _ hcr) hrnd).mp hpass
            unfold RoundTrip.instOK
            rw [x2]
            simp only [hcr, Option.map_some, Bool.and_eq_true]
            constructor
            · cases hrf : r.ref with
              | ext d n => rfl
              | loc n =>
                have : pi.params = [] := by rw [x3, r3]; exact hpar i hi n (by rw [← r2, hrf])
                rw [this]
            · apply connsOK_of
              intro pt hpt
              obtain ⟨pc, hpc, e1, hexp⟩ := forall2_mem_right xcs pt hpt
              refine ⟨?_, ?_⟩
              · rw [e1]
                obtain ⟨pw, hpw, hpn⟩ := List.mem_map.mp (hall.2 pc hpc)
                exact List.mem_map.mpr ⟨pw, hpw, hpn⟩
              · have hok := orphanage_inst ho' r hr pc hpc
                have : sigList e = h.signals.map (fun s => (s.name, s.width)) ++ h.ports.map (fun s => (s.name, s.width)) := by
                  unfold sigList; exact hlay
                rw [this] at hok
                exact export_wfTarget _ pc.2 pt.2 hok hexp
  exact ⟨hshape, module_roundtrip _ p hshape⟩
/-- **Every module of the package of an F1 design round-trips**: put through `pipelineDesign` (children first), each exported
    module is imported without error — against the port names of what the package held when it was written: modules exported
    before it, declared external modules, primitives — and exported back identically. -/
theorem design_output_roundtrips (fuel : Nat) (exts : List PExt) (hext : ∀ e ∈ exts, (e.ports.map (·.1)).Nodup) :
    ∀ (hs : List HModule) (acc mods : List PModule),
      (∀ h ∈ hs, ModOK₀ h ∧ ∀ i ∈ h.instances, ∀ n, i.ref = .loc n → i.params = []) → (∀ m ∈ acc, (m.ports.map (·.1)).Nodup) →
      pipelineDesign fuel exts hs acc = .ok mods →
      ∃ new, mods = acc ++ new ∧ ∀ p ∈ new, ∃ earlier, earlier <+: mods ∧
        ∃ m, importModule (fun r => (targetPorts ⟨[], exts⟩ earlier r).map (·.map (·.1))) p = .ok m ∧ RoundTrip.exportModule m = .ok p
  | [], acc, mods, _, _, h => by
    unfold pipelineDesign at h; injection h with h; subst h
    exact ⟨[], by simp, fun _ hp => by cases hp⟩
  | h :: rest, acc, mods, hm, hacc, hp => by
    unfold pipelineDesign at hp
    cases h1 : pipeline fuel (targetPorts ⟨[], exts⟩ acc) h with
    | error x => simp [h1] at hp
    | ok p =>
      simp only [h1] at hp
      obtain ⟨⟨m1, m2, m3, m4, m5⟩, hpar⟩ := hm h (List.mem_cons_self ..)
      have hmod : ModOK (targetPorts ⟨[], exts⟩ acc) h := ⟨m1, m2, m3, m4, m5, ctx_ports_distinct exts acc hacc hext⟩
      have hpn : (p.ports.map (·.1)).Nodup := by
        rw [pipeline_ports fuel _ h p h1]
        rw [List.map_append] at m1
        exact (List.nodup_append.mp m1).2.1
      obtain ⟨new, hnew, hrest⟩ := design_output_roundtrips fuel exts hext rest (acc ++ [p]) mods
        (fun x hx => hm x (List.mem_cons_of_mem _ hx))
        (fun m hmem => by
          rcases List.mem_append.mp hmem with hm' | hm'
          · exact hacc m hm'
          · simp at hm'; subst hm'; exact hpn) hp
      refine ⟨p :: new, by rw [hnew]; simp, ?_⟩
      intro q hq
      rcases List.mem_cons.mp hq with rfl | hq
      · exact ⟨acc, ⟨[q] ++ new, by rw [hnew]; simp⟩, (pipeline_output_roundtrips fuel _ h q hmod hpar h1).2⟩
      · exact hrest q hq

end Pipeline

end Hdl21.Props.C11
