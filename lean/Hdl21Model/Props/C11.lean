/-
# C11 — Exported packages survive a round trip through from_proto

Proved here, for connection targets of any nesting: importing a well-formed target and exporting it
again gives the identical target — `slice.top` inclusive ↔ Python's exclusive stop, concatenation parts
reversed on the way out and on the way in (`target_roundtrip`).  The table parts of the round trip
(prefix maps, ideal-primitive name maps, pulse-source parameter renaming: importer = inverse of exporter
on every entry) are the `decide` theorems of Props/C13 over tables regenerated from the code.
Everything else of the property (ports, signals, instances, parameters, external modules with port order
and spice type, literals; and that elaboration of the imported modules changes nothing) is decided by the
correspondence: `to_proto(from_proto(P)) == P` as protobuf equality for every package the design
generator, the examples and the primitive / external-module parameter space produce.
-/
import Hdl21Model.Import
import Hdl21Model.Lemmas.RoundTrip
import Hdl21Model.Lemmas.Export
import Hdl21Model.Props.C13
namespace Hdl21.Props.C11
open Hdl21 Hdl21.Pkg

theorem exportParts_snoc (xs : List SConn) (y : SConn) (ts : List PTarget) (t : PTarget)
    (hx : exportParts xs = .ok ts) (hy : exportTarget y = .ok t) : exportParts (xs ++ [y]) = .ok (t :: ts) := by
  induction xs generalizing ts with
  | nil =>
    rw [exportParts] at hx; injection hx with hx; subst hx
    rw [List.nil_append, exportParts]; simp only [bind, Except.bind, hy]
    rw [exportParts]; rfl
  | cons x xs ih =>
    rw [exportParts] at hx
    simp only [bind, Except.bind] at hx
    cases hxt : exportTarget x with
    | error e => simp [hxt] at hx
    | ok tx =>
      simp only [hxt] at hx
      cases hxs : exportParts xs with
      | error e => simp [hxs] at hx
      | ok txs =>
        simp only [hxs] at hx
        injection hx with hx; subst hx
        rw [List.cons_append, exportParts]
        simp only [bind, Except.bind, hxt, ih txs hxs]
        rfl

mutual
/-- **Round trip of connection targets**: export ∘ import is the identity on well-formed targets. -/
theorem target_roundtrip (ws : List (String × Nat)) : (t : PTarget) → wfTarget ws t = true →
    exportTarget (importTarget ws t) = .ok t
  | .sig n, _ => by rw [importTarget, exportTarget]
  | .slice n top bot, h => by
    rw [wfTarget] at h
    cases hl : lookup n ws with
    | none => simp [hl] at h
    | some w =>
      simp only [hl, Bool.and_eq_true, decide_eq_true_eq] at h
      obtain ⟨hbt, htw⟩ := h
      rw [importTarget, exportTarget]
      simp only [hl, Option.getD_some, bind, Except.bind]
      have h0 : ¬ ((bot : Int) < 0) := by omega
      have hA : pyClamp w 1 (bot : Int) = bot := by
        unfold pyClamp; rw [if_neg h0, if_neg (by omega)]
      have hB : pyClamp w 1 ((top : Int) + 1) = (top : Int) + 1 := by
        unfold pyClamp
        rw [if_neg (by omega)]
        split
        · rw [if_neg (by omega)]; omega
        · rfl
      have hL : pyLen (bot : Int) ((top : Int) + 1) 1 = top + 1 - bot := by
        unfold pyLen
        rw [if_neg (by omega), if_pos (by omega)]
        omega
      simp only [sliceInner, Option.getD_none, pyAdjust, hA, hB, hL]
      rw [if_neg (by omega), if_neg (by omega), if_pos (by omega)]
      simp only []
      rw [if_neg (by simp)]
      have e1 : ((bot : Int) + (((top + 1 - bot : Nat) : Int) - 1) * 1 + 1 - 1).toNat = top := by omega
      have e2 : ((bot : Int)).toNat = bot := by omega
      rw [e1, e2]
  | .concat parts, h => by
    rw [wfTarget] at h
    rw [importTarget, exportTarget]
    simp only [bind, Except.bind]
    rw [parts_roundtrip ws parts h]
theorem parts_roundtrip (ws : List (String × Nat)) : (ps : List PTarget) → wfParts ws ps = true →
    exportParts (importParts ws ps) = .ok ps
  | [], _ => by rw [importParts, exportParts]
  | p :: rest, h => by
    rw [wfParts, Bool.and_eq_true] at h
    rw [importParts]
    exact exportParts_snoc _ _ rest p (parts_roundtrip ws rest h.2) (target_roundtrip ws p h.1)
end

/-- The table parts of the round trip (regenerated from exporter and importer on every run). -/
theorem tables_roundtrip :
    (∀ pv ∈ prefixValues, ∃ name, Params.exportPrefix pv = some name ∧ Params.importPrefix name = some pv) ∧
    (∀ p ∈ exportPrimMap, Params.lookupS p.2 importPrimMap = some p.1) ∧
    (∀ p ∈ exportPulseMap, Params.lookupS p.2 importPulseMap = some p.1) :=
  ⟨Props.C13.prefix_roundtrip, Props.C13.prim_maps_inverse, Props.C13.pulse_maps_inverse⟩

/-! ## whole modules -/
open Hdl21.RoundTrip

/-- **Round trip of a module**: a module of the shape `export_module` writes — signal names distinct, internal signals
    first and then the ports in the order of the port list, directions of the enumeration, instances of defined things
    connected on existing ports to well-formed targets — is imported without error, and exporting what was imported gives
    the identical module: same signals in the same order, same ports with the same directions in the same order, same
    instances with the same references, parameters and connection targets.  (`ctx`: the port names of what a reference
    resolves to — an earlier module of the package, a declared external module, a primitive.) -/
theorem module_roundtrip (ctx : PRef → Option (List String)) (p : PModule) (h : Shape ctx p = true) :
    ∃ m, importModule ctx p = .ok m ∧ exportModule m = .ok p := by
  unfold Shape at h
  simp only [Bool.and_eq_true, decide_eq_true_eq, List.all_eq_true] at h
  obtain ⟨⟨⟨⟨⟨hsn, hpn⟩, hdirs⟩, hsplit⟩, hports⟩, hinst⟩ := h
  have hd : ∀ q ∈ p.ports, q.2 ∈ protoDirs := hdirs
  -- signals
  have hdecl : (p.ports.all fun q => (lookup q.1 p.signals).isSome) = true := by
    rw [List.all_eq_true]
    intro q hq
    have hqm : q.1 ∈ (p.signals.filter (fun sw => isPort p sw.1)).map (·.1) := by
      rw [hports]; exact List.mem_map.mpr ⟨q, hq, rfl⟩
    obtain ⟨sw, hsw, hname⟩ := List.mem_map.mp hqm
    have hin : sw ∈ p.signals := (List.mem_filter.mp hsw).1
    rw [← hname]
    exact lookup_isSome_of_mem p.signals sw hin
  have hsigs : importSigs p = .ok (p.signals.map (imp p.ports)) := by
    unfold importSigs
    rw [if_pos hdecl, importSigList_eq p.ports hd]
  obtain ⟨hi, hi1, hi2⟩ := insts_roundtrip ctx p.signals (target_roundtrip p.signals) p.instances
    (by rw [List.all_eq_true]; exact hinst)
  obtain ⟨fS, fN⟩ := filter_imp p hd p.signals
  refine ⟨_, by unfold importModule; rw [hsigs, hi1], ?_⟩
  unfold exportModule
  simp only [fS, fN]
  rw [exportPorts_imp p.ports hpn hd _ p.ports hports (fun x hx => hx), hi2]
  simp only [← List.map_append, map_back]
  rw [← hsplit]
where
  lookup_isSome_of_mem : ∀ (l : List (String × Nat)) (sw : String × Nat), sw ∈ l → (lookup sw.1 l).isSome = true
    | [], _, h => by cases h
    | (a, b) :: rest, sw, h => by
      unfold lookup
      by_cases ha : a = sw.1
      · simp [ha]
      · rw [if_neg ha]
        rcases List.mem_cons.mp h with h | h
        · exact absurd (by rw [h]) ha
        · exact lookup_isSome_of_mem rest sw h

/-- The same for an exporter that writes the ports' signals first: the round trip is the identity on *that* layout. The importer is
    the same function — it files signals by whether a port entry names them, wherever they stand. -/
theorem module_roundtrip_ports_first (ctx : PRef → Option (List String)) (p : PModule) (h : ShapePF ctx p = true) :
    ∃ m, importModule ctx p = .ok m ∧ exportModulePF m = .ok p := by
  unfold ShapePF at h
  simp only [Bool.and_eq_true, decide_eq_true_eq, List.all_eq_true] at h
  obtain ⟨⟨⟨⟨⟨hsn, hpn⟩, hdirs⟩, hsplit⟩, hports⟩, hinst⟩ := h
  have hd : ∀ q ∈ p.ports, q.2 ∈ protoDirs := hdirs
  have hdecl : (p.ports.all fun q => (lookup q.1 p.signals).isSome) = true := by
    rw [List.all_eq_true]
    intro q hq
    have hqm : q.1 ∈ (p.signals.filter (fun sw => isPort p sw.1)).map (·.1) := by
      rw [hports]; exact List.mem_map.mpr ⟨q, hq, rfl⟩
    obtain ⟨sw, hsw, hname⟩ := List.mem_map.mp hqm
    have hin : sw ∈ p.signals := (List.mem_filter.mp hsw).1
    rw [← hname]
    exact module_roundtrip.lookup_isSome_of_mem p.signals sw hin
  have hsigs : importSigs p = .ok (p.signals.map (imp p.ports)) := by
    unfold importSigs
    rw [if_pos hdecl, importSigList_eq p.ports hd]
  obtain ⟨hi, hi1, hi2⟩ := insts_roundtrip ctx p.signals (target_roundtrip p.signals) p.instances
    (by rw [List.all_eq_true]; exact hinst)
  obtain ⟨fS, fN⟩ := filter_imp p hd p.signals
  refine ⟨_, by unfold importModule; rw [hsigs, hi1], ?_⟩
  unfold exportModulePF
  simp only [fS, fN]
  rw [exportPorts_imp p.ports hpn hd _ p.ports hports (fun x hx => hx), hi2]
  simp only [← List.map_append, map_back]
  rw [← hsplit]

/-- What the importer makes of such a module, spelled out: the internal signals and the ports in two lists, each in the
    order of the package's signal list, every port with the direction of its port entry. -/
theorem import_shape (ctx : PRef → Option (List String)) (p : PModule) (h : Shape ctx p = true) (m : HModule)
    (hm : importModule ctx p = .ok m) :
    m.name = p.name ∧
    m.signals.map (fun s => (s.name, s.width)) = p.signals.filter (fun sw => !isPort p sw.1) ∧
    m.ports.map (fun s => (s.name, s.width)) = p.signals.filter (fun sw => isPort p sw.1) ∧
    (∀ s ∈ m.signals, s.dir = none) ∧ m.instances.length = p.instances.length := by
  unfold Shape at h
  simp only [Bool.and_eq_true, decide_eq_true_eq, List.all_eq_true] at h
  obtain ⟨⟨⟨⟨⟨_, _⟩, hdirs⟩, _⟩, hports⟩, hinst⟩ := h
  have hd : ∀ q ∈ p.ports, q.2 ∈ protoDirs := hdirs
  obtain ⟨hi, hi1, hi2⟩ := insts_roundtrip ctx p.signals (target_roundtrip p.signals) p.instances
    (by rw [List.all_eq_true]; exact hinst)
  obtain ⟨fS, fN⟩ := filter_imp p hd p.signals
  unfold importModule at hm
  cases hs : importSigs p with
  | error e => simp [hs] at hm
  | ok sigs =>
    have hsigs : sigs = p.signals.map (imp p.ports) := by
      unfold importSigs at hs
      split at hs
      · rw [importSigList_eq p.ports hd] at hs; injection hs with hs; exact hs.symm
      · cases hs
    simp only [hs, hi1] at hm
    injection hm with hm
    subst hm
    subst hsigs
    refine ⟨rfl, ?_, ?_, ?_, ?_⟩
    · simp only [fN, map_back]
    · simp only [fS, map_back]
    · intro s hs
      have := (List.mem_filter.mp hs).2
      cases hdir : s.dir with
      | none => rfl
      | some d => simp [hdir] at this
    · exact exportInsts_length hi p.instances hi2
where
  exportInsts_length : ∀ (hs : List HInst) (is : List PInst), exportInsts hs = .ok is → hs.length = is.length
    | [], is, h => by simp [exportInsts] at h; subst h; rfl
    | i :: rest, is, h => by
      unfold exportInsts at h
      cases hc : exportConns i.conns with
      | error e => simp [hc] at h
      | ok cs =>
        cases hr : exportInsts rest with
        | error e => simp [hc, hr] at h
        | ok r =>
          simp only [hc, hr] at h
          injection h with h
          subst h
          simp [exportInsts_length rest r hr]

/-! ### Non-vacuity -/
def exCtx : PRef → Option (List String) := fun r => if r = .ext "vlsir.primitives" "resistor" then some ["p", "n"] else none
def exMod : PModule := ⟨"Top", [("s", 2), ("a", 1), ("b", 3)], [("a", "INPUT"), ("b", "NONE")],
  [⟨"r1", .ext "vlsir.primitives" "resistor", [("r", "5")], [("p", .slice "s" 1 1), ("n", .concat [.slice "b" 0 0])]⟩]⟩
example : Shape exCtx exMod = true ∧
    (importModule exCtx exMod).toOption.map (fun m => (m.signals.map (·.name), m.ports.map (fun s => (s.name, s.dir))))
      = some (["s"], [("a", some "INPUT"), ("b", some "NONE")]) := by decide

example : exportTarget (importTarget [("a", 4), ("b", 2)] (.concat [.slice "a" 2 1, .sig "b"]))
        = .ok (.concat [.slice "a" 2 1, .sig "b"]) := by rfl

end Hdl21.Props.C11
