/-
# C19 — Built-in generators build the documented topologies

For every `n ≥ 2`, every type of port names and every pair of distinct series ports (`seriesNet`, Builtin.lean):
* `series_units`            there are exactly `n` units (0 … n-1);
* `series_first_end`, `series_last_end`   unit 0's first series port and unit n-1's second series port are on the
                            module's two series ports;
* `series_chain_link`       unit k's second series port and unit k+1's first are on the private net `i[k]`;
* `series_chain_private`    nothing else is on `i[k]`: a terminal on it is one of those two;
* `series_parallel`         every other unit port is on the same-named module port;
* `series_port_touched_by`  a module port is touched only by same-named unit ports, a series port only by its end unit
                            (so the two series ports are not shorted, and no middle unit is exposed);
* `series_one_is_wrapper`, `wrapper_exposes`   `n = 1` and `Wrapper`: every port on the same-named port;
* `mosstack_is_series`      MosStack is Series over drain and source.
The correspondence builds Series / MosStack / Wrapper for units of every kind and compares the exported package's
leaf-level partition with Sem.src of the plain design that these theorems describe.
-/
import Hdl21Model.Builtin
namespace Hdl21.Props.C19
open Hdl21.Builtin

variable {α : Type}

theorem firstBits_get (n : Nat) (f : α) (k : Nat) (hk : k < n) :
    (firstBits n f)[k]? = some (if k = 0 then Net.port f else Net.chain (k - 1)) := by
  unfold firstBits
  cases k with
  | zero => simp
  | succ k =>
    simp only [List.getElem?_cons_succ, List.getElem?_map, Nat.succ_ne_zero, if_false, Nat.add_sub_cancel]
    rw [List.getElem?_range (by omega)]
    rfl

theorem secondBits_get (n : Nat) (s : α) (k : Nat) (hk : k < n) :
    (secondBits n s)[k]? = some (if k = n - 1 then Net.port s else Net.chain k) := by
  unfold secondBits
  by_cases hl : k = n - 1
  · subst hl
    rw [List.getElem?_append_right (by simp)]
    simp
  · rw [List.getElem?_append_left (by simp; omega), List.getElem?_map, List.getElem?_range (by omega)]
    simp [hl]

variable [DecidableEq α]

/-- exactly `n` units -/
theorem series_units (n : Nat) (f s : α) (k : Nat) (p : α) (hn : 2 ≤ n) :
    seriesNet n f s k p = none ↔ n ≤ k := by
  unfold seriesNet
  by_cases hk : n ≤ k
  · simp [hk]
  · simp only [if_neg hk, show ¬ n = 1 by omega, if_false]
    have hk' : k < n := by omega
    constructor
    · intro h
      split at h
      · rw [firstBits_get n f k hk'] at h; cases h
      · split at h
        · rw [secondBits_get n s k hk'] at h; cases h
        · cases h
    · intro h; exact absurd h hk

theorem series_first_end (n : Nat) (f s : α) (hn : 2 ≤ n) :
    seriesNet n f s 0 f = some (.port f) := by
  unfold seriesNet
  simp only [show ¬ n ≤ 0 by omega, show ¬ n = 1 by omega, if_false, if_true]
  rw [firstBits_get n f 0 (by omega)]; rfl

theorem series_last_end (n : Nat) (f s : α) (hn : 2 ≤ n) (hfs : f ≠ s) :
    seriesNet n f s (n - 1) s = some (.port s) := by
  unfold seriesNet
  simp only [show ¬ n ≤ n - 1 by omega, show ¬ n = 1 by omega, if_false, if_neg (Ne.symm hfs), if_true]
  rw [secondBits_get n s (n - 1) (by omega)]; simp

/-- unit k's second series port joins unit k+1's first on `i[k]` -/
theorem series_chain_link (n : Nat) (f s : α) (k : Nat) (hk : k + 1 < n) (hfs : f ≠ s) :
    seriesNet n f s k s = some (.chain k) ∧ seriesNet n f s (k + 1) f = some (.chain k) := by
  unfold seriesNet
  constructor
  · simp only [show ¬ n ≤ k by omega, show ¬ n = 1 by omega, if_false, if_neg (Ne.symm hfs), if_true]
    rw [secondBits_get n s k (by omega)]; simp [show ¬ k = n - 1 by omega]
  · simp only [show ¬ n ≤ k + 1 by omega, show ¬ n = 1 by omega, if_false, if_true]
    rw [firstBits_get n f (k + 1) hk]; simp

/-- … and nothing else is on that net -/
theorem series_chain_private (n : Nat) (f s : α) (k : Nat) (p : α) (j : Nat)
    (h : seriesNet n f s k p = some (.chain j)) :
    (k = j ∧ p = s ∧ j + 1 < n) ∨ (k = j + 1 ∧ p = f ∧ j + 1 < n) := by
  unfold seriesNet at h
  split at h
  · cases h
  · rename_i hk
    split at h
    · cases h
    · split at h
      · rename_i hp
        rw [firstBits_get n f k (by omega)] at h
        split at h
        · cases h
        · injection h with h; injection h with h
          right; exact ⟨by omega, hp, by omega⟩
      · split at h
        · rename_i hp
          rw [secondBits_get n s k (by omega)] at h
          split at h
          · cases h
          · injection h with h; injection h with h
            left; exact ⟨h, hp, by omega⟩
        · cases h

/-- every other unit port is wired to the same-named module port -/
theorem series_parallel (n : Nat) (f s : α) (k : Nat) (p : α) (hk : k < n) (hf : p ≠ f) (hs : p ≠ s) :
    seriesNet n f s k p = some (.port p) := by
  unfold seriesNet
  simp [show ¬ n ≤ k by omega, hf, hs]

/-- a module port is touched only by same-named unit ports; a series port only by its end unit -/
theorem series_port_touched_by (n : Nat) (f s : α) (k : Nat) (p q : α) (hn : 2 ≤ n)
    (h : seriesNet n f s k p = some (.port q)) :
    q = p ∧ (p = f → k = 0) ∧ (p = s → p ≠ f → k = n - 1) := by
  unfold seriesNet at h
  split at h
  · cases h
  · rename_i hk
    simp only [show ¬ n = 1 by omega, if_false] at h
    split at h
    · rename_i hp
      rw [firstBits_get n f k (by omega)] at h
      split at h
      · rename_i hk0
        injection h with h; injection h with h
        exact ⟨by rw [← h, hp], fun _ => hk0, fun _ hpf => absurd hp hpf⟩
      · cases h
    · rename_i hpf
      split at h
      · rename_i hp
        rw [secondBits_get n s k (by omega)] at h
        split at h
        · rename_i hkl
          injection h with h; injection h with h
          exact ⟨by rw [← h, hp], fun e => absurd e hpf, fun _ _ => hkl⟩
        · cases h
      · rename_i hps
        injection h with h; injection h with h
        exact ⟨h.symm, fun e => absurd e hpf, fun e => absurd e hps⟩

omit [DecidableEq α] in
/-- the two series ports of the module are different nets, and the chain never reaches a module port -/
theorem series_ends_not_shorted (f s : α) (hfs : f ≠ s) (j : Nat) :
    (Net.port f : Net α) ≠ Net.port s ∧ (Net.chain j : Net α) ≠ Net.port f ∧ (Net.chain j : Net α) ≠ Net.port s := by
  refine ⟨fun h => hfs (by injection h), (fun h => by cases h), (fun h => by cases h)⟩

/-- `nser = 1` is a plain wrapper -/
theorem series_one_is_wrapper (f s p : α) : seriesNet 1 f s 0 p = some (wrapperNet p) := by
  simp [seriesNet, wrapperNet]

omit [DecidableEq α] in
theorem wrapper_exposes (p : α) : wrapperNet p = Net.port p := rfl

/-- MosStack is Series over drain and source -/
def mosStackNet (n : Nat) (k : Nat) (p : String) : Option (Net String) := seriesNet n "d" "s" k p
theorem mosstack_is_series (n k : Nat) (p : String) : mosStackNet n k p = seriesNet n "d" "s" k p := rfl

/-- a series pair that elaboration can wire: both scalar -/
theorem series_accepts_scalar (n : Nat) (hn : 1 ≤ n) : seriesAccepts n (some 1) (some 1) = true := by
  simp [seriesAccepts, hn]

theorem series_rejects_bus (n w : Nat) (hn : 2 ≤ n) (hw : 2 ≤ w) (o : Option Nat) :
    seriesAccepts n (some w) o = false := by
  simp only [seriesAccepts]
  have h1 : (n == 1) = false := by simp; omega
  have h2 : (some w == some 1) = false := by simp; omega
  simp [h1, h2]

/-! Non-vacuity: a chain of four two-terminal units -/
example : (List.range 4).map (fun k => (seriesNet 4 0 1 k 0, seriesNet 4 0 1 k 1)) =
    [(some (.port 0), some (.chain 0)), (some (.chain 0), some (.chain 1)), (some (.chain 1), some (.chain 2)), (some (.chain 2), some (.port 1))] := by
  decide

end Hdl21.Props.C19
