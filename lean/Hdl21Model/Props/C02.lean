/-
# C02 — Ill-formed designs never yield a package or a netlist

Proved here:
* `repeat_pass_sees_every_module` — a checking pass placed after the last rewriting pass, *with its own
  pass class*, runs on every module below every top in every call, whatever earlier passes and earlier
  calls have completed (the pinned tree's repeats shared a class with the first run and were skipped).
* `bad_index_rejected` — every integer index outside `[-w, w)` and every slice that selects no bit (or
  has step zero) is rejected by `_slice_inner`, for every width (from C03).
* `array_width_rule` — `ArrayFlattener` accepts a connection to an array port exactly when its width is
  the port width (broadcast) or `n` times it, and then hands element `k` bits `[k·w, (k+1)·w)`.
* `portrefs_rejects_iff` — over the model of `ResolvePortRefs` (PortRefs.lean, whole-signal connections): the pass raises
  **exactly** when the module has a port that is neither connected nor referenced, a no-connected port that shares its
  group with another port, or two different declared signals in one group — and never fails to answer (`group_total`:
  the depth-first group discovery terminates within its fuel).
* `conntypes_passes_iff`, `conntypes_rejects` — over the model of `ConnTypes.check_instance` as it runs after flattening (pop
  each port's connection from a copy of `conns`; what is left over has no port): the check returns **exactly** when every port
  of the target is connected to something of its width and nothing else is connected; a missing connection, a connection
  of another width and a connection to a port that does not exist each make it raise.
The remaining fault classes (bad references and members, width mismatches
behind bundles and references, ownership, shared no-connects, cycles, module names) are decided by the
correspondence: single-fault mutants of valid designs at every site, with the declarative `Sem.src`
(Design.lean) as the judge of ill-formedness.
-/
import Hdl21Model.Props.C07
import Hdl21Model.Props.C03
import Hdl21Model.Lemmas.PortRefs
import Hdl21Model.Lemmas.ConnTypes
import Hdl21Model.Lemmas.Orphanage
import Hdl21Model.Lemmas.ModulePipe
import Hdl21Model.Props.C06
import Hdl21Model.Props.C01
import Hdl21Model.Lemmas.ResolveUnit
namespace Hdl21.Props.C02
open Hdl21 Hdl21.Runner

variable {S : Type}

/-- A pass class that has completed nowhere (its own, fresh `done` set) and meets no failed module runs
    on the visited module and leaves itself `done` on every module below it — in particular the
    post-flattening repeats of `ConnTypes` / `Orphanage` once they are classes of their own. -/
theorem repeat_pass_sees_every_module (sys : Sys S) (hdag : ∀ m c, c ∈ sys.children m → c < m) (k fuel : Nat)
    (st : RState S) (m : Nat) (hfresh : ∀ x, st.done k x = false) (hf : st.failed m = false)
    (hok : (visit sys k (fuel + 1) st m).2 = true) :
    (∃ (r : RState S) (s : S), sys.apply k r.σ m = some s ∧ (visit sys k (fuel + 1) st m).1.σ m = s) ∧
    ∀ x, Reach sys m x → (visit sys k (fuel + 1) st m).1.done k x = true := by
  refine ⟨Props.C07.visit_runs_pass sys k fuel st m (hfresh m) hf hok, ?_⟩
  exact Props.C07.visit_reaches_all sys hdag k (fuel + 1) st m (fun x hx => by rw [hfresh x] at hx; cases hx) hok

/-- Out-of-range integer indices, zero steps and empty selections are rejected for every width. -/
theorem bad_index_rejected (w : Nat) :
    (∀ i : Int, ¬ (-(w : Int) ≤ i ∧ i < w) → ∃ e, sliceInner w (.int i) = .error e) ∧
    (∀ a b st, (pyBits w a b st = none ∨ pyBits w a b st = some []) → ∃ e, sliceInner w (.range a b st) = .error e) :=
  ⟨fun i h => (Props.C03.index_int_reject w i h).1, fun a b st h => (Props.C03.range_reject_iff w a b st).2 h⟩

/-- `arrays.py`: the per-element connection of array element `k`, for a connection of width `cw` to a
    port of width `w` on an array of `n` elements: `none` = rejected. -/
def arrayElement (w n cw k : Nat) : Option (Nat × Nat) :=
  if cw = w then some (0, w)            -- broadcast: every element gets the whole connection
  else if cw = n * w then some (k * w, (k + 1) * w)
  else none

theorem array_width_rule (w n cw k : Nat) :
    ((arrayElement w n cw k).isSome ↔ (cw = w ∨ cw = n * w)) ∧
    (cw ≠ w → cw = n * w → k < n → arrayElement w n cw k = some (k * w, (k + 1) * w) ∧ (k + 1) * w ≤ cw) := by
  constructor
  · unfold arrayElement
    by_cases h1 : cw = w
    · simp [h1]
    · by_cases h2 : cw = n * w
      · rw [if_neg h1, if_pos h2]; simp [h2]
      · rw [if_neg h1, if_neg h2]; simp [h1, h2]
  · intro h1 h2 hk
    unfold arrayElement
    rw [if_neg h1, if_pos h2]
    refine ⟨rfl, ?_⟩
    rw [h2]; exact Nat.mul_le_mul_right w hk

/-! ## port references and no-connects: what is refused -/
section PortRefs
open Hdl21.PortRefs

/-- `ResolvePortRefs` refuses a module (leaves some port unresolved: raises) exactly when it is ill-formed. -/
theorem portrefs_rejects_iff (m : Mod) (wf : WF m) :
    (∃ p ∈ m.ports, resolvePort m p = none) ↔ IllFormed m :=
  resolve_none_iff wf (fun p hp => group_total wf p hp)

/-- … and otherwise resolves every port. -/
theorem portrefs_accepts_wellformed (m : Mod) (wf : WF m) (h : ¬ IllFormed m) :
    ∀ p ∈ m.ports, (resolvePort m p).isSome := by
  intro p hp
  cases hr : resolvePort m p with
  | some v => rfl
  | none => exact absurd ((portrefs_rejects_iff m wf).mp ⟨p, hp, hr⟩) h

/-! Non-vacuity: a no-connected port that another port refers to; a port nobody connects or refers to. -/
example : resolvePort ⟨[(0, 0), (1, 0)], [((0, 0), .nc 0), ((1, 0), .pref (0, 0))], 0⟩ (0, 0) = none := by decide +kernel
example : resolvePort ⟨[(0, 0), (1, 0)], [((1, 0), .sig 0)], 1⟩ (0, 0) = none := by decide +kernel
end PortRefs

/-! ## `ConnTypes.check_instance` -/
section ConnTypes
open Hdl21.ConnTypes

/-- The connection check of one instance returns iff every port is connected, with the port's width, and nothing else is. -/
theorem conntypes_passes_iff (io : List (String × Nat)) (conns : List (String × SConn))
    (hio : (io.map (·.1)).Nodup) (hc : (conns.map (·.1)).Nodup) :
    passes io conns = true ↔
      (∀ pw ∈ io, ∃ c, (pw.1, c) ∈ conns ∧ c.width = .ok pw.2) ∧ (∀ kc ∈ conns, kc.1 ∈ io.map (·.1)) :=
  passes_iff io conns hio hc

/-- Each of the three faults makes it raise: a port without a connection, a connection of another width (or of none), a
    connection to a port the target does not have. -/
theorem conntypes_rejects (io : List (String × Nat)) (conns : List (String × SConn))
    (hio : (io.map (·.1)).Nodup) (hc : (conns.map (·.1)).Nodup)
    (hbad : (∃ pw ∈ io, pw.1 ∉ conns.map (·.1)) ∨ (∃ pw ∈ io, ∃ c, (pw.1, c) ∈ conns ∧ c.width ≠ .ok pw.2) ∨
            (∃ kc ∈ conns, kc.1 ∉ io.map (·.1))) :
    passes io conns = false := by
  rw [Bool.eq_false_iff]
  intro h
  obtain ⟨hall, hex⟩ := (passes_iff io conns hio hc).mp h
  rcases hbad with ⟨pw, hpw, hno⟩ | ⟨pw, hpw, c, hcm, hw⟩ | ⟨kc, hkc, hno⟩
  · obtain ⟨c, hcm, _⟩ := hall pw hpw
    exact hno (List.mem_map.mpr ⟨(pw.1, c), hcm, rfl⟩)
  · obtain ⟨c', hcm', hw'⟩ := hall pw hpw
    have := unique_conn conns pw.1 c c' hc hcm hcm'
    exact hw (this ▸ hw')
  · exact hno (hex kc hkc)

example : passes [("p", 1), ("n", 2)] [("n", .sig "b" 2), ("p", .slice (.sig "b" 2) (.int 0))] = true ∧
    passes [("p", 1), ("n", 2)] [("n", .sig "b" 2)] = false ∧
    passes [("p", 1)] [("p", .sig "b" 2)] = false ∧
    passes [("p", 1)] [("p", .sig "a" 1), ("q", .sig "a" 1)] = false := by decide
end ConnTypes

/-! ## the ownership check (`Orphanage`) as a pass: when exactly it lets a module through -/
section Ownership
open Hdl21.Orphanage

/-- **`Orphanage` returns exactly when** every entry of the module's namespace is parented by the module and filed under its own
    name, and everything any connection of any instance, array or instance bundle is made of — the Signal or BundleInstance
    itself, the parent of a Slice, each part of a Concat, each member of an AnonymousBundle, the instance behind a PortRef, the
    root bundle behind a BundleRef — is parented by the module. (`owners` is the flat, declarative reading of a connectable;
    `passes` is the recursive check the code runs.) -/
theorem orphanage_passes_iff (me : Nat) (m : OModule) :
    Orphanage.passes me m = true ↔
      (∀ a ∈ m.attrs, a.owner = some me ∧ a.key = a.name) ∧ (∀ c ∈ m.conns, ∀ o ∈ owners c, o = some me) := by
  unfold Orphanage.passes
  simp only [Bool.and_eq_true, List.all_eq_true, beq_iff_eq]
  constructor
  · rintro ⟨ha, hc⟩
    exact ⟨ha, fun c hcm => (checkConn_iff me c).mp (hc c hcm)⟩
  · rintro ⟨ha, hc⟩
    exact ⟨ha, fun c hcm => (checkConn_iff me c).mpr (hc c hcm)⟩

/-- A signal, bundle or instance owned by nobody or by another module — anywhere inside a connection, however deep in slices,
    concatenations and anonymous bundles — makes it raise; so does a namespace entry parented elsewhere or filed under
    another name than its own. -/
theorem orphanage_rejects (me : Nat) (m : OModule)
    (hbad : (∃ c ∈ m.conns, ∃ o ∈ owners c, o ≠ some me) ∨ (∃ a ∈ m.attrs, a.owner ≠ some me ∨ a.key ≠ a.name)) :
    Orphanage.passes me m = false := by
  rw [Bool.eq_false_iff]
  intro h
  obtain ⟨ha, hc⟩ := (orphanage_passes_iff me m).mp h
  rcases hbad with ⟨c, hcm, o, ho, hne⟩ | ⟨a, ham, hne⟩
  · exact hne (hc c hcm o ho)
  · rcases hne with h1 | h2
    · exact h1 (ha a ham).1
    · exact h2 (ha a ham).2

/-- A no-connect is parented by nobody and is let through; a reference is judged by the instance (the root bundle) it refers to,
    not by the port (member) named. -/
theorem orphanage_exemptions (me : Nat) (p : String) (path : List String) :
    checkConn me .noconn = true ∧ checkConn me (.pref (some me) p) = true ∧ checkConn me (.bref (some me) path) = true ∧
    checkConn me (.pref none p) = false ∧ checkConn me (.bref (some (me + 1)) path) = false := by
  simp [checkConn]

/-- Non-vacuity: a module that passes; the same with a foreign signal three levels down; with an orphan instance behind a reference. -/
example :
    Orphanage.passes 7 ⟨[⟨"s", "s", some 7⟩], [.concat [.slice (.sig "s" 4 (some 7)) (.int 0), .anon [("x", .pref (some 7) "p")]], .noconn]⟩ = true ∧
    Orphanage.passes 7 ⟨[⟨"s", "s", some 7⟩], [.concat [.sig "s" 4 (some 7), .anon [("x", .slice (.sig "t" 2 (some 8)) (.int 1))]]]⟩ = false ∧
    Orphanage.passes 7 ⟨[⟨"s", "s", some 7⟩], [.pref none "p"]⟩ = false ∧
    Orphanage.passes 7 ⟨[⟨"s", "t", some 7⟩], []⟩ = false := by decide

end Ownership


/-! ## the passes composed: what gets through the default pass list and the exporter (fragment F1, ModulePipe.lean) -/
section Pipeline
open Hdl21.Pkg Hdl21.RoundTrip Hdl21.ExportWF Hdl21.ModulePipe

/-- a well-formed instance, declaratively: of something defined, every port of it connected to something of the port's width,
    nothing else connected, every connection over signals the module declares (with the widths it declares) -/
def InstWF (ctx : PRef → Option (List (String × Nat))) (ws : List (String × Nat)) (i : HInst) : Prop :=
  ∃ ports, ctx i.ref = some ports ∧ (∀ pw ∈ ports, ∃ c, (pw.1, c) ∈ i.conns ∧ c.width = .ok pw.2) ∧
    (∀ kc ∈ i.conns, kc.1 ∈ ports.map (·.1)) ∧ (∀ kc ∈ i.conns, sigsOK ws kc.2 = true)

/-- **Only well-formed modules get through**: if the composed default pass list and the exporter return a module, every
    instance the designer wrote is well-formed — whatever the nesting of slices and concatenations, the widths, the number of
    instances; no reference to an intermediate state. -/
theorem module_accepts_only_wellformed (fuel : Nat) (ctx : PRef → Option (List (String × Nat))) (h : HModule) (p : PModule)
    (hm : ModOK ctx h) (hp : pipeline fuel ctx h = .ok p) :
    ∀ i ∈ h.instances, InstWF ctx (sigList h) i := by
  obtain ⟨_, _, _, _, hcn, hctx⟩ := hm
  unfold pipeline at hp
  cases he : elabModule fuel ctx h with
  | error x => simp [he] at hp
  | ok e =>
    obtain ⟨ho, hc, _, _, _⟩ := elabModule_inv he
    intro i hi
    obtain ⟨ports, hcr, hpass⟩ := connTypes_inst hc i hi
    obtain ⟨h1, h2⟩ := (ConnTypes.passes_iff ports i.conns (hctx _ _ hcr) (hcn i hi)).mp hpass
    exact ⟨ports, hcr, h1, h2, orphanage_inst ho i hi⟩

/-- **Each fault class of the fragment, planted anywhere, makes the pipeline refuse**: an instance of something undefined; a
    port left unconnected; a connection to a port the target does not have; a connection whose width is not the port's — or
    which has no width at all (an index out of range, an empty or zero-step slice, at any depth of the expression); a
    connection naming a signal the module does not declare (or declares with another width: a stale object). -/
theorem module_faults_rejected (fuel : Nat) (ctx : PRef → Option (List (String × Nat))) (h : HModule)
    (hm : ModOK ctx h) (i : HInst) (hi : i ∈ h.instances) :
    (ctx i.ref = none → ∃ e, pipeline fuel ctx h = .error e) ∧
    (∀ ports pw, ctx i.ref = some ports → pw ∈ ports → pw.1 ∉ i.conns.map (·.1) → ∃ e, pipeline fuel ctx h = .error e) ∧
    (∀ ports kc, ctx i.ref = some ports → kc ∈ i.conns → kc.1 ∉ ports.map (·.1) → ∃ e, pipeline fuel ctx h = .error e) ∧
    (∀ ports pw c, ctx i.ref = some ports → pw ∈ ports → (pw.1, c) ∈ i.conns → c.width ≠ .ok pw.2 →
      ∃ e, pipeline fuel ctx h = .error e) ∧
    (∀ kc ∈ i.conns, sigsOK (sigList h) kc.2 = false → ∃ e, pipeline fuel ctx h = .error e) := by
  have key : ∀ (Q : Prop), (InstWF ctx (sigList h) i → Q → False) → Q → ∃ e, pipeline fuel ctx h = .error e := by
    intro Q hq q
    cases hp : pipeline fuel ctx h with
    | error e => exact ⟨e, rfl⟩
    | ok p => exact absurd q (fun q => hq (module_accepts_only_wellformed fuel ctx h p hm hp i hi) q)
  have hcn := hm.2.2.2.2.1 i hi
  refine ⟨?_, ?_, ?_, ?_, ?_⟩
  · exact key _ (fun ⟨ports, hc, _⟩ hn => by rw [hn] at hc; cases hc)
  · intro ports pw hc hpw hmiss
    refine key _ (fun ⟨ports', hc', h1, _⟩ _ => ?_) trivial
    rw [hc] at hc'; injection hc' with hc'; subst hc'
    obtain ⟨c, hcm, _⟩ := h1 pw hpw
    exact hmiss (List.mem_map.mpr ⟨(pw.1, c), hcm, rfl⟩)
  · intro ports kc hc hkc hextra
    refine key _ (fun ⟨ports', hc', _, h2, _⟩ _ => ?_) trivial
    rw [hc] at hc'; injection hc' with hc'; subst hc'
    exact hextra (h2 kc hkc)
  · intro ports pw c hc hpw hcm hw
    refine key _ (fun ⟨ports', hc', h1, _⟩ _ => ?_) trivial
    rw [hc] at hc'; injection hc' with hc'; subst hc'
    obtain ⟨c', hcm', hw'⟩ := h1 pw hpw
    have : c' = c := ConnTypes.unique_conn i.conns pw.1 c c' hcn hcm hcm'
    exact hw (this ▸ hw')
  · intro kc hkc hs
    refine key _ (fun ⟨_, _, _, _, h3⟩ _ => ?_) trivial
    have := h3 kc hkc
    rw [hs] at this; cases this

/-- **… and nothing well-formed is refused by the passes** (the converse of `module_accepts_only_wellformed`, with `resolve_total`):
    a module of fragment F1 whose namespace is a namespace, all of whose instances are well-formed and whose expressions hold no
    empty concatenation, goes through `Orphanage, ConnTypes, SliceResolver, ConnTypesRepeat, OrphanageRepeat` — with the fuel
    `fuelOf h`, computed from the module.  What is left to the exporter is its one documented refusal, a stepped slice taken
    directly from a Signal (DESIGN 6.0).  So the composed passes accept *exactly* the well-formed modules. -/
theorem module_elaboration_accepts (ctx : PRef → Option (List (String × Nat))) (h : HModule) (hm : ModOK ctx h)
    (hwf : ∀ i ∈ h.instances, InstWF ctx (sigList h) i)
    (hne : ∀ i ∈ h.instances, ∀ pc ∈ i.conns, pc.2.noEmpty = true) :
    ∃ e, elabModule (fuelOf h) ctx h = .ok e := by
  obtain ⟨_, _, _, _, hcn, hctx⟩ := hm
  -- the first two passes
  have ho : orphanage h = true := by
    unfold orphanage
    rw [List.all_eq_true]; intro i hi
    rw [List.all_eq_true]; intro pc hpc
    obtain ⟨_, _, _, _, h4⟩ := hwf i hi
    exact h4 pc hpc
  have hc : connTypes ctx h = true := by
    unfold connTypes
    rw [List.all_eq_true]; intro i hi
    obtain ⟨ports, hcr, h1, h2, _⟩ := hwf i hi
    simp only [hcr]
    exact (ConnTypes.passes_iff ports i.conns (hctx _ _ hcr) (hcn i hi)).mpr ⟨h1, h2⟩
  -- every connection has a width (it sits on a port), hence a denotation, hence is resolved
  have hwid : ∀ i ∈ h.instances, ∀ pc ∈ i.conns, ∃ w, pc.2.width = .ok w := by
    intro i hi pc hpc
    obtain ⟨ports, hcr, h1, h2, _⟩ := hwf i hi
    obtain ⟨pw, hpw, hpn⟩ := List.mem_map.mp (h2 pc hpc)
    obtain ⟨c, hcm, hw⟩ := h1 pw hpw
    have : c = pc.2 := by
      have hx : (pw.1, pc.2) ∈ i.conns := by rw [hpn]; exact hpc
      exact (ConnTypes.unique_conn i.conns pw.1 c pc.2 (hcn i hi) hcm hx).symm
    exact ⟨pw.2, this ▸ hw⟩
  have hres : ∀ i ∈ h.instances, ∀ pc ∈ i.conns, ∃ r, resolveSliceable (fuelOf h) pc.2 = .ok r := by
    intro i hi pc hpc
    obtain ⟨w, hw⟩ := hwid i hi pc hpc
    obtain ⟨bs, hd, _⟩ := width_denote pc.2 w hw
    obtain ⟨r, hr, _⟩ := Hdl21.Props.C03.resolve_total pc.2 bs hd (hne i hi pc hpc) (fuelOf h) (needR_le_fuelOf h i hi pc hpc)
    exact ⟨r, hr⟩
  obtain ⟨is, his⟩ := resolveInsts_total (fuelOf h) h.instances hres
  have hs : sliceResolver (fuelOf h) h = .ok ⟨h.name, h.signals, h.ports, is⟩ := by unfold sliceResolver; rw [his]
  obtain ⟨_, _, _, hrel⟩ := sliceResolver_inv hs
  have hsl : sigList (⟨h.name, h.signals, h.ports, is⟩ : HModule) = sigList h := rfl
  -- the repeats: a resolved connection has the width and the signals of the written one
  have hkeep : ∀ i ∈ h.instances, ∀ pc ∈ i.conns, ∀ r, resolveSliceable (fuelOf h) pc.2 = .ok r →
      r.width = pc.2.width ∧ sigsOK (sigList h) r = true := by
    intro i hi pc hpc r hr
    obtain ⟨w, hw⟩ := hwid i hi pc hpc
    obtain ⟨bs, hd, hl⟩ := width_denote pc.2 w hw
    have hrd := Hdl21.Props.C03.resolve_preserves_bits (fuelOf h) pc.2 r bs hr hd
    obtain ⟨_, _, _, _, h4⟩ := hwf i hi
    refine ⟨by rw [denote_width r bs hrd, hw, hl], ?_⟩
    exact (resolve_keeps (fun c => sigsOK (sigList h) c = true) (by
      constructor
      · intro p idx; rw [sigsOK]
      · intro ps; rw [sigsOK]
        induction ps with
        | nil => simp [sigsOKList]
        | cons p ps ih => simp [sigsOKList, ih]) (fuelOf h)).2.2.1 pc.2 r hr (h4 pc hpc)
  have hc' : connTypes ctx ⟨h.name, h.signals, h.ports, is⟩ = true := by
    unfold connTypes
    rw [List.all_eq_true]; intro r hr
    obtain ⟨i, hi, r1, r2, r3, rcs⟩ := forall2_mem_right hrel r hr
    obtain ⟨ports, hcr, h1, h2, _⟩ := hwf i hi
    simp only [r2, hcr]
    have hnd : (r.conns.map (·.1)).Nodup := by
      rw [forall2_map_eq (f := fun (pc : String × SConn) => pc.1) (g := fun (pc : String × SConn) => pc.1) (fun a b hr => hr.1) rcs]
      exact hcn i hi
    refine (ConnTypes.passes_iff ports r.conns (hctx _ _ hcr) hnd).mpr ⟨?_, ?_⟩
    · intro pw hpw
      obtain ⟨c, hcm, hw⟩ := h1 pw hpw
      obtain ⟨pr, hprm, e1, hrs⟩ := forall2_mem_left rcs (pw.1, c) hcm
      refine ⟨pr.2, ?_, ?_⟩
      · have : pr = (pw.1, pr.2) := Prod.ext e1 rfl
        rw [← this]; exact hprm
      · rw [(hkeep i hi (pw.1, c) hcm pr.2 hrs).1]; exact hw
    · intro kc hkc
      obtain ⟨pc, hpc, e1, _⟩ := forall2_mem_right rcs kc hkc
      rw [e1]; exact h2 pc hpc
  have ho' : orphanage ⟨h.name, h.signals, h.ports, is⟩ = true := by
    unfold orphanage
    rw [List.all_eq_true]; intro r hr
    rw [List.all_eq_true]; intro kc hkc
    obtain ⟨i, hi, _, _, _, rcs⟩ := forall2_mem_right hrel r hr
    obtain ⟨pc, hpc, _, hrs⟩ := forall2_mem_right rcs kc hkc
    rw [hsl]
    exact (hkeep i hi pc hpc kc.2 hrs).2
  exact ⟨⟨h.name, h.signals, h.ports, is⟩, by unfold elabModule; simp [ho, hc, hs, hc', ho']⟩

/-- **For unit-step modules the whole pipeline — passes and exporter — accepts exactly the well-formed ones.** If every index in
    every connection is an integer or a unit-step range (what C03 demands be accepted) and no concatenation is empty, then a
    package module comes back **iff** every instance is well-formed.  Nothing ill-formed is exported (C02), nothing well-formed
    is refused (C03's acceptance clause, here for a whole module). -/
theorem module_pipeline_accepts_iff (ctx : PRef → Option (List (String × Nat))) (h : HModule) (hm : ModOK ctx h)
    (hne : ∀ i ∈ h.instances, ∀ pc ∈ i.conns, pc.2.noEmpty = true)
    (hu : ∀ i ∈ h.instances, ∀ pc ∈ i.conns, pc.2.unit = true) :
    (∃ p, pipeline (fuelOf h) ctx h = .ok p) ↔ ∀ i ∈ h.instances, InstWF ctx (sigList h) i := by
  constructor
  · rintro ⟨p, hp⟩
    exact module_accepts_only_wellformed (fuelOf h) ctx h p hm hp
  · intro hwf
    obtain ⟨e, he⟩ := module_elaboration_accepts ctx h hm hwf hne
    obtain ⟨_, hc, hs, _, _⟩ := elabModule_inv he
    obtain ⟨_, _, hport, hrel⟩ := sliceResolver_inv hs
    -- every resolved connection is exported
    have hexp : ∀ r ∈ e.instances, ∃ cs, exportConns r.conns = .ok cs := by
      intro r hr
      obtain ⟨i, hi, _, _, _, rcs⟩ := forall2_mem_right hrel r hr
      obtain ⟨ports, hcr, hpass⟩ := connTypes_inst hc i hi
      have hall := (ConnTypes.passes_iff ports i.conns (hm.2.2.2.2.2 _ _ hcr) (hm.2.2.2.2.1 i hi)).mp hpass
      have key : ∀ (l : List (String × SConn)), (∀ kc ∈ l, ∃ t, exportTarget kc.2 = .ok t) → ∃ cs, exportConns l = .ok cs := by
        intro l
        induction l with
        | nil => intro _; exact ⟨[], by rw [exportConns]⟩
        | cons kc rest ih =>
          intro hl
          obtain ⟨t, ht⟩ := hl kc (List.mem_cons_self ..)
          obtain ⟨cs, hcs⟩ := ih (fun x hx => hl x (List.mem_cons_of_mem _ hx))
          obtain ⟨pn, c⟩ := kc
          exact ⟨(pn, t) :: cs, by rw [exportConns]; simp only [ht, hcs]⟩
      apply key
      intro kc hkc
      obtain ⟨pc, hpc, _, hrs⟩ := forall2_mem_right rcs kc hkc
      -- the written connection has a width (it sits on a port), hence a denotation
      obtain ⟨pw, hpw, hpn⟩ := List.mem_map.mp (hall.2 pc hpc)
      obtain ⟨c, hcm, hw⟩ := hall.1 pw hpw
      have hceq : c = pc.2 := by
        have hx : (pw.1, pc.2) ∈ i.conns := by rw [hpn]; exact hpc
        exact (ConnTypes.unique_conn i.conns pw.1 c pc.2 (hm.2.2.2.2.1 i hi) hcm hx).symm
      obtain ⟨bs, hd, _⟩ := width_denote pc.2 pw.2 (hceq ▸ hw)
      exact export_total kc.2 (Hdl21.Props.C03.resolve_flat _ pc.2 kc.2 hrs)
        ((resolve_unit (fuelOf h)).2.2.1 pc.2 kc.2 hrs (hu i hi pc hpc))
        ⟨bs, Hdl21.Props.C03.resolve_preserves_bits _ pc.2 kc.2 bs hrs hd⟩
    have hinsts : ∃ ps, exportInsts e.instances = .ok ps := by
      have key : ∀ (l : List HInst), (∀ r ∈ l, ∃ cs, exportConns r.conns = .ok cs) → ∃ ps, exportInsts l = .ok ps := by
        intro l
        induction l with
        | nil => intro _; exact ⟨[], by rw [exportInsts]⟩
        | cons r rest ih =>
          intro hl
          obtain ⟨cs, hcs⟩ := hl r (List.mem_cons_self ..)
          obtain ⟨ps, hps⟩ := ih (fun x hx => hl x (List.mem_cons_of_mem _ hx))
          exact ⟨⟨r.name, r.ref, r.params, cs⟩ :: ps, by rw [exportInsts]; simp only [hcs, hps]⟩
      exact key e.instances hexp
    obtain ⟨ps, hps⟩ := hinsts
    obtain ⟨q, hq⟩ := exportPorts_ok e.ports (by rw [hport]; exact hm.2.2.1)
    refine ⟨⟨e.name, (e.signals ++ e.ports).map (fun s => (s.name, s.width)), q, ps⟩, ?_⟩
    unfold pipeline; rw [he]
    show RoundTrip.exportModule e = _
    unfold RoundTrip.exportModule; rw [hq, hps]

/-- non-vacuity: a well-formed module gets through; the same module with bit 2 of a two-bit bus, with a port left open, with a
    three-bit connection on a two-bit port, with a signal of another module, is refused -/
example :
    let ctx : PRef → Option (List (String × Nat)) := fun _ => some [("p", 2), ("n", 1)]
    let mk (cs : List (String × SConn)) : HModule := ⟨"T", [⟨"s", 2, none⟩, ⟨"t", 3, none⟩], [], [⟨"x", .ext "d" "n", [], cs⟩]⟩
    (pipeline 40 ctx (mk [("p", .sig "s" 2), ("n", .slice (.sig "t" 3) (.int 2))])).toOption.isSome = true ∧
    (pipeline 40 ctx (mk [("p", .sig "s" 2), ("n", .slice (.sig "s" 2) (.int 2))])).toOption.isSome = false ∧
    (pipeline 40 ctx (mk [("p", .sig "s" 2)])).toOption.isSome = false ∧
    (pipeline 40 ctx (mk [("p", .sig "t" 3), ("n", .slice (.sig "t" 3) (.int 2))])).toOption.isSome = false ∧
    (pipeline 40 ctx (mk [("p", .sig "u" 2), ("n", .slice (.sig "t" 3) (.int 2))])).toOption.isSome = false := by
  decide +kernel
end Pipeline


/-! ## … with the ownership check as the code has it -/
section PipelineOwners
open Hdl21.Pkg Hdl21.RoundTrip Hdl21.ExportWF Hdl21.ModulePipe Hdl21.Orphanage

/-- **A signal owned by another module, or by none, anywhere inside a connection makes the composition refuse** — `Orphanage`
    itself (the owner check of Orphanage.lean, compared with the real pass by the `orphanage` stream) in front of the pipeline:
    one object in one connection of one instance whose `_parent_module` is not this module — at any depth of slices and
    concatenations — and no module is returned. -/
theorem foreign_owner_rejected (fuel : Nat) (ctx : PRef → Option (List (String × Nat))) (me : Nat) (name : String)
    (signals ports : List HSig) (insts : List OInst) (i : OInst) (hi : i ∈ insts) (pc : String × OConn) (hpc : pc ∈ i.conns)
    (o : Owner) (ho : o ∈ owners pc.2) (hne : o ≠ some me) :
    ∃ e, pipelineO fuel ctx me name signals ports insts = .error e := by
  have hfalse : (insts.all fun i => i.conns.all fun pc => checkConn me pc.2) = false := by
    cases hb : (insts.all fun i => i.conns.all fun pc => checkConn me pc.2) with
    | false => rfl
    | true =>
      have h1 := List.all_eq_true.mp hb i hi
      have h2 := List.all_eq_true.mp h1 pc hpc
      exact absurd ((checkConn_iff me pc.2).mp h2 o ho) hne
  unfold pipelineO
  simp [hfalse]

/-- … and what gets through is over the module's own declared signals, given C18's coherence (what a module parents is what it
    declares): the ownership hypothesis of the F1 theorems, discharged by the pass itself -/
theorem owned_connections_are_declared (me : Nat) (ws : List (String × Nat)) (c : OConn) (s : SConn)
    (hcoh : ∀ n w, (n, w, some me) ∈ sigObjs c → Pkg.lookup n ws = some w)
    (hpass : checkConn me c = true) (hres : erase c = some s) : sigsOK ws s = true :=
  erase_sigsOK me ws c s hcoh hpass hres
end PipelineOwners

/-! ## … with instance arrays -/
section PipelineArrays
open Hdl21.Pkg Hdl21.RoundTrip Hdl21.ExportWF Hdl21.ModulePipe Hdl21.ArrayPass

/-- **An ill-wired instance array yields no module.** If the pass list with `ArrayFlattener` in it (`pipelineA`) returns, every
    array is of something defined, has at least one element, and every connection of it is over the module's own signals, sits
    on a port the target has, and is as wide as that port or `n` times as wide — nothing in between, nothing beyond (the floor
    division of seeds C02-1 / C02-r8-2 accepted `n·w + r`).  What the expanded elements then have to satisfy as instances is
    `module_accepts_only_wellformed` on the flattened module: every port connected, nothing else. -/
theorem arrays_accepted_only_wellformed (fuel : Nat) (ctx : PRef → Option (List (String × Nat))) (nm : String → Nat → String)
    (arrs : List HArr) (h : HModule) (p : PModule) (hp : pipelineA fuel ctx nm arrs h = .ok p) :
    ∀ a ∈ arrs, ∃ ports, ctx a.ref = some ports ∧ 1 ≤ a.n ∧
      ∀ pc ∈ a.conns, sigsOK (sigList h) pc.2 = true ∧
        ∃ w cw, lookup pc.1 ports = some w ∧ pc.2.width = .ok cw ∧ (w = cw ∨ w * a.n = cw) := by
  unfold pipelineA at hp
  split at hp
  · cases hp
  · rename_i horph
    split at hp
    · cases hp
    · split at hp
      · cases hp
      · cases hf : flattenArrays ctx nm arrs.reverse h with
        | error x => simp [hf] at hp
        | ok h' =>
          obtain ⟨_, _, _, _, hall⟩ := flattenArrays_spec ctx nm arrs.reverse h h' hf
          intro a ha
          obtain ⟨els, hexp, _⟩ := hall a (List.mem_reverse.mpr ha)
          unfold expandArr at hexp
          cases hc : ctx a.ref with
          | none => simp [hc] at hexp
          | some ports =>
            simp only [hc] at hexp
            cases hx : ArrayPass.expand (ports.map fun pw => (pw.1, Port.sig pw.2)) a.n (a.conns.map fun pc => (pc.1, AConn.sig pc.2)) with
            | error x => simp [hx] at hexp
            | ok r =>
              obtain ⟨hn, hconns⟩ := (Hdl21.Props.C01.array_pass_accepts_iff _ a.n _).mp ⟨r, hx⟩
              refine ⟨ports, rfl, hn, ?_⟩
              intro pc hpc
              have hs : sigsOK (sigList h) pc.2 = true := by
                simp only [Bool.not_eq_true', Bool.not_eq_false] at horph
                have := List.all_eq_true.mp horph a ha
                exact List.all_eq_true.mp this pc hpc
              have := hconns (pc.1, AConn.sig pc.2) (List.mem_map.mpr ⟨pc, hpc, rfl⟩)
              simp only [lookupP_map] at this
              obtain ⟨w, cw, h1, h2, h3⟩ := this
              cases hl : lookup pc.1 ports with
              | none => simp [hl] at h1
              | some w' =>
                simp only [hl, Option.map_some, Option.some.injEq, Port.sig.injEq] at h1
                subst h1
                exact ⟨hs, w', cw, rfl, h2, h3⟩
end PipelineArrays

/-! ## … and for every module of an F1 design -/
section Hierarchy
open Hdl21.Pkg Hdl21.RoundTrip Hdl21.ExportWF Hdl21.ModulePipe Hdl21.Props.C06

/-- **A package comes back only for a design that is well-formed in every module**: if `pipelineDesign` (children first, every
    module through the composed pass list and the exporter) returns, then every instance of every module is well-formed against
    what its target *was exported as* — a module exported before it, a declared external module, a primitive.  One ill-formed
    instance anywhere in the hierarchy — `module_faults_rejected` lists the classes — and no package is returned. -/
theorem design_accepts_only_wellformed (fuel : Nat) (exts : List PExt) (hext : ∀ e ∈ exts, (e.ports.map (·.1)).Nodup) :
    ∀ (hs : List HModule) (acc mods : List PModule), (∀ h ∈ hs, ModOK₀ h) → (∀ m ∈ acc, (m.ports.map (·.1)).Nodup) →
      pipelineDesign fuel exts hs acc = .ok mods →
      ∀ h ∈ hs, ∃ earlier, earlier <+: mods ∧ ∀ i ∈ h.instances, InstWF (targetPorts ⟨[], exts⟩ earlier) (sigList h) i
  | [], acc, mods, _, _, _ => by intro h hh; cases hh
  | h :: rest, acc, mods, hm, hacc, hp => by
    unfold pipelineDesign at hp
    cases h1 : pipeline fuel (targetPorts ⟨[], exts⟩ acc) h with
    | error x => simp [h1] at hp
    | ok p =>
      simp only [h1] at hp
      obtain ⟨m1, m2, m3, m4, m5⟩ := hm h (List.mem_cons_self ..)
      have hmod : ModOK (targetPorts ⟨[], exts⟩ acc) h := ⟨m1, m2, m3, m4, m5, ctx_ports_distinct exts acc hacc hext⟩
      have hpn : (p.ports.map (·.1)).Nodup := by
        rw [pipeline_ports fuel _ h p h1]
        rw [List.map_append] at m1
        exact (List.nodup_append.mp m1).2.1
      have hacc' : ∀ m ∈ acc ++ [p], (m.ports.map (·.1)).Nodup := fun m hmem => by
        rcases List.mem_append.mp hmem with hm' | hm'
        · exact hacc m hm'
        · simp at hm'; subst hm'; exact hpn
      have hrest := design_accepts_only_wellformed fuel exts hext rest (acc ++ [p]) mods
        (fun x hx => hm x (List.mem_cons_of_mem _ hx)) hacc' hp
      obtain ⟨new, hnew, _⟩ := design_pipeline_wf fuel exts hext rest (acc ++ [p]) mods
        (fun x hx => hm x (List.mem_cons_of_mem _ hx)) hacc' hp
      intro x hx
      rcases List.mem_cons.mp hx with rfl | hx
      · exact ⟨acc, ⟨[p] ++ new, by rw [hnew]; simp⟩, module_accepts_only_wellformed fuel _ x p hmod h1⟩
      · exact hrest x hx
end Hierarchy

end Hdl21.Props.C02
