/-
# C10 — Bundle ports flatten to the documented names, directions and visibility

`flatten` mirrors `flatten_bundle_inst_helper`; `leafAt`/`dirRule` are the documented rule
stated per leaf path.  The theorems hold for bundle definition trees of any depth and fan-out.
-/
import Hdl21Model.Bundles
namespace Hdl21.Props.C10
open Hdl21 Hdl21.Bundles

/-- `PortDir.flipped` (regenerated from the code) swaps input and output, fixes the rest. -/
theorem flipped_table :
    Dir.flipped .input = .output ∧ Dir.flipped .output = .input ∧
    Dir.flipped .inout = .inout ∧ Dir.flipped .none = .none := by decide

theorem flipped_involutive : ∀ d : Dir, d.flipped.flipped = d := by intro d; cases d <;> rfl

/-- The direction the code computes for one leaf is the documented rule. -/
theorem leaf_dir (flip : Bool) (role : Option String) (l : Leaf) :
    (leafOut true flip role l).dir = dirRule l flip role ∧
    (leafOut true flip role l).isPort = true ∧
    (leafOut true flip role l).width = l.width ∧ (leafOut true flip role l).path = [l.name] := by
  refine ⟨?_, rfl, rfl, rfl⟩
  unfold leafOut dirRule
  simp only [if_true]
  cases hp : l.isPort
  · simp
  · cases hd : l.dir <;> cases flip <;> simp [Dir.flipped]

/-- Leaves of a non-port bundle instance become internal, undirected signals. -/
theorem leaf_internal (flip : Bool) (role : Option String) (l : Leaf) :
    leafOut false flip role l = ⟨[l.name], l.width, false, .none⟩ := rfl

mutual
/-- One flattened signal per leaf. -/
theorem flatten_count (p f : Bool) (r : Option String) : (t : BTree) →
    (flatten p f r t).length = leafCount t
  | .node sigs subs => by
    unfold flatten leafCount
    rw [List.length_append, List.length_map, flattenSubs_count p f subs]
theorem flattenSubs_count (p f : Bool) : (subs : List (String × Bool × Option String × BTree)) →
    (flattenSubs p f subs).length = leafCountSubs subs
  | [] => by unfold flattenSubs leafCountSubs; rfl
  | (n, fl, r, t) :: rest => by
    unfold flattenSubs leafCountSubs
    rw [List.length_append, List.length_map, flatten_count p _ r t, flattenSubs_count p f rest]
end

/-- Names inside one bundle definition are distinct (they are dictionary keys). -/
def nodupNames (sigs : List Leaf) (subs : List (String × Bool × Option String × BTree)) : Prop :=
  (sigs.map (·.name) ++ subs.map (·.1)).Nodup

mutual
inductive WF : BTree → Prop
  | node (sigs subs) : nodupNames sigs subs → WFSubs subs → WF (.node sigs subs)
inductive WFSubs : List (String × Bool × Option String × BTree) → Prop
  | nil : WFSubs []
  | cons (n f r t rest) : WF t → WFSubs rest → WFSubs ((n, f, r, t) :: rest)
end

theorem find_of_mem_nodup {sigs : List Leaf} {l : Leaf} (hm : l ∈ sigs)
    (hnd : (sigs.map (·.name)).Nodup) : sigs.find? (fun x => x.name = l.name) = some l := by
  induction sigs with
  | nil => cases hm
  | cons a rest ih =>
    simp only [List.map_cons, List.nodup_cons] at hnd
    rcases List.mem_cons.1 hm with h | h
    · subst h; simp [List.find?]
    · have hne : a.name ≠ l.name := by
        intro he
        exact hnd.1 (by rw [he]; exact List.mem_map_of_mem h)
      simp [List.find?, hne, ih h hnd.2]

mutual
/-- Every flattened signal is the image of the leaf at its path, with width, visibility and
    direction given by the documented rule (parity of flips on the path, role of the declaring
    instance). -/
theorem flatten_sound (p f : Bool) (r : Option String) : (t : BTree) → WF t →
    ∀ x ∈ flatten p f r t, ∃ l par r', leafAt f r t x.path = some (l, par, r') ∧
      x.width = l.width ∧ x.isPort = p ∧ x.dir = (if p then dirRule l par r' else .none)
  | .node sigs subs, hwf => by
    intro x hx
    cases hwf with
    | node _ _ hnd hws =>
    unfold flatten at hx
    rcases List.mem_append.1 hx with h | h
    · obtain ⟨l, hl, rfl⟩ := List.mem_map.1 h
      have hnd' : (sigs.map (·.name)).Nodup := (List.nodup_append.1 hnd).1
      refine ⟨l, f, r, ?_, ?_⟩
      · cases p <;> simp [leafOut, leafAt, find_of_mem_nodup hl hnd']
      · cases p
        · simp [leafOut]
        · have := leaf_dir f r l
          simp [this.1, this.2.1, this.2.2.1]
    · -- in a sub-bundle: the path starts with a sub-instance name, which is not a leaf name
      have hnds : (subs.map (·.1)).Nodup := (List.nodup_append.1 hnd).2.1
      have := flattenSubs_sound p f subs hws hnds x h
      obtain ⟨n, rest, hpath, hne, _, l, par, r', hla, hrest⟩ := this
      refine ⟨l, par, r', ?_, hrest⟩
      rw [hpath]
      cases rest with
      | nil => exact absurd rfl hne
      | cons a b => simp only [leafAt]; exact hla
theorem flattenSubs_sound (p f : Bool) : (subs : List (String × Bool × Option String × BTree)) →
    WFSubs subs → (subs.map (·.1)).Nodup →
    ∀ x ∈ flattenSubs p f subs, ∃ n rest, x.path = n :: rest ∧ rest ≠ [] ∧ n ∈ subs.map (·.1) ∧
      ∃ l par r', leafAtSubs f subs n rest = some (l, par, r') ∧
        x.width = l.width ∧ x.isPort = p ∧ x.dir = (if p then dirRule l par r' else .none)
  | [], _, _ => by intro x hx; unfold flattenSubs at hx; cases hx
  | (m, fl, r, t) :: more, hws, hnd => by
    intro x hx
    simp only [List.map_cons, List.nodup_cons] at hnd
    cases hws with
    | cons _ _ _ _ _ hwt hwm =>
    unfold flattenSubs at hx
    rcases List.mem_append.1 hx with h | h
    · obtain ⟨y, hy, rfl⟩ := List.mem_map.1 h
      obtain ⟨l, par, r', hla, hrest⟩ := flatten_sound p _ r t hwt y hy
      refine ⟨m, y.path, rfl, ?_, by simp, l, par, r', ?_, hrest⟩
      · intro he; rw [he] at hla; cases t; simp [leafAt] at hla
      · simp [leafAtSubs, hla]
    · obtain ⟨n, rest, hpath, hne, hmem, l, par, r', hla, hrest⟩ := flattenSubs_sound p f more hwm hnd.2 x h
      refine ⟨n, rest, hpath, hne, by simp [hmem], l, par, r', ?_, hrest⟩
      have hmn : m ≠ n := by
        intro he; rw [he] at hnd; exact hnd.1 hmem
      simp [leafAtSubs, hmn, hla]
end

/-- Both sides of a bundle connection agree on which flattened port carries which member:
    every connection made pairs the instance-side port of a member path with the parent-side
    signal of the same path, and nothing is connected if a member is missing. -/
theorem both_sides_agree (pi qi : String) (ps qs : List Flat) (cs : List (String × String))
    (h : connectByPath pi qi qs ps = some cs) :
    cs.length = ps.length ∧
    ∀ c ∈ cs, ∃ p ∈ ps, ∃ q ∈ qs, q.path = p.path ∧ c = (flatName pi p.path, flatName qi p.path) := by
  induction ps generalizing cs with
  | nil => simp [connectByPath] at h; subst h; simp
  | cons p rest ih =>
    unfold connectByPath at h
    cases hf : qs.find? (fun q => q.path = p.path) with
    | none => simp [hf] at h
    | some q =>
      cases hr : connectByPath pi qi qs rest with
      | none => simp [hf, hr] at h
      | some cs' =>
        simp only [hf, hr, Option.some.injEq] at h
        subst h
        obtain ⟨hl, hall⟩ := ih cs' hr
        have hq := List.find?_some hf
        have hqm := List.mem_of_find?_eq_some hf
        simp only [decide_eq_true_eq] at hq
        refine ⟨by simp [hl], ?_⟩
        intro c hc
        rcases List.mem_cons.1 hc with h | h
        · exact ⟨p, by simp, q, hqm, hq, by rw [h, hq]⟩
        · obtain ⟨p', hp', q', hq', hpath, hceq⟩ := hall c h
          exact ⟨p', by simp [hp'], q', hq', hpath, hceq⟩

/-- The flattened name is the instance name and the member path joined by underscores. -/
example : flatName "p" ["a", "x"] = "p_a_x" := by decide

/-! ### Non-vacuity: a three-level tree with flips at two levels -/
example :
    let leaf : Leaf := ⟨"x", 1, true, .input, none, none⟩
    let inner : BTree := .node [leaf] []
    let mid : BTree := .node [leaf] [("i", true, none, inner)]
    let top : BTree := .node [] [("m", false, none, mid)]
    (flatten true true none top).map (fun f => (f.path, f.dir)) =
      [(["m", "x"], .output), (["m", "i", "x"], .input)] := by decide

end Hdl21.Props.C10
