/-
# C04 — The last connection made to a port is the one that gets built

The state that connection operations leave behind — `conns` of every instance, `_connected_ports` of
every connectable, the references handed out — is modelled in `InstOps.lean`.  Proved for every finite
history of connect (by call, by assignment, explicit), replace, disconnect and reference creation:

* `backrefs_inv`            the back-reference sets are exactly the inverse of `conns`, whatever happened;
* `history_is_final_map`    `conns` is the finite map the history denotes (last write wins, a disconnect
                            erases, a `replace` of an unconnected port does nothing but raise);
* `last_connect_wins`, `disconnected_leaves_nothing`   the two readings of that map the property names;
* `no_trace`                two histories that end in the same map end with the same back-reference sets:
                            what was connected and later replaced or disconnected is referenced by nothing
                            that elaboration reads through `conns` and `_connected_ports`;
* `follow_edges_symmetric`  the graph that group discovery (`portrefs.follow`) walks — forward through
                            `conns`, backward through `_connected_ports` — is the symmetric closure of the
                            final map;
* `remove_never_raises`     the `set.remove` calls in replace/disconnect always find their element;
* `refs_only_grow`          references are never dropped, and there is one per port (`Refs.all` is keyed).
What the elaborator makes of that state is checked on the implementation: the package built from a
history equals the package built from its final map (correspondence, with the model's state compared
after every single operation).
-/
import Hdl21Model.Lemmas.InstOps
import Hdl21Model.Lemmas.Dfs
namespace Hdl21.Props.C04
open Hdl21.InstOps

/-- Back-references are the inverse of `conns` in every reachable state. -/
theorem backrefs_inv (ops : List Op) : Inv (run init ops) := inv_run inv_init ops

/-- The one-step form: from any state that satisfies the invariant. -/
theorem backrefs_inv_step (s : State) (h : Inv s) (op : Op) : Inv (step s op).1 := inv_step h op

theorem abs_run (s : State) (h : Inv s) (ops : List Op) : abs (run s ops) = specRun (abs s) ops := by
  induction ops generalizing s with
  | nil => rfl
  | cons op ops ih =>
    show abs (run (step s op).1 ops) = specRun (specStep (abs s) op) ops
    rw [ih _ (inv_step h op), abs_step h op]

/-- `conns` after a history is the finite map the history denotes. -/
theorem history_is_final_map (ops : List Op) :
    abs (run init ops) = specRun (fun _ => none) ops := by
  rw [abs_run init inv_init ops]; rfl

def touches : Op → Port → Bool
  | .connect q _, p | .replace q _, p | .disconnect q, p => q = p
  | .getref _, _ => false

theorem specRun_untouched (m : Spec) (later : List Op) (p : Port) (h : ∀ op ∈ later, touches op p = false) :
    specRun m later p = m p := by
  induction later generalizing m with
  | nil => rfl
  | cons op later ih =>
    show specRun (specStep m op) later p = m p
    rw [ih _ (fun o ho => h o (List.mem_cons_of_mem _ ho))]
    have := h op (List.mem_cons_self ..)
    cases op with
    | getref q => rfl
    | connect q c => simp [touches] at this; simp [specStep, Ne.symm this]
    | replace q c => simp [touches] at this; simp [specStep, Ne.symm this]
    | disconnect q => simp [touches] at this; simp [specStep, Ne.symm this]

theorem specRun_append (m : Spec) (a b : List Op) : specRun m (a ++ b) = specRun (specRun m a) b := by
  simp [specRun, List.foldl_append]

/-- Whatever came before, the last connection made to a port is the one in `conns`. -/
theorem last_connect_wins (before later : List Op) (p : Port) (c : Conn)
    (h : ∀ op ∈ later, touches op p = false) :
    abs (run init (before ++ [.connect p c] ++ later)) p = some c := by
  rw [history_is_final_map, specRun_append, specRun_untouched _ _ _ h, specRun_append]
  simp [specRun, specStep]

/-- A port disconnected last is connected to nothing, and nothing holds a back-reference to it. -/
theorem disconnected_leaves_nothing (before later : List Op) (p : Port)
    (h : ∀ op ∈ later, touches op p = false) :
    let s := run init (before ++ [.disconnect p] ++ later)
    abs s p = none ∧ ∀ c, p ∉ s.back c := by
  have h1 : abs (run init (before ++ [.disconnect p] ++ later)) p = none := by
    rw [history_is_final_map, specRun_append, specRun_untouched _ _ _ h, specRun_append]
    simp [specRun, specStep]
  refine ⟨h1, fun c hc => ?_⟩
  have := ((backrefs_inv _).back c p).mp hc
  rw [show lookup _ p = abs _ p from rfl, h1] at this
  cases this

/-- Histories with the same final map leave the same back-reference sets: a replaced or disconnected
    object is not referenced from anywhere. -/
theorem no_trace (ops₁ ops₂ : List Op)
    (h : abs (run init ops₁) = abs (run init ops₂)) (c : Conn) (p : Port) :
    p ∈ (run init ops₁).back c ↔ p ∈ (run init ops₂).back c := by
  rw [(backrefs_inv ops₁).back c p, (backrefs_inv ops₂).back c p]
  show abs _ p = some c ↔ abs _ p = some c
  rw [h]

/-- In particular: an object that is connected to no port in the final map has an empty set. -/
theorem replaced_object_forgotten (ops : List Op) (c : Conn)
    (h : ∀ p, abs (run init ops) p ≠ some c) : (run init ops).back c = [] := by
  apply List.eq_nil_iff_forall_not_mem.mpr
  intro p hp
  exact h p (((backrefs_inv ops).back c p).mp hp)

/-- The edges group discovery follows backwards are exactly the forward edges of the final map. -/
theorem follow_edges_symmetric (ops : List Op) (p q : Port) :
    q ∈ (run init ops).back (.pref p) ↔ abs (run init ops) q = some (.pref p) :=
  (backrefs_inv ops).back _ _

/-- `old._connected_ports.remove(connref)` never raises. -/
theorem remove_never_raises (ops : List Op) (op : Op) : removeWouldRaise (run init ops) op = false := by
  have h := backrefs_inv ops
  cases op with
  | getref p => rfl
  | connect p c | replace p c | disconnect p =>
    simp only [removeWouldRaise]
    cases hl : lookup (run init ops).conns p with
    | none => rfl
    | some old => simp [back_present h hl]

/-- References are never dropped. -/
theorem refs_only_grow (s : State) (op : Op) (p : Port) :
    (p ∈ s.all → p ∈ (step s op).1.all) ∧ (p ∈ s.prefs → p ∈ (step s op).1.prefs) ∧
    (p ∈ s.crefs → p ∈ (step s op).1.crefs) := by
  cases op with
  | getref q => simp only [step, portref]; exact ⟨fun h => (mem_insertSet _ _ _).mpr (Or.inl h), fun h => (mem_insertSet _ _ _).mpr (Or.inl h), id⟩
  | replace q c =>
    simp only [step, doReplace, connref]
    cases lookup s.conns q <;>
      exact ⟨fun h => (mem_insertSet _ _ _).mpr (Or.inl h), id, fun h => (mem_insertSet _ _ _).mpr (Or.inl h)⟩
  | connect q c =>
    simp only [step, doReplace, connref]
    cases lookup s.conns q <;>
      exact ⟨fun h => (mem_insertSet _ _ _).mpr (Or.inl h), id, fun h => (mem_insertSet _ _ _).mpr (Or.inl h)⟩
  | disconnect q =>
    simp only [step, connref]
    cases lookup s.conns q
    · exact ⟨id, id, id⟩
    · exact ⟨fun h => (mem_insertSet _ _ _).mpr (Or.inl h), id, fun h => (mem_insertSet _ _ _).mpr (Or.inl h)⟩

/-- Every connected port has its reference object on file, in every reachable state. -/
theorem connected_port_has_ref (ops : List Op) (p : Port) (c : Conn)
    (h : abs (run init ops) p = some c) : p ∈ (run init ops).crefs ∧ p ∈ (run init ops).all :=
  ⟨(backrefs_inv ops).conn_has_ref p c h, (backrefs_inv ops).allC p ((backrefs_inv ops).conn_has_ref p c h)⟩

/-! Non-vacuity: a history that replaces a port reference by a signal and disconnects another port. -/
example :
    let ops := [Op.getref (0, 1), .connect (1, 0) (.pref (0, 1)), .connect (0, 1) (.obj 7),
                .connect (1, 0) (.obj 8), .connect (1, 2) (.obj 7), .disconnect (1, 2)]
    abs (run init ops) (1, 0) = some (.obj 8) ∧ (run init ops).back (.pref (0, 1)) = [] ∧
    (run init ops).back (.obj 7) = [(0, 1)] ∧ (run init ops).prefs = [(0, 1)] := by decide

end Hdl21.Props.C04

/-! ## Group discovery (`portrefs.follow`) sees the final map only -/
namespace Hdl21.Props.C04
open Hdl21.InstOps Hdl21.Dfs

/-- the ports `follow` moves to from port `p`: forward through `conns` (when connected to a port reference), backward
    through the `_connected_ports` of `p`'s own reference -/
def nbrs (s : State) (p : Port) : List Port :=
  (match lookup s.conns p with | some (.pref q) => [q] | _ => []) ++ s.back (.pref p)

/-- the same, read off the final map alone -/
def Adj (m : Spec) (p q : Port) : Prop := m p = some (.pref q) ∨ m q = some (.pref p)

theorem nbrs_iff_adj (ops : List Op) (p q : Port) :
    q ∈ nbrs (run init ops) p ↔ Adj (abs (run init ops)) p q := by
  unfold nbrs Adj
  rw [List.mem_append, follow_edges_symmetric]
  constructor
  · rintro (h | h)
    · left
      cases hl : lookup (run init ops).conns p with
      | none => simp [hl] at h
      | some c =>
        cases c with
        | obj n => simp [hl] at h
        | pref q' => simp only [hl, List.mem_singleton] at h; subst h; exact hl
    · right; exact h
  · rintro (h | h)
    · left
      have : lookup (run init ops).conns p = some (.pref q) := h
      simp [this]
    · right; exact h

/-- reachability in the graph of the final map -/
inductive Linked (m : Spec) : Port → Port → Prop
  | refl (a : Port) : Linked m a a
  | step {a b c : Port} : Adj m a b → Linked m b c → Linked m a c

theorem reach_iff_linked (ops : List Op) (a b : Port) :
    Reach (nbrs (run init ops)) a b ↔ Linked (abs (run init ops)) a b := by
  constructor
  · intro hr
    induction hr with
    | refl a => exact .refl a
    | step hb _ ih => exact .step ((nbrs_iff_adj ops _ _).mp hb) ih
  · intro hl
    induction hl with
    | refl a => exact .refl a
    | step hb _ ih => exact .step ((nbrs_iff_adj ops _ _).mpr hb) ih

/-- **The group `follow` discovers from a port is the set of ports linked to it in the final map** — whatever history
    produced that map, and whatever was connected and replaced on the way. -/
theorem follow_group_is_component (ops : List Op) (fuel : Nat) (p : Port) (g : List Port)
    (h : dfs (nbrs (run init ops)) fuel p [] = some g) :
    ∀ x, x ∈ g ↔ Linked (abs (run init ops)) p x := by
  intro x
  rw [dfs_component (nbrs (run init ops)) fuel p g h x]
  exact reach_iff_linked ops p x

/-- Two histories with the same final map discover the same groups. -/
theorem groups_depend_on_final_map_only (ops₁ ops₂ : List Op) (heq : abs (run init ops₁) = abs (run init ops₂))
    (fuel₁ fuel₂ : Nat) (p : Port) (g₁ g₂ : List Port)
    (h₁ : dfs (nbrs (run init ops₁)) fuel₁ p [] = some g₁) (h₂ : dfs (nbrs (run init ops₂)) fuel₂ p [] = some g₂) :
    ∀ x, x ∈ g₁ ↔ x ∈ g₂ := by
  intro x
  rw [follow_group_is_component ops₁ fuel₁ p g₁ h₁ x, follow_group_is_component ops₂ fuel₂ p g₂ h₂ x, heq]

end Hdl21.Props.C04
