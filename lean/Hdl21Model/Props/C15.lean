/-
# C15 — PDK compilation swaps device targets and nothing else

**The walk** (any hierarchy, any sharing, any device map — `Pdk.lean`):
* `compile_keeps_structure`     modules, instance names, instance order and every connection are unchanged;
* `compile_touches_only_mapped` an instance's target changes only if it is a technology-mapped primitive in a
                                module the walk reaches, and then to exactly the device the map gives; all other
                                instances are untouched;
* `equal_params_same_device`    equal primitive parameters give the same device call;
* `compile_idempotent`          compiling twice equals compiling once (devices are external-module calls);
* `compile_error_is_a_device_error`  compilation fails only with the error of a request no device satisfies.
**Selection** — for any table: `select_by_key_sound`, `select_sky130_sound`, `select_gf180_sound` (what is found is
in the table, carries the requested name / type-family-threshold / type-family, and for Gf180 is the only such);
over the tables regenerated from /repo on every run, by evaluation in the kernel:
* `*_keys_unique`, `*_every_entry_by_its_model_name`   each entry of each table is what its own name selects;
* `sky130_every_triple_selects`, `gf180_every_pair_resolves`   every type/family/threshold triple (Sky130) or
                                type/family pair (Gf180) carried by some entry selects an entry carrying it — for Gf180
                                that very entry, or the descriptive ambiguity error when several carry the pair;
* `*_defaults_present`          every device the code looks up a default size for has one;
* `*_ports_partial`             device ports are the primitive's ports (each connected exactly once after the swap) —
                                for every entry **except** those in `knownPortMismatch*`, for which the negation is proved
                                (`*_port_mismatch_witness`): five-terminal Mos and four-terminal bipolar devices, recorded as
                                known findings; resistor / capacitor entries fit exactly one of the two- and three-terminal
                                primitives (`*_fit_one_primitive`).
**Registry**: `registry_default`, `registry_by_name`, `registry_by_module`.
-/
import Hdl21Model.Pdk
import Hdl21Model.Generated.PdkTables
import Hdl21Model.Memo
namespace Hdl21.Props.C15
open Hdl21.Pdk

/-! ## The walk -/

theorem visitInst_spec {dm : DevMap} {i i' : Inst} (h : visitInst dm i = .ok i') :
    i'.name = i.name ∧ i'.conns = i.conns ∧
    (i'.target = i.target ∨ ∃ k p, i.target = .prim k p ∧ dm k p = some (.ok i'.target)) := by
  unfold visitInst at h
  split at h
  · rename_i k p ht
    split at h
    · injection h with h; subst h; exact ⟨rfl, rfl, Or.inl rfl⟩
    · rename_i t hd
      injection h with h; subst h
      exact ⟨rfl, rfl, Or.inr ⟨k, p, ht, hd⟩⟩
    · cases h
  · injection h with h; subst h; exact ⟨rfl, rfl, Or.inl rfl⟩

theorem visitInsts_spec {dm : DevMap} : ∀ {l l' : List Inst}, visitInsts dm l = .ok l' →
    l'.map (·.name) = l.map (·.name) ∧ l'.map (·.conns) = l.map (·.conns) ∧ l'.length = l.length ∧
    ∀ (n : Nat) (i i' : Inst), l[n]? = some i → l'[n]? = some i' → visitInst dm i = .ok i'
  | [], l', h => by
    simp only [visitInsts] at h; injection h with h; subst h
    exact ⟨rfl, rfl, rfl, fun n i i' hi => by simp at hi⟩
  | i :: r, l', h => by
    simp only [visitInsts] at h
    split at h
    · rename_i i1 r1 hi hr
      injection h with h; subst h
      obtain ⟨hn, hc, hl, hall⟩ := visitInsts_spec hr
      obtain ⟨h1, h2, _⟩ := visitInst_spec hi
      refine ⟨by simp [h1, hn], by simp [h2, hc], by simp [hl], ?_⟩
      intro n a a' ha ha'
      cases n with
      | zero => simp at ha ha'; subst ha; subst ha'; exact hi
      | succ n => simp only [List.getElem?_cons_succ] at ha ha'; exact hall n a a' ha ha'
    · cases h
    · cases h

theorem compileFrom_spec {dm : DevMap} {reach : Nat → Bool} : ∀ {k : Nat} {d d' : List Mod},
    compileFrom dm reach k d = .ok d' →
    d'.length = d.length ∧
    ∀ (n : Nat) (m m' : Mod), d[n]? = some m → d'[n]? = some m' →
      (if reach (k + n) then visitMod dm m = .ok m' else m' = m)
  | k, [], d', h => by
    simp only [compileFrom] at h; injection h with h; subst h
    exact ⟨rfl, fun n m m' hm => by simp at hm⟩
  | k, m :: r, d', h => by
    simp only [compileFrom] at h
    split at h
    · rename_i m1 r1 hm hr
      injection h with h; subst h
      obtain ⟨hl, hall⟩ := compileFrom_spec hr
      refine ⟨by simp [hl], ?_⟩
      intro n a a' ha ha'
      cases n with
      | zero =>
        simp at ha ha'; subst ha; subst ha'
        simp only [Nat.add_zero]
        split
        · rename_i hk; simpa [hk] using hm
        · rename_i hk; simp only [hk] at hm; injection hm with hm; exact hm.symm
      | succ n =>
        simp only [List.getElem?_cons_succ] at ha ha'
        have := hall n a a' ha ha'
        rwa [show k + 1 + n = k + (n + 1) by omega] at this
    · cases h
    · cases h

/-- Hierarchy, instance names and order, and every connection are as they were. -/
theorem compile_keeps_structure (dm : DevMap) (reach : Nat → Bool) (d d' : Design) (h : compile dm reach d = .ok d') :
    d'.length = d.length ∧
    ∀ (n : Nat) (m m' : Mod), d[n]? = some m → d'[n]? = some m' →
      m'.name = m.name ∧ m'.insts.map (·.name) = m.insts.map (·.name) ∧
      m'.insts.map (·.conns) = m.insts.map (·.conns) ∧ m'.insts.length = m.insts.length := by
  obtain ⟨hl, hall⟩ := compileFrom_spec h
  refine ⟨hl, ?_⟩
  intro n m m' hm hm'
  have := hall n m m' hm hm'
  simp only [Nat.zero_add] at this
  split at this
  · unfold visitMod at this
    split at this
    · rename_i insts hv
      injection this with this; subst this
      obtain ⟨h1, h2, h3, _⟩ := visitInsts_spec hv
      exact ⟨rfl, h1, h2, h3⟩
    · cases this
  · subst this; exact ⟨rfl, rfl, rfl, rfl⟩

/-- Only technology-mapped primitives in reached modules change target, and to what the device map says. -/
theorem compile_touches_only_mapped (dm : DevMap) (reach : Nat → Bool) (d d' : Design) (h : compile dm reach d = .ok d')
    (n : Nat) (m m' : Mod) (hm : d[n]? = some m) (hm' : d'[n]? = some m')
    (j : Nat) (i i' : Inst) (hi : m.insts[j]? = some i) (hi' : m'.insts[j]? = some i') :
    i'.target = i.target ∨ (reach n = true ∧ ∃ k p, i.target = .prim k p ∧ dm k p = some (.ok i'.target)) := by
  obtain ⟨_, hall⟩ := compileFrom_spec h
  have := hall n m m' hm hm'
  simp only [Nat.zero_add] at this
  split at this
  · rename_i hr
    unfold visitMod at this
    split at this
    · rename_i insts hv
      injection this with this; subst this
      obtain ⟨_, _, _, hall2⟩ := visitInsts_spec hv
      have hvi := hall2 j i i' hi hi'
      rcases (visitInst_spec hvi).2.2 with h1 | h1
      · exact Or.inl h1
      · exact Or.inr ⟨hr, h1⟩
    · cases this
  · subst this
    rw [hi] at hi'; injection hi' with hi'; subst hi'
    exact Or.inl rfl

/-- Equal primitive parameters give the same device call. -/
theorem equal_params_same_device (dm : DevMap) (i₁ i₂ i₁' i₂' : Inst)
    (h₁ : visitInst dm i₁ = .ok i₁') (h₂ : visitInst dm i₂ = .ok i₂') (ht : i₁.target = i₂.target) :
    i₁'.target = i₂'.target := by
  unfold visitInst at h₁ h₂
  rw [ht] at h₁
  cases hk : i₂.target with
  | module k => simp only [hk] at h₁ h₂; injection h₁ with h₁; injection h₂ with h₂; subst h₁; subst h₂; rw [ht]
  | ext a b => simp only [hk] at h₁ h₂; injection h₁ with h₁; injection h₂ with h₂; subst h₁; subst h₂; rw [ht]
  | prim k p =>
    simp only [hk] at h₁ h₂
    cases hd : dm k p with
    | none => simp only [hd] at h₁ h₂; injection h₁ with h₁; injection h₂ with h₂; subst h₁; subst h₂; rw [ht]
    | some r =>
      cases r with
      | error e => simp [hd] at h₁
      | ok t => simp only [hd] at h₁ h₂; injection h₁ with h₁; injection h₂ with h₂; subst h₁; subst h₂; rfl

/-- a device map whose devices are external-module calls (what every PDK's is) -/
def DevicesAreExternal (dm : DevMap) : Prop := ∀ k p t, dm k p = some (.ok t) → ∃ n q, t = .ext n q

theorem visitInst_idem {dm : DevMap} (hd : DevicesAreExternal dm) {i i' : Inst} (h : visitInst dm i = .ok i')
    (hm : ∀ k p, i.target = .prim k p → dm k p ≠ none) : visitInst dm i' = .ok i' := by
  unfold visitInst at h
  split at h
  · rename_i k p ht
    split at h
    · rename_i hn; exact absurd hn (hm k p ht)
    · rename_i t hdm
      injection h with h; subst h
      obtain ⟨n, q, rfl⟩ := hd k p t hdm
      simp [visitInst]
    · cases h
  · rename_i hnp
    injection h with h; subst h
    unfold visitInst
    split
    · rename_i k p ht; exact absurd ht (hnp k p)
    · rfl

/-- Compiling twice equals compiling once: what the first compilation left is left again, instance by instance.
    (Stated per instance: an unmapped primitive stays as it is both times, a mapped one became an external call.) -/
theorem compile_idempotent (dm : DevMap) (hd : DevicesAreExternal dm) (i i' : Inst) (h : visitInst dm i = .ok i') :
    visitInst dm i' = .ok i' := by
  unfold visitInst at h
  split at h
  · rename_i k p ht
    split at h
    · rename_i hn
      injection h with h; subst h
      simp [visitInst, ht, hn]
    · rename_i t hdm
      injection h with h; subst h
      obtain ⟨n, q, rfl⟩ := hd k p t hdm
      simp [visitInst]
    · cases h
  · rename_i hnp
    injection h with h; subst h
    unfold visitInst
    split
    · rename_i k p ht; exact absurd ht (hnp k p)
    · rfl

/-- A failing compilation fails with the error of some request that no device satisfies. -/
theorem visitInst_error {dm : DevMap} {i : Inst} {e : String} (h : visitInst dm i = .error e) :
    ∃ k p, i.target = .prim k p ∧ dm k p = some (.error e) := by
  unfold visitInst at h
  split at h
  · rename_i k p ht
    split at h
    · cases h
    · cases h
    · rename_i e' hd; injection h with h; subst h; exact ⟨k, p, ht, hd⟩
  · cases h

theorem visitInsts_error {dm : DevMap} : ∀ {l : List Inst} {e : String}, visitInsts dm l = .error e →
    ∃ i ∈ l, ∃ k p, i.target = .prim k p ∧ dm k p = some (.error e)
  | [], e, h => by simp [visitInsts] at h
  | i :: r, e, h => by
    simp only [visitInsts] at h
    cases hi : visitInst dm i with
    | error e' =>
      simp only [hi] at h; injection h with h; subst h
      exact ⟨i, List.mem_cons_self .., visitInst_error hi⟩
    | ok i' =>
      cases hr : visitInsts dm r with
      | ok r' => simp [hi, hr] at h
      | error e' =>
        simp only [hi, hr] at h; injection h with h; subst h
        obtain ⟨j, hj, rest⟩ := visitInsts_error hr
        exact ⟨j, List.mem_cons_of_mem _ hj, rest⟩

theorem compile_error_is_a_device_error {dm : DevMap} {reach : Nat → Bool} : ∀ {k : Nat} {d : List Mod} {e : String},
    compileFrom dm reach k d = .error e →
    ∃ m ∈ d, ∃ i ∈ m.insts, ∃ kd p, i.target = .prim kd p ∧ dm kd p = some (.error e)
  | k, [], e, h => by simp [compileFrom] at h
  | k, m :: r, e, h => by
    simp only [compileFrom] at h
    cases hm : (if reach k then visitMod dm m else Except.ok m) with
    | error e' =>
      simp only [hm] at h; injection h with h; subst h
      split at hm
      · unfold visitMod at hm
        split at hm
        · cases hm
        · rename_i e'' hv
          injection hm with hm; subst hm
          obtain ⟨i, hi, rest⟩ := visitInsts_error hv
          exact ⟨m, List.mem_cons_self .., i, hi, rest⟩
      · cases hm
    | ok m' =>
      cases hr : compileFrom dm reach (k + 1) r with
      | ok r' => simp [hm, hr] at h
      | error e' =>
        simp only [hm, hr] at h; injection h with h; subst h
        obtain ⟨m'', hm'', rest⟩ := compile_error_is_a_device_error hr
        exact ⟨m'', List.mem_cons_of_mem _ hm'', rest⟩

/-! ## Selection, for any table -/

theorem select_by_key_sound (tbl : List MosEntry) (model : String) (e : MosEntry)
    (h : selectByKey tbl model = some e) : e ∈ tbl ∧ e.key = model := by
  unfold selectByKey at h
  exact ⟨List.mem_of_find?_eq_some h, by simpa using List.find?_some h⟩

theorem select_sky130_sound (tbl : List MosEntry) (r : MosReq) (e : MosEntry) (h : selectMosSky130 tbl r = .found e) :
    e ∈ tbl ∧ (match r.model with
      | some m => e.key = m
      | none => e.tp = r.tp ∧ e.fam = some r.fam ∧ e.vth = some r.vth) := by
  unfold selectMosSky130 at h
  cases hm : r.model with
  | some m =>
    simp only [hm] at h ⊢
    cases hs : selectByKey tbl m with
    | none => simp [hs] at h
    | some e' => simp only [hs] at h; injection h with h; subst h; exact select_by_key_sound tbl m e' hs
  | none =>
    simp only [hm] at h ⊢
    cases hf : tbl.find? (matchesSky r) with
    | none => simp [hf] at h
    | some e' =>
      simp only [hf] at h; injection h with h; subst h
      have := List.find?_some hf
      simp only [matchesSky, Bool.and_eq_true, beq_iff_eq] at this
      exact ⟨List.mem_of_find?_eq_some hf, this.1.1, this.1.2, this.2⟩

theorem select_gf180_sound (tbl : List MosEntry) (r : MosReq) (e : MosEntry) (h : selectMosGf180 tbl r = .found e) :
    e ∈ tbl ∧ (match r.model with
      | some m => e.key = m
      | none => e.tp = r.tp ∧ e.fam = some r.fam ∧ ∀ e' ∈ tbl, matchesGf r e' = true → e' = e) := by
  unfold selectMosGf180 at h
  cases hm : r.model with
  | some m =>
    simp only [hm] at h ⊢
    cases hs : selectByKey tbl m with
    | none => simp [hs] at h
    | some e' => simp only [hs] at h; injection h with h; subst h; exact select_by_key_sound tbl m e' hs
  | none =>
    simp only [hm] at h ⊢
    cases hf : tbl.filter (matchesGf r) with
    | nil => simp [hf] at h
    | cons a rest =>
      cases rest with
      | cons b rest' => simp [hf] at h
      | nil =>
        simp only [hf] at h; injection h with h; subst h
        have hmem : a ∈ tbl.filter (matchesGf r) := by rw [hf]; exact List.mem_singleton.mpr rfl
        have ha := List.mem_filter.mp hmem
        have hmatch := ha.2
        simp only [matchesGf, Bool.and_eq_true, beq_iff_eq] at hmatch
        refine ⟨ha.1, hmatch.1, hmatch.2, ?_⟩
        intro e' he' hme'
        have : e' ∈ tbl.filter (matchesGf r) := List.mem_filter.mpr ⟨he', hme'⟩
        rw [hf] at this
        exact List.mem_singleton.mp this

/-! ## The tables of /repo (regenerated on every run) -/
open Hdl21.Pdk.Gen

def reqOf (e : MosEntry) : MosReq := { model := none, tp := e.tp, vth := e.vth.getD "STD", fam := e.fam.getD "NONE" }

theorem sky130_keys_unique : (sky130Xtors.map (·.key)).Nodup := by decide +kernel
theorem gf180_keys_unique : (gf180Xtors.map (·.key)).Nodup := by decide +kernel

theorem sky130_every_entry_by_its_model_name :
    sky130Xtors.all (fun e => selectMosSky130 sky130Xtors { reqOf e with model := some e.key } == .found e) = true := by decide +kernel
theorem gf180_every_entry_by_its_model_name :
    gf180Xtors.all (fun e => selectMosGf180 gf180Xtors { reqOf e with model := some e.key } == .found e) = true := by decide +kernel

/-- every triple carried by an entry selects an entry carrying that triple (the first listed) -/
theorem sky130_every_triple_selects :
    sky130Xtors.all (fun e => match selectMosSky130 sky130Xtors (reqOf e) with
      | .found e' => e'.tp == e.tp && e'.vth == e.vth && e'.fam == e.fam
      | _ => false) = true := by decide +kernel

/-- every (type, family) pair carried by an entry selects that entry, or — several entries carrying it — is refused as ambiguous -/
theorem gf180_every_pair_resolves :
    gf180Xtors.all (fun e => match selectMosGf180 gf180Xtors (reqOf e) with
      | .found e' => e' == e
      | .ambiguous => decide ((gf180Xtors.filter (matchesGf (reqOf e))).length ≥ 2)
      | .noDevice => false) = true := by decide +kernel

/-- the documented Gf180 selections: CORE and IO devices by type and family -/
theorem gf180_core_and_io_selected :
    (gf180Xtors.filter (fun e => e.fam == some "CORE" || e.fam == some "IO")).all
      (fun e => selectMosGf180 gf180Xtors (reqOf e) == .found e) = true := by decide +kernel

theorem model_tables_keys_unique :
    (sky130Ress.map (·.key)).Nodup ∧ (sky130Caps.map (·.key)).Nodup ∧ (sky130Diodes.map (·.key)).Nodup ∧ (sky130Bjts.map (·.key)).Nodup ∧
    (gf180Ress.map (·.key)).Nodup ∧ (gf180Caps.map (·.key)).Nodup ∧ (gf180Diodes.map (·.key)).Nodup ∧ (gf180Bjts.map (·.key)).Nodup := by
  decide +kernel

theorem model_tables_every_entry_by_its_model_name :
    [sky130Ress, sky130Caps, sky130Diodes, sky130Bjts, gf180Ress, gf180Caps, gf180Diodes, gf180Bjts].all
      (fun tbl => tbl.all fun e => selectModel tbl (some e.key) == .found e) = true := by decide +kernel

def hasSize (tbl : List SizeEntry) (modname : String) : Bool := (sizeOf? tbl modname).isSome

theorem sky130_defaults_present :
    sky130Xtors.all (fun e => hasSize sky130DefaultXtor e.modname) = true ∧
    (sky130Ress.filter (·.paramtype == "Sky130GenResParams")).all (fun e => hasSize sky130DefaultGenRes e.modname) = true ∧
    (sky130Ress.filter (·.paramtype == "Sky130PrecResParams")).all (fun e => (sky130DefaultPrecResL.find? (·.1 == e.modname)).isSome) = true ∧
    sky130Ress.all (fun e => e.paramtype == "Sky130GenResParams" || e.paramtype == "Sky130PrecResParams") = true ∧
    sky130Caps.all (fun e => hasSize sky130DefaultCap e.modname) = true := by decide +kernel

theorem gf180_defaults_present :
    gf180Xtors.all (fun e => hasSize gf180DefaultXtor e.modname) = true ∧
    gf180Ress.all (fun e => hasSize gf180DefaultRes e.modname) = true ∧
    gf180Diodes.all (fun e => hasSize gf180DefaultDiode e.modname) = true := by decide +kernel

def portsOf (prim : String) : List String := ((primPorts.find? (·.1 == prim)).map (·.2)).getD []

/-- devices recorded as known findings: their port lists are not those of the primitive they are compiled from -/
def knownPortMismatchSky130Xtors : List String := ["NMOS_ISO_20p0V"]
def knownPortMismatchSky130Bjts : List String := ["NPN_5p0V_1x2", "NPN_11p0V_1x1", "NPN_5p0V_1x1"]
def knownPortMismatchGf180Bjts : List String :=
  ["NPN_10p0x10p0", "NPN_5p0x5p0", "NPN_0p54x16p0", "NPN_0p54x8p0", "NPN_0p54x4p0", "NPN_0p54x2p0"]

/-- Mos devices have the Mos primitive's ports, so each is connected exactly once after the swap — partial: all but the known findings -/
theorem mos_ports_partial :
    (sky130Xtors.filter (fun e => !(knownPortMismatchSky130Xtors.contains e.key))).all (fun e => samePorts e.ports (portsOf "Mos")) = true ∧
    gf180Xtors.all (fun e => samePorts e.ports (portsOf "Mos")) = true := by decide +kernel

/-- … and the negation for the recorded devices: their ports are not the primitive's (replayed on the implementation by the check) -/
theorem mos_port_mismatch_witness :
    (sky130Xtors.filter (fun e => knownPortMismatchSky130Xtors.contains e.key)).all (fun e => !(samePorts e.ports (portsOf "Mos"))) = true ∧
    (sky130Xtors.filter (fun e => knownPortMismatchSky130Xtors.contains e.key)).length = knownPortMismatchSky130Xtors.length := by decide +kernel

theorem bjt_ports_partial :
    (sky130Bjts.filter (fun e => !(knownPortMismatchSky130Bjts.contains e.key))).all (fun e => samePorts e.ports (portsOf "Bipolar")) = true ∧
    (gf180Bjts.filter (fun e => !(knownPortMismatchGf180Bjts.contains e.key))).all (fun e => samePorts e.ports (portsOf "Bipolar")) = true := by decide +kernel

theorem bjt_port_mismatch_witness :
    (sky130Bjts.filter (fun e => knownPortMismatchSky130Bjts.contains e.key)).all (fun e => !(samePorts e.ports (portsOf "Bipolar"))) = true ∧
    (gf180Bjts.filter (fun e => knownPortMismatchGf180Bjts.contains e.key)).all (fun e => !(samePorts e.ports (portsOf "Bipolar"))) = true ∧
    (sky130Bjts.filter (fun e => knownPortMismatchSky130Bjts.contains e.key)).length = 3 ∧
    (gf180Bjts.filter (fun e => knownPortMismatchGf180Bjts.contains e.key)).length = 6 := by decide +kernel

theorem diode_ports :
    sky130Diodes.all (fun e => samePorts e.ports (portsOf "Diode")) = true ∧
    gf180Diodes.all (fun e => samePorts e.ports (portsOf "Diode")) = true := by decide +kernel

/-- every resistor / capacitor device has the ports of exactly one of the two- and three-terminal primitives -/
theorem res_cap_fit_one_primitive :
    (sky130Ress ++ gf180Ress).all (fun e =>
      (samePorts e.ports (portsOf "PhysicalResistor")) != (samePorts e.ports (portsOf "ThreeTerminalResistor"))) = true ∧
    (sky130Caps ++ gf180Caps).all (fun e =>
      (samePorts e.ports (portsOf "PhysicalCapacitor")) != (samePorts e.ports (portsOf "ThreeTerminalCapacitor"))) = true := by decide +kernel

/-! ## Sizes -/

theorem size_given_or_default (given : Option String) (dflt : String) :
    (∀ v, given = some v → givenOr given dflt = v) ∧ (given = none → givenOr given dflt = dflt) := by
  refine ⟨fun v h => by simp [givenOr, h], fun h => by simp [givenOr, h]⟩

/-! ## Registry -/

/-- by default: the default that was set, else the only registered PDK, else refused -/
theorem registry_default (r : Registry) :
    (∀ d, r.dflt = some d → (r.resolve .none).2 = some d) ∧
    (∀ m, r.dflt = none → r.mods = [m] → (r.resolve .none).2 = some m) ∧
    (r.dflt = none → r.mods.length ≠ 1 → (r.resolve .none).2 = none) := by
  refine ⟨?_, ?_, ?_⟩
  · intro d h; simp [Registry.resolve, Registry.default, h]
  · intro m h hm; simp [Registry.resolve, Registry.default, h, hm]
  · intro h hl
    simp only [Registry.resolve, Registry.default, h]
    match hm : r.mods with
    | [] => rfl
    | [m] => simp [hm] at hl
    | _ :: _ :: _ => rfl

theorem registry_by_name (r : Registry) (s : String) :
    (s ∈ r.mods → (r.resolve (.name s)).2 = some s) ∧ (s ∉ r.mods → (r.resolve (.name s)).2 = none) := by
  refine ⟨fun h => by simp [Registry.resolve, h], fun h => by simp [Registry.resolve, h]⟩

/-- by module: a valid PDK module is accepted whether or not it was registered before, and is registered afterwards -/
theorem registry_by_module (r : Registry) (m : String) :
    (r.resolve (.module m true)).2 = some m ∧ m ∈ (r.resolve (.module m true)).1.mods ∧
    (r.resolve (.module m false)).2 = none := by
  refine ⟨by simp [Registry.resolve], ?_, by simp [Registry.resolve]⟩
  simp only [Registry.resolve, if_true, Registry.register]
  split
  · assumption
  · simp

/-! Non-vacuity: a two-level design with a shared child; the Mos is swapped, the resistor is not. -/
def exDm : DevMap := fun k p => if k = "Mos" then some (.ok (.ext "nfet" p)) else none
def exChild : Mod := ⟨"C", [⟨"m", .prim "Mos" 1, [("d", "a")]⟩, ⟨"r", .prim "R" 2, [("p", "a")]⟩]⟩
def exTop : Mod := ⟨"T", [⟨"c1", .module 0, []⟩, ⟨"c2", .module 0, []⟩]⟩
example : (match compile exDm (fun _ => true) [exChild, exTop] with
    | .ok d => d == [⟨"C", [⟨"m", .ext "nfet" 1, [("d", "a")]⟩, ⟨"r", .prim "R" 2, [("p", "a")]⟩]⟩, exTop]
    | .error _ => false) = true := by decide +kernel


/-! ## the per-parameter tables of device calls (`CACHE.mos_modcalls`, …): what a request compiles to does not depend on earlier requests -/
section Tables
open Hdl21.Memo
variable {K V E : Type} [DecidableEq K]

theorem coherent_nil (f : K → Except E V) : Coherent f ([] : List (K × V)) := by
  intro k v h; cases h

/-- one request against a coherent table: the answer is the fresh answer, and the table stays coherent -/
theorem request_is_fresh_answer (f : K → Except E V) (c : List (K × V)) (k : K) (hc : Coherent f c) :
    (request f c k).2 = f k ∧ Coherent f (request f c k).1 := by
  unfold request
  cases hl : lookup k c with
  | some v => exact ⟨(hc k v hl).symm, hc⟩
  | none =>
    cases hf : f k with
    | error e => exact ⟨rfl, hc⟩
    | ok v =>
      refine ⟨rfl, ?_⟩
      intro k' v' h'
      unfold lookup at h'
      by_cases hk : k = k'
      · subst hk; simp at h'; rw [← h']; exact hf
      · simp [hk] at h'; exact hc k' v' h'

/-- **Selection does not depend on history.** Whatever the process compiled before — any requests, in any order, answered or
    refused — every request is answered as a fresh process answers it: by `f`, the selection over the device tables. (A table in
    which an answer is filed under another request's parameters is not coherent; seed C15-r8-2 did that.) -/
theorem device_calls_are_history_free (f : K → Except E V) : ∀ (ks : List K) (c : List (K × V)), Coherent f c →
    (serve f c ks).2 = ks.map f ∧ Coherent f (serve f c ks).1
  | [], c, hc => ⟨rfl, hc⟩
  | k :: ks, c, hc => by
    obtain ⟨h1, h2⟩ := request_is_fresh_answer f c k hc
    obtain ⟨h3, h4⟩ := device_calls_are_history_free f ks (request f c k).1 h2
    unfold serve
    exact ⟨by simp only [List.map_cons]; rw [h1, h3], h4⟩

/-- … in particular from the empty table a process starts with; and a refused request leaves no entry, so asking again asks `f` again -/
theorem device_calls_from_a_fresh_process (f : K → Except E V) (before : List K) (k : K) :
    (request f (serve f [] before).1 k).2 = f k :=
  (request_is_fresh_answer f _ k (device_calls_are_history_free f before [] (coherent_nil f)).2).1

theorem refused_request_is_not_filed (f : K → Except E V) (c : List (K × V)) (k : K) (e : E)
    (hl : lookup k c = none) (hf : f k = .error e) : (request f c k).1 = c := by
  unfold request; rw [hl, hf]

/-- non-vacuity, and the converse: one entry filed under a neighbour's key makes a later request answer wrongly -/
example : (serve (fun (k : Nat) => if k = 0 then (.error "no device" : Except String Nat) else .ok (k * 10)) [] [3, 0, 3, 5, 0]).2.map Except.toOption =
    [some 30, none, some 30, some 50, none] := by decide
example : (request (fun (k : Nat) => (.ok (k * 10) : Except String Nat)) [(5, 30)] 5).2.toOption = some 30 := by decide
end Tables

end Hdl21.Props.C15
