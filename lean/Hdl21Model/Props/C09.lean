/-
# C09 — Generator calls are memoised and their modules uniquely named

* `readable_injective`: the readable `k=v …` suffix is injective in the parameter values, for all
  strings (spaces, `=`, quotes, backslashes) — by exhibiting the parser.
* cache theorems over `run`: a cached call returns the identical module without running the body and
  without changing any state; a completed call is cached; a generator that hands on another
  generator's module does not rename it.
* The md5-of-JSON form (non-scalar parameter classes, or names of 128+ characters):
  `hashed_encoding_injective` — the JSON *tree* `hdl21_naming_encoder` makes of a parameter value (NameEnc.lean)
  determines the value, for every declared type whose unions are told apart by the kind of JSON they produce
  (`Optional[T]`, `Union[Prefixed, Literal]`, …; `Union[str, Prefixed]` is not, `union_needs_distinct_kinds`).
  What is left to trust is `json.dumps` as an injective rendering of trees, and md5 collision freedom.
-/
import Hdl21Model.Naming
import Hdl21Model.Lemmas.NameEnc
namespace Hdl21.Props.C09
open Hdl21.Naming

/-- Escaping followed by parsing gives the string back, and stops exactly at the closing quote. -/
theorem unescape_quote (rest : List Char) : unescape ('"' :: rest) = some ([], rest) := by
  cases rest <;> simp [unescape]

theorem escape_ne_nil (cs rest : List Char) : ∃ d t, escape cs ++ '"' :: rest = d :: t := by
  cases cs with
  | nil => exact ⟨_, _, rfl⟩
  | cons c cs =>
    unfold escape
    split
    · exact ⟨_, _, rfl⟩
    · split <;> exact ⟨_, _, rfl⟩

theorem unescape_escape (s rest : List Char) :
    unescape (escape s ++ '"' :: rest) = some (s, rest) := by
  induction s with
  | nil => simp [escape, unescape_quote]
  | cons c cs ih =>
    unfold escape
    by_cases h1 : c = '\\'
    · subst h1
      simp only [if_true, List.cons_append]
      simp [unescape, ih]
    · by_cases h2 : c = '"'
      · subst h2
        simp only [h1, if_false, if_true, List.cons_append]
        simp [unescape, ih]
      · simp only [h1, h2, if_false, List.cons_append]
        obtain ⟨d, t, hdt⟩ := escape_ne_nil cs rest
        rw [hdt] at ih ⊢
        simp [unescape, h1, h2, ih]

/-- A space-free prefix followed by end-of-text or a space is determined by the whole text. -/
theorem atom_split {a b t1 t2 : List Char} (ha : ' ' ∉ a) (hb : ' ' ∉ b)
    (h1 : t1 = [] ∨ ∃ r, t1 = ' ' :: r) (h2 : t2 = [] ∨ ∃ r, t2 = ' ' :: r)
    (h : a ++ t1 = b ++ t2) : a = b ∧ t1 = t2 := by
  induction a generalizing b with
  | nil =>
    cases b with
    | nil => exact ⟨rfl, h⟩
    | cons y ys =>
      simp only [List.nil_append, List.cons_append] at h
      rcases h1 with h1 | ⟨r, h1⟩
      · rw [h1] at h; cases h
      · rw [h1] at h
        have : y = ' ' := by injection h with h _; exact h.symm
        exact absurd (by simp [this]) hb
  | cons x xs ih =>
    cases b with
    | nil =>
      simp only [List.nil_append, List.cons_append] at h
      rcases h2 with h2 | ⟨r, h2⟩
      · rw [h2] at h; cases h
      · rw [h2] at h
        have : x = ' ' := by injection h
        exact absurd (by simp [this]) ha
    | cons y ys =>
      simp only [List.cons_append] at h
      injection h with hxy hrest
      have ha' : ' ' ∉ xs := fun hm => ha (List.mem_cons_of_mem _ hm)
      have hb' : ' ' ∉ ys := fun hm => hb (List.mem_cons_of_mem _ hm)
      obtain ⟨e1, e2⟩ := ih ha' hb' hrest
      exact ⟨by rw [hxy, e1], e2⟩

/-- One encoded value followed by end-of-text or a space determines the value and the rest. -/
theorem encode_split {v w : Value} {t1 t2 : List Char} (hv : v.wf) (hw : w.wf)
    (h1 : t1 = [] ∨ ∃ r, t1 = ' ' :: r) (h2 : t2 = [] ∨ ∃ r, t2 = ' ' :: r)
    (h : encode v ++ t1 = encode w ++ t2) : v = w ∧ t1 = t2 := by
  cases v with
  | str s =>
    cases w with
    | str t =>
      simp only [encode, quote, List.cons_append, List.append_assoc, List.cons.injEq, true_and] at h
      have e1 := unescape_escape s t1
      have e2 := unescape_escape t t2
      simp only [List.nil_append, List.cons_append] at h
      rw [h] at e1
      rw [e1] at e2
      injection e2 with e2
      injection e2 with e3 e4
      exact ⟨by rw [e3], e4⟩
    | atom b =>
      exfalso
      obtain ⟨hne, _, hq⟩ := hw
      cases b with
      | nil => exact hne rfl
      | cons y ys =>
        simp only [encode, quote, List.cons_append] at h
        injection h with h _
        exact hq (by simp [← h])
  | atom a =>
    cases w with
    | str t =>
      exfalso
      obtain ⟨hne, _, hq⟩ := hv
      cases a with
      | nil => exact hne rfl
      | cons y ys =>
        simp only [encode, quote, List.cons_append] at h
        injection h with h _
        exact hq (by simp [h])
    | atom b =>
      obtain ⟨e1, e2⟩ := atom_split hv.2.1 hw.2.1 h1 h2 h
      exact ⟨by rw [e1], e2⟩

/-- **The readable name is injective**: two parameter-class instances (same keys, in order)
    whose readable names coincide have equal values — whatever the strings contain. -/
theorem readable_injective : ∀ (kvs kws : List (List Char × Value)),
    kvs.map (·.1) = kws.map (·.1) → (∀ p ∈ kvs, p.2.wf) → (∀ p ∈ kws, p.2.wf) →
    readable kvs = readable kws → kvs = kws
  | [], [], _, _, _, _ => rfl
  | [], _ :: _, hk, _, _, _ => by simp at hk
  | _ :: _, [], hk, _, _, _ => by simp at hk
  | (k, v) :: r1, (k', w) :: r2, hk, hv, hw, h => by
    simp only [List.map_cons, List.cons.injEq] at hk
    obtain ⟨hkk, hrest⟩ := hk
    subst hkk
    have wfv := hv (k, v) (by simp)
    have wfw := hw (k, w) (by simp)
    have hv' : ∀ p ∈ r1, p.2.wf := fun p hp => hv p (by simp [hp])
    have hw' : ∀ p ∈ r2, p.2.wf := fun p hp => hw p (by simp [hp])
    cases r1 with
    | nil =>
      cases r2 with
      | nil =>
        simp only [readable] at h
        have h' := List.append_cancel_left h
        injection h' with _ h'
        have := encode_split (t1 := []) (t2 := []) wfv wfw (Or.inl rfl) (Or.inl rfl) (by simpa using h')
        have e : v = w := this.1
        rw [e]
      | cons _ _ => simp at hrest
    | cons p1 r1' =>
      cases r2 with
      | nil => simp at hrest
      | cons p2 r2' =>
        have ea : readable ((k, v) :: p1 :: r1') = k ++ '=' :: (encode v ++ ' ' :: readable (p1 :: r1')) := by
          simp [readable]
        have eb : readable ((k, w) :: p2 :: r2') = k ++ '=' :: (encode w ++ ' ' :: readable (p2 :: r2')) := by
          simp [readable]
        rw [ea, eb] at h
        have h' := List.append_cancel_left h
        injection h' with _ h'
        have := encode_split wfv wfw (Or.inr ⟨_, rfl⟩) (Or.inr ⟨_, rfl⟩) h'
        obtain ⟨e1, e2⟩ := this
        injection e2 with _ e2
        have ih := readable_injective (p1 :: r1') (p2 :: r2') hrest hv' hw' e2
        have e1' : v = w := e1
        rw [e1', ih]

/-- The witnesses of the pinned tree's collision are now told apart. -/
example : readable [("a".toList, .str "x b=y".toList), ("b".toList, .str "z".toList)] ≠
          readable [("a".toList, .str "x".toList), ("b".toList, .str "y b=z".toList)] := by decide
example : readable [("a".toList, .atom "None".toList)] ≠ readable [("a".toList, .str "None".toList)] := by decide

/-! ## Cache -/

/-- A cached call returns the cached module, runs nothing and changes nothing. -/
theorem run_cached (prog : Call → Body) (f : Nat) (s : St) (c : Call) (m : Nat)
    (h : lookup c s.done = some m) : run prog (f + 1) s c = some (s, m) := by
  unfold run; simp [h]

/-- After a successful call the call is in the cache with the returned module. -/
theorem run_records (prog : Call → Body) (f : Nat) (s s' : St) (c : Call) (m : Nat)
    (h : run prog f s c = some (s', m)) : lookup c s'.done = some m := by
  cases f with
  | zero => simp [run] at h
  | succ f =>
    unfold run at h
    cases hl : lookup c s.done with
    | some m0 => simp [hl] at h; obtain ⟨h1, h2⟩ := h; subst h1; subst h2; exact hl
    | none =>
      simp only [hl] at h
      cases hp : prog c with
      | fresh nested =>
        simp only [hp] at h
        cases hr : runAll prog f { s with runs := c :: s.runs } nested with
        | none => simp [hr] at h
        | some r =>
          obtain ⟨s2, ms⟩ := r
          simp only [hr, Option.some.injEq, Prod.mk.injEq] at h
          obtain ⟨h1, h2⟩ := h
          subst h1; subst h2
          simp [lookup]
      | forward nested k =>
        simp only [hp] at h
        cases hr : runAll prog f { s with runs := c :: s.runs } nested with
        | none => simp [hr] at h
        | some r =>
          obtain ⟨s2, ms⟩ := r
          simp only [hr] at h
          cases hk : ms[k]? with
          | none => simp [hk] at h
          | some m' =>
            simp only [hk, Option.some.injEq, Prod.mk.injEq] at h
            obtain ⟨h1, h2⟩ := h
            subst h1; subst h2
            simp [lookup]

/-- **Memoisation**: calling again with equal parameters returns the identical module, does not
    run the body again (the run log is unchanged) and changes no state at all. -/
theorem memo (prog : Call → Body) (f f' : Nat) (s s' : St) (c : Call) (m : Nat)
    (h : run prog f s c = some (s', m)) : run prog (f' + 1) s' c = some (s', m) :=
  run_cached prog f' s' c m (run_records prog f s s' c m h)

/-! ## `generator.cache.reset()` -/

/-- everything the memo holds, and everything still to be made, is newer than `N` -/
def NewerThan (N : Nat) (s : St) : Prop := (∀ c m, lookup c s.done = some m → N ≤ m) ∧ N ≤ s.next

theorem lookup_cons_newer {N : Nat} {done : List (Call × Nat)} {c0 : Call} {m0 : Nat} (h0 : N ≤ m0)
    (hd : ∀ c m, lookup c done = some m → N ≤ m) : ∀ c m, lookup c ((c0, m0) :: done) = some m → N ≤ m := by
  intro c m h
  unfold lookup at h
  by_cases hc : c0 = c
  · simp [hc] at h; omega
  · simp [hc] at h; exact hd c m h

mutual
theorem run_newer (prog : Call → Body) (N : Nat) : ∀ (f : Nat) (s s' : St) (c : Call) (m : Nat), NewerThan N s →
    run prog f s c = some (s', m) → NewerThan N s' ∧ N ≤ m
  | 0, s, s', c, m, _, h => by simp [run] at h
  | f + 1, s, s', c, m, hs, h => by
    unfold run at h
    cases hl : lookup c s.done with
    | some m0 =>
      simp [hl] at h; obtain ⟨h1, h2⟩ := h; subst h1; subst h2
      exact ⟨hs, hs.1 c m0 hl⟩
    | none =>
      simp only [hl] at h
      have hs1 : NewerThan N { s with runs := c :: s.runs } := hs
      cases hp : prog c with
      | fresh nested =>
        simp only [hp] at h
        cases hr : runAll prog f { s with runs := c :: s.runs } nested with
        | none => simp [hr] at h
        | some r =>
          obtain ⟨s2, ms⟩ := r
          simp only [hr, Option.some.injEq, Prod.mk.injEq] at h
          obtain ⟨h1, h2⟩ := h
          subst h1; subst h2
          obtain ⟨⟨hd, hn⟩, _⟩ := runAll_newer prog N f _ s2 nested ms hs1 hr
          exact ⟨⟨lookup_cons_newer hn hd, by simp; omega⟩, hn⟩
      | forward nested k =>
        simp only [hp] at h
        cases hr : runAll prog f { s with runs := c :: s.runs } nested with
        | none => simp [hr] at h
        | some r =>
          obtain ⟨s2, ms⟩ := r
          simp only [hr] at h
          cases hk : ms[k]? with
          | none => simp [hk] at h
          | some m' =>
            simp only [hk, Option.some.injEq, Prod.mk.injEq] at h
            obtain ⟨h1, h2⟩ := h
            subst h1; subst h2
            obtain ⟨⟨hd, hn⟩, hms⟩ := runAll_newer prog N f _ s2 nested ms hs1 hr
            have hm' : N ≤ m' := hms m' (List.mem_of_getElem? hk)
            exact ⟨⟨lookup_cons_newer hm' hd, hn⟩, hm'⟩
theorem runAll_newer (prog : Call → Body) (N : Nat) : ∀ (f : Nat) (s s' : St) (cs : List Call) (ms : List Nat), NewerThan N s →
    runAll prog f s cs = some (s', ms) → NewerThan N s' ∧ ∀ m ∈ ms, N ≤ m
  | f, s, s', [], ms, hs, h => by
    simp [runAll] at h; obtain ⟨h1, h2⟩ := h; subst h1; subst h2
    exact ⟨hs, fun m hm => by cases hm⟩
  | f, s, s', c :: cs, ms, hs, h => by
    unfold runAll at h
    cases hr : run prog f s c with
    | none => simp [hr] at h
    | some r =>
      obtain ⟨s1, m⟩ := r
      simp only [hr] at h
      cases hr2 : runAll prog f s1 cs with
      | none => simp [hr2] at h
      | some r2 =>
        obtain ⟨s2, ms2⟩ := r2
        simp only [hr2, Option.some.injEq, Prod.mk.injEq] at h
        obtain ⟨h1, h2⟩ := h
        subst h1; subst h2
        obtain ⟨hs1, hm⟩ := run_newer prog N f s s1 c m hs hr
        obtain ⟨hs2, hms⟩ := runAll_newer prog N f s1 s2 cs ms2 hs1 hr2
        exact ⟨hs2, fun x hx => by
          rcases List.mem_cons.mp hx with rfl | hx
          · exact hm
          · exact hms x hx⟩
end

/-- **After `generator.cache.reset()` the memo starts afresh**: every call made from then on — whatever the program, however
    nested — returns a module made after the reset (the body ran again; nothing made before the reset is handed out), and from
    then on equal calls agree again (`memo` holds in every state, the reset one included). -/
theorem reset_starts_afresh (prog : Call → Body) (f : Nat) (s s' : St) (c : Call) (m : Nat)
    (h : run prog f s.reset c = some (s', m)) : s.next ≤ m ∧ ∀ f', run prog (f' + 1) s' c = some (s', m) := by
  have h0 : NewerThan s.next s.reset := ⟨fun c m hl => by simp [St.reset, lookup] at hl, Nat.le_refl _⟩
  exact ⟨(run_newer prog s.next f s.reset s' c m h0 h).2, fun f' => memo prog f f' s.reset s' c m h⟩

/-- A generator that hands on a module produced by another generator call does not rename it:
    the name table after the call is the one left by its nested calls. -/
theorem forward_keeps_names (prog : Call → Body) (f : Nat) (s s2 s' : St) (c : Call)
    (nested : List Call) (k m : Nat) (ms : List Nat)
    (hl : lookup c s.done = none) (hp : prog c = .forward nested k)
    (hr : runAll prog f { s with runs := c :: s.runs } nested = some (s2, ms))
    (h : run prog (f + 1) s c = some (s', m)) : s'.nameOf = s2.nameOf ∧ ms[k]? = some m := by
  unfold run at h
  simp only [hl, hp, hr] at h
  cases hk : ms[k]? with
  | none => simp [hk] at h
  | some m' =>
    simp only [hk, Option.some.injEq, Prod.mk.injEq] at h
    obtain ⟨h1, h2⟩ := h
    subst h1; subst h2
    exact ⟨rfl, rfl⟩

/-- A freshly built module gets a new identity and is named after *this* call. -/
theorem fresh_named (prog : Call → Body) (f : Nat) (s s2 s' : St) (c : Call)
    (nested : List Call) (m : Nat) (ms : List Nat)
    (hl : lookup c s.done = none) (hp : prog c = .fresh nested)
    (hr : runAll prog f { s with runs := c :: s.runs } nested = some (s2, ms))
    (h : run prog (f + 1) s c = some (s', m)) :
    m = s2.next ∧ s'.next = m + 1 ∧ lookup m s'.nameOf = some c := by
  unfold run at h
  simp only [hl, hp, hr, Option.some.injEq, Prod.mk.injEq] at h
  obtain ⟨h1, h2⟩ := h
  subst h1; subst h2
  simp [lookup]

/-! ## the hashed form -/
section Hashed
open Hdl21.NameEnc

/-- **The tree the naming encoder hashes determines the parameter value**: two values of one declared type with the same
    encoding are the same value — in particular a field at `0`, `False`, `""`, `()` is not a field at `None`, an enum member is
    its value and nothing else, a nested param-class is its fields in order. -/
theorem hashed_encoding_injective (t : Ty) (hw : t.wf = true) (a b : PV) (ha : has t a = true) (hb : has t b = true)
    (h : enc a = enc b) : a = b :=
  enc_inj t hw a b ha hb h

/-- what a value's encoding looks like, kind by kind -/
theorem hashed_encoding_kinds :
    enc .none = .null ∧ (∀ b, enc (.bool b) = .bool b) ∧ (∀ i, enc (.int i) = .int i) ∧ (∀ s, enc (.str s) = .str s) ∧
    (∀ v, enc (.enum v) = enc v) ∧ (∀ c, enc (.prefixed c) = .str c) ∧ (∀ q, enc (.named q) = .str q) ∧
    (∀ xs, enc (.tuple xs) = .arr (encList xs)) ∧ (∀ fs, enc (.pc fs) = .obj (encFields fs)) := by
  refine ⟨?_, ?_, ?_, ?_, ?_, ?_, ?_, ?_, ?_⟩ <;> intros <;> simp [enc]

/-- the hypothesis on unions is needed: a string and a prefixed number of the same text are hashed alike -/
theorem union_needs_distinct_kinds :
    enc (.str "1") = enc (.prefixed "1") ∧ (Ty.union .str .prefixed).wf = false := by
  constructor
  · simp [enc]
  · decide

/-- a shape as the check generates them: an enum, an optional int, an optional tuple, a nested param-class with optional
    fields, a generator-valued field; its type is well-formed, and `trim = 0`, `trim = None` are two values of it -/
def exTy : Ty := .pc [("corner", .enum .str), ("trim", .union .none .int), ("taps", .union .none (.tuple .int)),
  ("sub", .pc [("gain", .union .none .float), ("tag", .union .none .str)]), ("cell", .named)]
def exVal (trim : PV) : PV := .pc [("corner", .enum (.str "tt")), ("trim", trim), ("taps", .tuple []),
  ("sub", .pc [("gain", .float "0.0"), ("tag", .none)]), ("cell", .named "liba.Cell")]

example : exTy.wf = true ∧ has exTy (exVal (.int 0)) = true ∧ has exTy (exVal .none) = true := by decide

example : enc (exVal (.int 0)) ≠ enc (exVal .none) := by
  intro h
  have := hashed_encoding_injective exTy (by decide) _ _ (by decide) (by decide) h
  simp [exVal] at this
end Hashed

/-! ## where the readable form ends and the hashed form begins does not matter -/
section Threshold

/-- **Any switch point.** `_unique_name` names a parameter value by its readable text when that is short, by a digest of its JSON tree
    otherwise. Given that each form tells values apart (`readable_injective`; `hashed_encoding_injective` + the digest hypothesis) and
    that no readable text is ever a digest (a readable name contains `=`; a digest is 32 hexadecimal digits), the name tells values
    apart **whatever decides** which form a value gets — a length limit of 128, of 96, a different limit per generator. -/
theorem mixed_naming_injective {V N : Type} (readable hashed : V → N) (useHash : V → Bool)
    (hr : ∀ a b, readable a = readable b → a = b) (hh : ∀ a b, hashed a = hashed b → a = b)
    (hdisj : ∀ a b, readable a ≠ hashed b) (a b : V)
    (h : (if useHash a then hashed a else readable a) = (if useHash b then hashed b else readable b)) : a = b := by
  cases ha : useHash a <;> cases hb : useHash b <;> simp only [ha, hb, if_true, if_false, Bool.false_eq_true] at h
  · exact hr a b h
  · exact absurd h (hdisj a b)
  · exact absurd h.symm (hdisj b a)
  · exact hh a b h

/-- Non-vacuity: two forms over the naturals with disjoint ranges (even / odd), switched at two different points. -/
example : (∀ a b : Nat, (if (fun v => decide (v < 7)) a then 2 * a + 1 else 2 * a) = (if (fun v => decide (v < 7)) b then 2 * b + 1 else 2 * b) → a = b) ∧
          (∀ a b : Nat, (if (fun v => decide (v < 3)) a then 2 * a + 1 else 2 * a) = (if (fun v => decide (v < 3)) b then 2 * b + 1 else 2 * b) → a = b) :=
  ⟨fun a b h => mixed_naming_injective (fun v => 2 * v) (fun v => 2 * v + 1) (fun v => decide (v < 7)) (fun _ _ h => by omega) (fun _ _ h => by omega) (fun _ _ => by omega) a b h,
   fun a b h => mixed_naming_injective (fun v => 2 * v) (fun v => 2 * v + 1) (fun v => decide (v < 3)) (fun _ _ h => by omega) (fun _ _ h => by omega) (fun _ _ => by omega) a b h⟩

end Threshold

end Hdl21.Props.C09
