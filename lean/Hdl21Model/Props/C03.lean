/-
# C03 — Indexing and concatenation follow Python sequence semantics

Property theorems only. Helper lemmas live in `Lemmas/Slice.lean`, `Lemmas/Conn.lean`.
Every statement is for all widths, indices, bounds, steps and nesting depths.
-/
import Hdl21Model.Lemmas.Slice
import Hdl21Model.Lemmas.Conn
import Hdl21Model.Lemmas.Resolve
import Hdl21Model.Lemmas.Export
import Hdl21Model.Lemmas.ResolveTotal
import Hdl21Model.Lemmas.ResolveUnit
namespace Hdl21.Props.C03
open Hdl21

/-- An in-range integer index is accepted and selects exactly bit `i mod w`
    (which is what Python selects), with width one. -/
theorem index_int_ok (w : Nat) (i : Int) (hlo : -(w : Int) ≤ i) (hhi : i < w) :
    ∃ s, sliceInner w (.int i) = .ok s ∧ s.bits = [i % (w : Int)] ∧ s.width = 1 ∧
         pyIndex w i = some (i % (w : Int)) := by
  simp only [sliceInner, pyIndex]
  rw [if_neg (by omega)]
  refine ⟨_, rfl, ?_, rfl, ?_⟩
  · simp only [Inner.bits, arith]
    have h1 : ¬ ((1 : Int) < 0) := by omega
    simp only [h1, if_false]
    by_cases hn : i < 0
    · simp [hn]
      rw [← Int.add_emod_right, Int.emod_eq_of_lt (by omega) (by omega)]
    · simp [hn]
      rw [Int.emod_eq_of_lt (by omega) (by omega)]
  · simp [hlo, hhi]

/-- Any other integer index is rejected (by hdl21 and by Python alike). -/
theorem index_int_reject (w : Nat) (i : Int) (h : ¬ (-(w : Int) ≤ i ∧ i < w)) :
    (∃ e, sliceInner w (.int i) = .error e) ∧ pyIndex w i = none := by
  simp only [sliceInner, pyIndex]
  constructor
  · rw [if_pos (by omega)]; exact ⟨_, rfl⟩
  · simp only [h, if_false]

/-- An accepted range slice denotes exactly Python's selection, in Python's order;
    its reported width is the number of selected bits; it is non-empty; and every
    selected bit lies inside the parent (so no package names a bit outside its signal). -/
theorem range_spec (w : Nat) (a b st : Option Int) (s : Inner)
    (h : sliceInner w (.range a b st) = .ok s) :
    pyBits w a b st = some s.bits ∧ s.width = s.bits.length ∧ s.bits ≠ [] ∧
    (∀ k ∈ s.bits, 0 ≤ k ∧ k < w) ∧ 0 ≤ s.bot ∧ s.bot < s.top ∧ s.top ≤ w := by
  simp only [sliceInner] at h
  split at h
  · cases h
  · rename_i hst
    generalize hstep : st.getD 1 = step at *
    generalize hadj : pyAdjust w a b step = adj at *
    obtain ⟨start, stop⟩ := adj
    simp only [] at h
    split at h
    · cases h
    · rename_i hn
      have hb := pyAdjust_bounds w a b step
      rw [hadj] at hb
      simp only [] at hb
      unfold pyBits
      simp only [hstep, hst, if_false, hadj]
      split at h
      · -- positive step
        rename_i hpos
        injection h with h; subst h
        have hlt : start < stop := by
          by_cases hc : start < stop
          · exact hc
          · exact absurd ((pyLen_zero_iff_pos hpos).2 hc) hn
        have hlen := pyLen_pos_step hpos hlt
        have hlast := last_lt_stop hpos hlt
        obtain ⟨hb1, hb2⟩ := hb.1 hpos
        have hq : 0 ≤ (stop - start - 1) / step := Int.ediv_nonneg (by omega) (by omega)
        rw [bits_pos _ _ _ _ (by omega)]
        refine ⟨rfl, by simp [arith_length], arith_ne_nil hn, ?_, hb1, ?_, ?_⟩
        · intro k hk
          obtain ⟨j, hj, rfl⟩ := mem_arith.1 hk
          have hjq : (j : Int) ≤ (stop - start - 1) / step := by omega
          have hm : (j : Int) * step ≤ ((stop - start - 1) / step) * step :=
            Int.mul_le_mul_of_nonneg_right hjq (by omega)
          have hj0 : 0 ≤ (j : Int) * step := Int.mul_nonneg (by omega) (by omega)
          constructor <;> omega
        · simp only []
          have : 0 ≤ (((pyLen start stop step : Nat) : Int) - 1) * step :=
            Int.mul_nonneg (by omega) (by omega)
          omega
        · simp only []
          rw [hlen]
          have : (stop - start - 1) / step + 1 - 1 = (stop - start - 1) / step := by omega
          rw [this]; omega
      · -- negative step
        rename_i hnpos
        have hneg : step < 0 := by omega
        injection h with h; subst h
        have hlt : stop < start := by
          by_cases hc : stop < start
          · exact hc
          · exact absurd ((pyLen_zero_iff_neg hneg).2 hc) hn
        have hlen := pyLen_neg_step hneg hlt
        have hlast := last_gt_stop hneg hlt
        obtain ⟨hb1, hb2⟩ := hb.2 hneg
        have hq : 0 ≤ (start - stop - 1) / (-step) := Int.ediv_nonneg (by omega) (by omega)
        rw [bits_neg _ _ _ _ hneg]
        have hmul : ∀ q : Int, q * step = -(q * (-step)) := by intro q; rw [Int.mul_neg]; omega
        refine ⟨rfl, by simp [arith_length], arith_ne_nil hn, ?_, ?_, ?_, ?_⟩
        · intro k hk
          obtain ⟨j, hj, rfl⟩ := mem_arith.1 hk
          have hjq : (j : Int) ≤ (start - stop - 1) / (-step) := by omega
          have hm : (j : Int) * (-step) ≤ ((start - stop - 1) / (-step)) * (-step) :=
            Int.mul_le_mul_of_nonneg_right hjq (by omega)
          have hj0 : 0 ≤ (j : Int) * (-step) := Int.mul_nonneg (by omega) (by omega)
          rw [hmul]
          constructor <;> omega
        · simp only []
          rw [hlen, hmul]
          have : (start - stop - 1) / (-step) + 1 - 1 = (start - stop - 1) / (-step) := by omega
          rw [this]; omega
        · simp only []
          rw [hlen, hmul]
          have : (start - stop - 1) / (-step) + 1 - 1 = (start - stop - 1) / (-step) := by omega
          rw [this]
          have : 0 ≤ (start - stop - 1) / (-step) * (-step) := Int.mul_nonneg hq (by omega)
          omega
        · simp only []; omega

/-- A range slice is rejected exactly when Python raises (zero step) or selects no bit. -/
theorem range_reject_iff (w : Nat) (a b st : Option Int) :
    (∃ e, sliceInner w (.range a b st) = .error e) ↔
    (pyBits w a b st = none ∨ pyBits w a b st = some []) := by
  unfold sliceInner pyBits
  simp only []
  by_cases hst : st.getD 1 = 0
  · simp [hst]
  · simp only [hst, if_false]
    generalize pyAdjust w a b (st.getD 1) = adj
    obtain ⟨start, stop⟩ := adj
    simp only []
    by_cases hn : pyLen start stop (st.getD 1) = 0
    · simp [hn, arith]
    · simp only [hn, if_false]
      constructor
      · rintro ⟨e, he⟩; split at he <;> cases he
      · rintro (h | h)
        · cases h
        · injection h with h
          exact absurd h (arith_ne_nil hn)

/-- Every non-empty unit-step range is accepted (whatever the parent kind: the
    Python `__getitem__` is one shared decorator and `_slice_inner` sees only the width). -/
theorem range_unit_accept (w : Nat) (a b : Option Int) (st : Option Int)
    (hst : st = none ∨ st = some 1) (ks : List Int)
    (hpy : pyBits w a b st = some ks) (hne : ks ≠ []) :
    ∃ s, sliceInner w (.range a b st) = .ok s ∧ s.bits = ks ∧ s.step = 1 := by
  cases hres : sliceInner w (.range a b st) with
  | error e =>
    have := (range_reject_iff w a b st).1 ⟨e, hres⟩
    rcases this with h | h
    · rw [h] at hpy; cases hpy
    · rw [h] at hpy; injection hpy with h'; exact absurd h'.symm hne
  | ok s =>
    have hs := (range_spec w a b st s hres).1
    rw [hpy] at hs
    injection hs with hs
    refine ⟨s, rfl, hs.symm, ?_⟩
    unfold sliceInner at hres
    have h1 : st.getD 1 = 1 := by rcases hst with h | h <;> simp [h]
    simp only [h1] at hres
    split at hres
    · cases hres
    · generalize pyAdjust w a b 1 = adj at hres
      obtain ⟨start, stop⟩ := adj
      simp only [] at hres
      split at hres
      · cases hres
      · split at hres
        · injection hres with hres; subst hres; rfl
        · rename_i hc; exact absurd (by omega : (1 : Int) > 0) hc

/-- Unit-step slices are contiguous ascending runs `bot … top-1`: the reading
    `export_slice` uses (`top-1` inclusive down to `bot`). -/
theorem unit_step_bits (w : Nat) (idx : Index) (s : Inner)
    (h : sliceInner w idx = .ok s) (h1 : s.step = 1) :
    s.bits = arith s.bot 1 (s.top - s.bot).toNat ∧ s.width = s.top - s.bot := by
  have hw : s.width = s.top - s.bot := by
    cases idx with
    | int i =>
      simp only [sliceInner] at h
      split at h
      · cases h
      · injection h with h; subst h; simp only []; omega
    | range a b st =>
      simp only [sliceInner] at h
      split at h
      · cases h
      · generalize pyAdjust w a b (st.getD 1) = adj at h
        obtain ⟨start, stop⟩ := adj
        simp only [] at h
        split at h
        · cases h
        · split at h
          · injection h with h; subst h
            simp only [] at h1
            simp only [h1]; omega
          · injection h with h; subst h
            simp only [] at h1
            rename_i hc; omega
  refine ⟨?_, hw⟩
  simp only [Inner.bits, h1, show ¬ ((1 : Int) < 0) by omega, if_false, hw]

/-! ### Python-oracle sanity: the spec says what one expects on the common cases -/

/-- `x[:]` selects every bit in order. -/
theorem pyBits_full (w : Nat) (hw : 0 < w) :
    pyBits w none none none = some ((List.range w).map (fun (k : Nat) => (k : Int))) := by
  unfold pyBits pyAdjust pyLen arith
  simp [hw]

/-- `x[a:b]` with `0 ≤ a ≤ b ≤ w` selects `a … b-1`. -/
theorem pyBits_simple (w : Nat) (a b : Nat) (hab : a < b) (hb : b ≤ w) :
    pyBits w (some a) (some b) none = some ((List.range (b - a)).map (fun (k : Nat) => (a : Int) + k)) := by
  have h1 : ¬ ((a : Int) < 0) := by omega
  have h2 : ¬ ((b : Int) < 0) := by omega
  have h3 : ¬ ((a : Int) ≥ w) := by omega
  have hA : pyClamp w 1 a = a := by simp only [pyClamp, h1, h3, if_false]
  have hB : pyClamp w 1 b = b := by
    simp only [pyClamp, h2, if_false]
    split <;> omega
  have hL : pyLen a b 1 = b - a := by
    unfold pyLen
    rw [if_neg (by omega), if_pos (by omega)]
    omega
  simp only [pyBits, Option.getD_none, pyAdjust, hA, hB, hL, arith]
  simp

/-! ### Nested connectables: width, concatenation, and the SliceResolver -/

/-- The reported width of any connectable (signal, slice, concatenation, arbitrarily nested) is the
    number of bits it denotes, and it has a denotation whenever it has a width. -/
theorem width_is_length (c : SConn) (w : Nat) (h : c.width = .ok w) :
    ∃ bs, c.denote = .ok bs ∧ bs.length = w := width_denote c w h

/-- `Concat(a, b, …)` is list concatenation with `a`'s bits lowest. -/
theorem concat_is_append (a b : SConn) (as bs : List Bit) (ha : a.denote = .ok as) (hb : b.denote = .ok bs) :
    (SConn.concat [a, b]).denote = .ok (as ++ bs) := by
  rw [denote_concat, denoteList_cons, ha, denoteList_cons, hb, denoteList_nil]; simp

/-- **Resolving nested slices and concatenations down to signal-level slices does not change the
    selected bit sequence** — for every nesting depth, width, step and sign, and every fuel. -/
theorem resolve_preserves_bits (fuel : Nat) (c r : SConn) (bs : List Bit)
    (h : resolveSliceable fuel c = .ok r) (hd : c.denote = .ok bs) : r.denote = .ok bs :=
  (resolve_sound fuel).2.2.1 c r bs h hd

/-- … and what it returns consists only of signals and slices taken directly from signals. -/
theorem resolve_flat (fuel : Nat) (c r : SConn) (h : resolveSliceable fuel c = .ok r) :
    r.exportable = true := (Hdl21.resolve_flat fuel).2.2.1 c r h

/-- No exported slice leaves its signal: whatever `export_slice` writes for a slice of a `w`-bit
    signal satisfies `bot ≤ top < w`. -/
theorem exported_bits_in_range (n : String) (w : Nat) (idx : Index) (t : Pkg.PTarget)
    (h : exportTarget (.slice (.sig n w) idx) = .ok t) :
    ∃ top bot, t = .slice n top bot ∧ bot ≤ top ∧ top < w := by
  rw [exportTarget] at h
  simp only [bind, Except.bind] at h
  cases hi : sliceInner w idx with
  | error e => simp [hi] at h
  | ok inner =>
    simp only [hi] at h
    split at h
    · cases h
    · rename_i hstep
      injection h with h
      have wf := sliceInner_wf w idx inner hi
      have h1 := wf.bot_ge
      have h2 := wf.top_le
      have hn := wf.n_pos
      have hs1 : inner.step = 1 := by
        by_cases hh : inner.step = 1
        · exact hh
        · exact absurd hh (by simpa using hstep)
      have hp := wf.pos (by omega)
      rw [hs1] at hp
      exact ⟨_, _, h.symm, by omega, by omega⟩

/-! ### The resolver always answers -/

/-- **Every connectable that denotes something is resolved** — for every nesting depth, width, step and sign: if the expression has
    a denotation (every index in range, every slice non-empty, at every level) and holds no empty concatenation, `SliceResolver`,
    given the fuel `needR c` (a number computed from the expression; any larger one will do), returns — and what it returns denotes
    the same bits and is made of signals and signal-level slices only.  The fuel argument of the model is discharged: `needR c`
    bounds the depth of the Python recursion, so the theorems above are not about an event that never happens. -/
theorem resolve_total (c : SConn) (bs : List Bit) (hd : c.denote = .ok bs) (hne : c.noEmpty = true) (fuel : Nat) (hf : needR c ≤ fuel) :
    ∃ r, resolveSliceable fuel c = .ok r ∧ r.denote = .ok bs ∧ r.exportable = true := by
  obtain ⟨r, hr⟩ := (resolve_total_aux fuel).2.2.1 c bs hd hne hf
  exact ⟨r, hr, resolve_preserves_bits fuel c r bs hr hd, resolve_flat fuel c r hr⟩

/-- … in terms of what the passes look at: whatever has a width is resolved, to something of that width -/
theorem resolve_total_of_width (c : SConn) (w : Nat) (hw : c.width = .ok w) (hne : c.noEmpty = true) :
    ∃ r, resolveSliceable (needR c) c = .ok r ∧ r.width = .ok w ∧ r.exportable = true := by
  obtain ⟨bs, hd, hl⟩ := width_denote c w hw
  obtain ⟨r, hr, hrd, hre⟩ := resolve_total c bs hd hne (needR c) (Nat.le_refl _)
  exact ⟨r, hr, by rw [denote_width r bs hrd, hl], hre⟩

/-- **The resolver answers exactly for what denotes something.** For an expression without empty concatenations and with fuel
    `needR c` or more: `SliceResolver` returns **iff** the expression has a denotation — every index in range and every slice
    non-empty at every depth.  One out-of-range index or empty range anywhere inside, and it raises (C02's index clause, by the
    resolver alone); everything else it resolves (C03's acceptance). -/
theorem resolver_accepts_iff (c : SConn) (hne : c.noEmpty = true) (fuel : Nat) (hf : needR c ≤ fuel) :
    (∃ r, resolveSliceable fuel c = .ok r) ↔ ∃ bs, c.denote = .ok bs := by
  constructor
  · rintro ⟨r, hr⟩
    obtain ⟨w, hw⟩ := (resolve_only_denoting fuel).1 c r hr
    obtain ⟨bs, hd, _⟩ := width_denote c w hw
    exact ⟨bs, hd⟩
  · rintro ⟨bs, hd⟩
    obtain ⟨r, hr, _⟩ := resolve_total c bs hd hne fuel hf
    exact ⟨r, hr⟩

/-- **In-range indices and non-empty unit-step ranges are accepted — all the way into the package.** An expression whose every
    index is an integer or a unit-step range (at any depth, over any mix of slices and concatenations), which denotes something
    and names declared signals, is resolved *and exported*, and the target the netlisters read holds exactly its bits, in order.
    (The exporter's one refusal — a stepped slice taken directly from a Signal — cannot arise: `resolve_unit`.) -/
theorem unit_step_accepted (ws : List (String × Nat)) (c : SConn) (bs : List Bit) (hd : c.denote = .ok bs)
    (hu : c.unit = true) (hne : c.noEmpty = true) (hok : sigsOK ws c = true) :
    ∃ r t, resolveSliceable (needR c) c = .ok r ∧ exportTarget r = .ok t ∧ Pkg.readTarget ws t = bs.map bitNat := by
  obtain ⟨r, hr, hrd, hre⟩ := resolve_total c bs hd hne (needR c) (Nat.le_refl _)
  have hru := (resolve_unit (needR c)).2.2.1 c r hr hu
  obtain ⟨t, ht⟩ := export_total r hre hru ⟨bs, hrd⟩
  have hok' : sigsOK ws r = true :=
    (resolve_keeps (fun c => sigsOK ws c = true) (by
      constructor
      · intro p idx; rw [sigsOK]
      · intro ps; rw [sigsOK]
        induction ps with
        | nil => simp [sigsOKList]
        | cons p ps ih => simp [sigsOKList, ih]) (needR c)).2.2.1 c r hr hok
  exact ⟨r, t, hr, ht, export_read ws r t bs hok' ht hrd⟩

/-- non-vacuity: a reversed, strided slice of a concatenation of a slice and a signal, resolved with exactly `needR` fuel -/
example :
    let c : SConn := .slice (.concat [.slice (.sig "a" 4) (.range (some 3) (some 0) (some (-1))), .sig "b" 3]) (.range none none (some (-2)))
    c.noEmpty = true ∧ needR c = 18 ∧ (resolveSliceable (needR c) c).toOption.map SConn.exportable = some true := by decide +kernel

/-! ### Non-vacuity -/
example : sliceInner 4 (.range (some 1) none (some 2)) =
    .ok { top := 4, bot := 1, step := 2, width := 2 } := by rfl
example : sliceInner 4 (.range (some 3) (some 1) (some (-1))) =
    .ok { top := 4, bot := 2, step := -1, width := 2 } := by rfl
example : ∃ e, sliceInner 4 (.range (some 2) (some 2) none) = .error e := ⟨_, rfl⟩

end Hdl21.Props.C03
