/-
# C05 — Names invented during elaboration never capture the designer's names

Every name elaboration invents goes through `flatname(…, avoid=module.namespace)`:
implicit signals behind port references and behind no-connects, named or not (`create_source`,
`replace_noconn`), flattened bundle members (`replace_bundle_inst`), array elements (`ArrayFlattener`),
instance-bundle members (`InstBundleElabPass`).  Proved for every namespace, every base name and limit:

* `flatname_fresh`     the returned name is not in the namespace it was told to avoid;
* `flatname_shape`     it is the joined base name followed by underscores only;
* `flatname_total`     it fails only if the base name plus one underscore per *colliding* name would
                       exceed the length limit (so a clash is resolved by a fresh name or by raising);
* `insert_keeps`       inserting under a fresh name leaves every existing binding's name in place.
That each call site really passes the live namespace, and that the rewritten module keeps the designer's
connections on the objects they were made to, is decided by the correspondence (adversarial-name
designs: every designer name chosen among the names the elaborator would invent).
-/
import Hdl21Model.Names
namespace Hdl21.Props.C05
open Hdl21.Names

theorem flatLoop_fresh (avoid : List Name) (maxlen : Nat) : ∀ fuel name r,
    flatLoop avoid maxlen fuel name = some r → r ∉ avoid ∧ r.length ≤ maxlen
  | 0, name, r, h => by rw [flatLoop] at h; cases h
  | fuel + 1, name, r, h => by
    rw [flatLoop] at h
    split at h
    · cases h
    · rename_i hlen
      split at h
      · rename_i hin
        injection h with h; subst h
        exact ⟨hin, by omega⟩
      · exact flatLoop_fresh avoid maxlen fuel _ r h

/-- The invented name never coincides with a name already in the namespace. -/
theorem flatname_fresh (segs : List Name) (avoid : List Name) (maxlen : Nat) (r : Name)
    (h : flatname segs avoid maxlen = some r) : r ∉ avoid ∧ r.length ≤ maxlen :=
  flatLoop_fresh avoid maxlen _ _ r h

theorem flatLoop_shape (avoid : List Name) (maxlen : Nat) : ∀ fuel name r,
    flatLoop avoid maxlen fuel name = some r → ∃ k, r = name ++ List.replicate k '_' ∧
      ∀ j < k, name ++ List.replicate j '_' ∈ avoid
  | 0, name, r, h => by rw [flatLoop] at h; cases h
  | fuel + 1, name, r, h => by
    rw [flatLoop] at h
    split at h
    · cases h
    · split at h
      · injection h with h; subst h
        exact ⟨0, by simp, fun j hj => by omega⟩
      · rename_i hin
        obtain ⟨k, hk, hall⟩ := flatLoop_shape avoid maxlen fuel _ r h
        refine ⟨k + 1, ?_, ?_⟩
        · rw [hk, List.replicate_succ]; simp
        · intro j hj
          cases j with
          | zero => simpa using (by simpa using hin : name ∈ avoid)
          | succ j =>
            have := hall j (by omega)
            rw [List.replicate_succ]; simpa using this

/-- It is the documented base name followed by underscores only, and every shorter variant was taken. -/
theorem flatname_shape (segs : List Name) (avoid : List Name) (maxlen : Nat) (r : Name)
    (h : flatname segs avoid maxlen = some r) :
    ∃ k, r = join segs ++ List.replicate k '_' ∧ ∀ j < k, join segs ++ List.replicate j '_' ∈ avoid :=
  flatLoop_shape avoid maxlen _ _ r h

/-- The loop only ever asks about names at least as long as its current candidate. -/
theorem flatLoop_congr (a b : List Name) (maxlen : Nat) : ∀ fuel name,
    (∀ c : Name, name.length ≤ c.length → (c ∈ a ↔ c ∈ b)) →
    flatLoop a maxlen fuel name = flatLoop b maxlen fuel name
  | 0, name, _ => by rw [flatLoop, flatLoop]
  | fuel + 1, name, h => by
    rw [flatLoop, flatLoop]
    have hm : name ∈ a ↔ name ∈ b := h name (Nat.le_refl _)
    have ih := flatLoop_congr a b maxlen fuel (name ++ ['_']) (fun c hc => h c (by simp at hc; omega))
    by_cases hl : name.length > maxlen
    · simp [hl]
    · by_cases hin : name ∈ a
      · have hinb : name ∈ b := hm.1 hin
        simp [hl, hin, hinb, ih]
      · have hinb : name ∉ b := fun hb => hin (hm.2 hb)
        simp [hl, hin, hinb]

/-- **A clash is resolved by a fresh name or by raising, never by capture** — and it only raises when the
    base name plus one underscore per name to avoid would exceed the length limit. -/
theorem flatLoop_total (maxlen : Nat) : ∀ (n : Nat) (avoid : List Name) (fuel : Nat) (name : Name),
    avoid.length = n → n < fuel → name.length + n ≤ maxlen → ∃ r, flatLoop avoid maxlen fuel name = some r
  | 0, avoid, fuel, name, hn, hf, hl => by
    have : avoid = [] := List.eq_nil_of_length_eq_zero hn
    subst this
    cases fuel with
    | zero => omega
    | succ fuel => rw [flatLoop]; simp; omega
  | n + 1, avoid, fuel, name, hn, hf, hl => by
    cases fuel with
    | zero => omega
    | succ fuel =>
      rw [flatLoop]
      rw [if_neg (by omega)]
      by_cases hin : name ∈ avoid
      · rw [if_neg (by simpa using hin)]
        have hcongr := flatLoop_congr avoid (avoid.erase name) maxlen fuel (name ++ ['_']) (by
          intro c hc
          have hne : c ≠ name := by
            intro e; subst e; simp at hc; omega
          exact (List.mem_erase_of_ne hne).symm)
        rw [hcongr]
        apply flatLoop_total maxlen n (avoid.erase name) fuel (name ++ ['_'])
        · rw [List.length_erase_of_mem hin, hn]; rfl
        · omega
        · simp; omega
      · exact ⟨name, by rw [if_pos hin]⟩

theorem flatname_total (segs : List Name) (avoid : List Name) (maxlen : Nat)
    (h : (join segs).length + avoid.length ≤ maxlen) : ∃ r, flatname segs avoid maxlen = some r := by
  unfold flatname
  exact flatLoop_total maxlen avoid.length avoid (maxlen + 2) (join segs) rfl (by omega) h

/-- Inserting under the invented name shadows nothing: every previous name is still there, and the new
    one was not. -/
theorem insert_keeps (ns : List Name) (segs : List Name) (maxlen : Nat) (r : Name)
    (h : flatname segs ns maxlen = some r) :
    (∀ n ∈ ns, n ∈ insertName ns r) ∧ r ∉ ns ∧ (insertName ns r).length = ns.length + 1 := by
  refine ⟨fun n hn => List.mem_cons_of_mem _ hn, (flatname_fresh segs ns maxlen r h).1, rfl⟩

/-- **Names invented in one batch** (the members of a flattened bundle, the elements of an array, the instances of an
    instance bundle) never coincide with a name already in the module *nor with each other*, and nothing that was in the
    namespace leaves it: the namespace afterwards is the invented names on top of the old one. -/
theorem inventAll_spec (maxlen : Nat) : ∀ (batch : List (List Name)) (ns ns' rs : List Name),
    inventAll ns maxlen batch = some (ns', rs) →
    ns' = rs.reverse ++ ns ∧ rs.length = batch.length ∧ (∀ r ∈ rs, r ∉ ns) ∧ rs.Nodup
  | [], ns, ns', rs, h => by
    simp only [inventAll, Option.some.injEq, Prod.mk.injEq] at h
    obtain ⟨rfl, rfl⟩ := h
    simp
  | segs :: rest, ns, ns', rs, h => by
    simp only [inventAll] at h
    cases hf : flatname segs ns maxlen with
    | none => simp [hf] at h
    | some r =>
      simp only [hf] at h
      cases hr : inventAll (insertName ns r) maxlen rest with
      | none => simp [hr] at h
      | some p =>
        obtain ⟨ns₂, rs₂⟩ := p
        simp only [hr, Option.some.injEq, Prod.mk.injEq] at h
        obtain ⟨rfl, rfl⟩ := h
        obtain ⟨h1, h2, h3, h4⟩ := inventAll_spec maxlen rest (insertName ns r) ns₂ rs₂ hr
        have hfresh := (flatname_fresh segs ns maxlen r hf).1
        refine ⟨?_, by simp [h2], ?_, ?_⟩
        · rw [h1]; simp [insertName]
        · intro x hx
          rcases List.mem_cons.mp hx with rfl | hx
          · exact hfresh
          · exact fun hin => h3 x hx (List.mem_cons_of_mem _ hin)
        · refine List.nodup_cons.mpr ⟨fun hin => h3 r hin (List.mem_cons_self ..), h4⟩

/-- **Whichever way a fresh name is chosen.** The property leaves the choice open ("a clash is resolved by choosing a fresh name or by
    raising"): for *any* chooser that only ever answers with a name not in the namespace it was shown, the names of a batch — each
    chosen against the live namespace, then inserted — are distinct from every name in the module and from each other, and the
    namespace afterwards is the old one plus exactly those names. `inventAll` is the instance with `flatname`; a code that counts up
    (`x_1`, `x_2`) instead of appending underscores is another. This is the statement the `batch_names` stream judges the
    implementation by. -/
theorem inventAllWith_spec (choose : List Name → List Name → Option Name)
    (hfresh : ∀ ns segs r, choose ns segs = some r → r ∉ ns) :
    ∀ (batch : List (List Name)) (ns ns' rs : List Name), inventAllWith choose ns batch = some (ns', rs) →
      ns' = rs.reverse ++ ns ∧ rs.length = batch.length ∧ (∀ r ∈ rs, r ∉ ns) ∧ rs.Nodup
  | [], ns, ns', rs, h => by
    simp only [inventAllWith, Option.some.injEq, Prod.mk.injEq] at h
    obtain ⟨rfl, rfl⟩ := h
    simp
  | segs :: rest, ns, ns', rs, h => by
    simp only [inventAllWith] at h
    cases hf : choose ns segs with
    | none => simp [hf] at h
    | some r =>
      simp only [hf] at h
      cases hr : inventAllWith choose (insertName ns r) rest with
      | none => simp [hr] at h
      | some p =>
        obtain ⟨ns₂, rs₂⟩ := p
        simp only [hr, Option.some.injEq, Prod.mk.injEq] at h
        obtain ⟨rfl, rfl⟩ := h
        obtain ⟨h1, h2, h3, h4⟩ := inventAllWith_spec choose hfresh rest (insertName ns r) ns₂ rs₂ hr
        have hnew := hfresh ns segs r hf
        refine ⟨?_, by simp [h2], ?_, ?_⟩
        · rw [h1]; simp [insertName]
        · intro x hx
          rcases List.mem_cons.mp hx with rfl | hx
          · exact hnew
          · exact fun hin => h3 x hx (List.mem_cons_of_mem _ hin)
        · refine List.nodup_cons.mpr ⟨fun hin => h3 r hin (List.mem_cons_self ..), h4⟩

/-- `flatname` is such a chooser: `inventAll` is `inventAllWith` of it. -/
theorem inventAll_is_instance (maxlen : Nat) : ∀ (batch : List (List Name)) (ns : List Name),
    inventAll ns maxlen batch = inventAllWith (fun ns segs => flatname segs ns maxlen) ns batch
  | [], ns => rfl
  | segs :: rest, ns => by
    simp only [inventAll, inventAllWith]
    cases flatname segs ns maxlen with
    | none => rfl
    | some r => simp only [inventAll_is_instance maxlen rest (insertName ns r)]

/-- Non-vacuity: a chooser that counts up instead of appending underscores. -/
example :
    let countUp : List Name → List Name → Option Name := fun ns segs =>
      let base := join segs
      if base ∉ ns then some base else ((List.range 5).map (fun k => base ++ '_' :: (toString (k + 1)).toList)).find? (· ∉ ns)
    (inventAllWith countUp ["a_0".toList, "a_1".toList] [["a".toList, "0".toList], ["a".toList, "1".toList], ["a".toList, "0".toList]]).map (·.2.map String.ofList) =
      some ["a_0_1", "a_1_1", "a_0_2"] := by decide

/-- … so a namespace without duplicates stays without duplicates, whatever the designer called things. -/
theorem inventAll_nodup (maxlen : Nat) (batch : List (List Name)) (ns ns' rs : List Name) (hns : ns.Nodup)
    (h : inventAll ns maxlen batch = some (ns', rs)) : ns'.Nodup ∧ ∀ n ∈ ns, n ∈ ns' := by
  obtain ⟨h1, _, h3, h4⟩ := inventAll_spec maxlen batch ns ns' rs h
  subst h1
  refine ⟨?_, fun n hn => List.mem_append_right _ hn⟩
  rw [List.nodup_append]
  refine ⟨List.pairwise_reverse.mpr (List.Pairwise.imp (fun h => Ne.symm h) h4), hns, ?_⟩
  intro a ha b hb hab
  subst hab
  exact h3 a (List.mem_reverse.mp ha) hb

/-! ### Non-vacuity: two members `x`, `x_` of bundle `b` next to a designer's `b_x`; a designer who already used `i0_a` and `i0_a_` -/
example : inventAll ["b_x".toList, "s".toList] 511 [["b".toList, "x".toList], ["b".toList, "x_".toList]]
    = some (["b_x__".toList, "b_x_".toList, "b_x".toList, "s".toList], ["b_x_".toList, "b_x__".toList]) := by decide

example : flatname ["i0".toList, "a".toList] ["i0_a".toList, "x".toList, "i0_a_".toList] = some "i0_a__".toList := by
  decide

end Hdl21.Props.C05
