/-
# C06 — Every exported package is closed and self-consistent

* `export_order`: the exporter's depth-first traversal lists every module once, after the modules it
  instantiates, for any module DAG, any sharing and any list of tops.
* `target_wf`: whatever the resolver + exporter produce for a connection (fragment F1) names declared
  signals only, stays inside their widths, and has the width of the connection (hence of the port,
  which `ConnTypes` compared it with).
* The full predicate `WFpkg` (Pkg.lean: unique names, ports name declared signals, references resolve
  to earlier modules / declared external modules / known primitives from the regenerated table, every
  target port connected exactly once, targets in range and of the port's width) is **executed** by the
  driver on every package the real code returns; that `elaborate ∘ export` establishes it for every
  design is proved for the connection targets only.
-/
import Hdl21Model.ExportOrder
import Hdl21Model.Lemmas.Resolve
import Hdl21Model.Lemmas.Export
import Hdl21Model.Lemmas.ExportWF
import Hdl21Model.Lemmas.ConnTypes
import Hdl21Model.Lemmas.Orphanage
import Hdl21Model.Lemmas.ModulePipe
import Hdl21Model.ExtDecl
namespace Hdl21.Props.C06
open Hdl21 Hdl21.ExportOrder

theorem closed_nil (ch : Nat → List Nat) : Closed ch [] := by
  intro i x h; simp at h

theorem closed_snoc {ch : Nat → List Nat} {l : List Nat} {m : Nat}
    (hc : Closed ch l) (hm : ∀ c ∈ ch m, c ∈ l) : Closed ch (l ++ [m]) := by
  intro i x h c hcx
  rcases Nat.lt_or_ge i l.length with hi | hi
  · rw [List.getElem?_append_left hi] at h
    have := hc i x h c hcx
    rw [List.take_append_of_le_length (by omega)]
    exact this
  · rw [List.getElem?_append_right hi] at h
    have hi0 : i - l.length = 0 := by
      rcases Nat.eq_zero_or_pos (i - l.length) with h0 | h0
      · exact h0
      · rw [List.getElem?_eq_none (by simp; omega)] at h; cases h
    rw [hi0] at h
    simp at h; subst h
    have : i = l.length := by omega
    subst this
    simp [hm c hcx]

/-- The invariant carried through the traversal. -/
structure Inv (ch : Nat → List Nat) (l : List Nat) : Prop where
  closed : Closed ch l
  nodup : l.Nodup

theorem exportModule_spec (ch : Nat → List Nat) (hdag : ∀ m c, c ∈ ch m → c < m) :
    ∀ fuel done m, m < fuel → Inv ch done →
      Inv ch (exportModule ch fuel done m) ∧ m ∈ exportModule ch fuel done m ∧
      (∀ x ∈ done, x ∈ exportModule ch fuel done m)
  | 0, done, m, hlt, _ => by omega
  | fuel + 1, done, m, hlt, hinv => by
    rw [exportModule]
    split
    · rename_i hin; exact ⟨hinv, hin, fun x hx => hx⟩
    · rename_i hnin
      -- fold over the children, keeping the invariant, growing monotonically, collecting every child
      have key : ∀ (cs : List Nat) (d : List Nat), (∀ c ∈ cs, c < m) → Inv ch d → m ∉ d →
          Inv ch (cs.foldl (fun d c => exportModule ch fuel d c) d) ∧
          (∀ x ∈ d, x ∈ cs.foldl (fun d c => exportModule ch fuel d c) d) ∧
          (∀ c ∈ cs, c ∈ cs.foldl (fun d c => exportModule ch fuel d c) d) ∧
          m ∉ cs.foldl (fun d c => exportModule ch fuel d c) d := by
        intro cs
        induction cs with
        | nil => intro d _ hd hm; exact ⟨hd, fun x hx => hx, fun c hc => (by cases hc), hm⟩
        | cons c cs ih =>
          intro d hcs hd hm
          have hc : c < m := hcs c (by simp)
          obtain ⟨hi1, hmem1, hmono1⟩ := exportModule_spec ch hdag fuel d c (by omega) hd
          have hm1 : m ∉ exportModule ch fuel d c := exportModule_notin ch hdag fuel d c m (by omega) hm
          obtain ⟨hi2, hmono2, hall2, hm2⟩ := ih (exportModule ch fuel d c) (fun x hx => hcs x (by simp [hx])) hi1 hm1
          refine ⟨hi2, fun x hx => hmono2 x (hmono1 x hx), ?_, hm2⟩
          intro x hx
          rcases List.mem_cons.1 hx with rfl | hx
          · exact hmono2 _ hmem1
          · exact hall2 x hx
      obtain ⟨hi, hmono, hall, hm⟩ := key (ch m) done (fun c hc => hdag m c hc) hinv hnin
      refine ⟨⟨closed_snoc hi.closed hall, ?_⟩, by simp, fun x hx => by simp [hmono x hx]⟩
      rw [List.nodup_append]
      exact ⟨hi.nodup, by simp, by intro a ha b hb; simp at hb; subst hb; intro e; subst e; exact hm ha⟩
where
  /-- Exporting a module only ever adds that module and modules below it. -/
  exportModule_notin (ch : Nat → List Nat) (hdag : ∀ m c, c ∈ ch m → c < m) :
      ∀ fuel done c m, c < m → m ∉ done → m ∉ exportModule ch fuel done c
    | 0, done, c, m, _, h => by rw [exportModule]; exact h
    | fuel + 1, done, c, m, hlt, h => by
      rw [exportModule]
      split
      · exact h
      · have key : ∀ (cs : List Nat) (d : List Nat), (∀ x ∈ cs, x < m) → m ∉ d →
            m ∉ cs.foldl (fun d c => exportModule ch fuel d c) d := by
          intro cs
          induction cs with
          | nil => intro d _ hd; exact hd
          | cons x xs ih =>
            intro d hxs hd
            exact ih _ (fun y hy => hxs y (by simp [hy])) (exportModule_notin ch hdag fuel d x m (hxs x (by simp)) hd)
        intro hmem
        rcases List.mem_append.1 hmem with hm | hm
        · exact key (ch c) done (fun x hx => Nat.lt_trans (hdag c x hx) hlt) h hm
        · simp at hm; omega

/-- **Definition before use, once each**: for any module DAG, sharing and list of tops, the exported
    module list has no duplicates, contains every top, and lists each module after everything it
    instantiates. -/
theorem export_order (ch : Nat → List Nat) (hdag : ∀ m c, c ∈ ch m → c < m) (tops : List Nat) (fuel : Nat)
    (hf : ∀ t ∈ tops, t < fuel) :
    Closed ch (exportTops ch fuel tops) ∧ (exportTops ch fuel tops).Nodup ∧ ∀ t ∈ tops, t ∈ exportTops ch fuel tops := by
  unfold exportTops
  have key : ∀ (ts : List Nat) (d : List Nat), (∀ t ∈ ts, t < fuel) → Inv ch d →
      Inv ch (ts.foldl (fun d t => exportModule ch fuel d t) d) ∧
      (∀ x ∈ d, x ∈ ts.foldl (fun d t => exportModule ch fuel d t) d) ∧
      (∀ t ∈ ts, t ∈ ts.foldl (fun d t => exportModule ch fuel d t) d) := by
    intro ts
    induction ts with
    | nil => intro d _ hd; exact ⟨hd, fun x hx => hx, fun t ht => (by cases ht)⟩
    | cons t ts ih =>
      intro d hts hd
      obtain ⟨h1, hmem, hmono⟩ := exportModule_spec ch hdag fuel d t (hts t (by simp)) hd
      obtain ⟨h2, hmono2, hall⟩ := ih _ (fun x hx => hts x (by simp [hx])) h1
      refine ⟨h2, fun x hx => hmono2 x (hmono x hx), ?_⟩
      intro x hx
      rcases List.mem_cons.1 hx with rfl | hx
      · exact hmono2 _ hmem
      · exact hall x hx
  obtain ⟨hi, _, hall⟩ := key tops [] hf ⟨closed_nil ch, List.nodup_nil⟩
  exact ⟨hi.closed, hi.nodup, hall⟩

/-- Connection targets produced by resolver + exporter (F1) name only declared signals, stay inside
    their widths (C03 `exported_bits_in_range`), and carry exactly as many bits as the connection is wide. -/
theorem target_width (ws : List (String × Nat)) (fuel : Nat) (c r : SConn) (t : Pkg.PTarget) (w : Nat)
    (hok : sigsOK ws c = true) (hr : resolveSliceable fuel c = .ok r) (he : exportTarget r = .ok t)
    (hw : c.width = .ok w) : (Pkg.readTarget ws t).length = w := by
  obtain ⟨bs, hd, hl⟩ := width_denote c w hw
  have hok' : sigsOK ws r = true :=
    (resolve_keeps (fun c => sigsOK ws c = true) (by
      constructor
      · intro p idx; rw [sigsOK]
      · intro ps; rw [sigsOK]
        induction ps with
        | nil => simp [sigsOKList]
        | cons p ps ih => simp [sigsOKList, ih]) fuel).2.2.1 c r hr hok
  rw [export_read ws r t bs hok' he ((resolve_sound fuel).2.2.1 c r bs hr hd)]
  simp [hl]

/-! ## whole modules -/
section Modules
open Hdl21.Pkg Hdl21.RoundTrip Hdl21.ExportWF

/-- The exporter's module, for *any* signal list `ws` it writes that carries each of the module's signals once with a
    positive width, the ports among them, and over which the instances' connections are in order. -/
theorem export_core (ctx : PRef → Option (List (String × Nat))) (h : HModule) (ws : List (String × Nat))
    (hnames : (ws.map (·.1)).Nodup) (hwid : ∀ s ∈ ws, 0 < s.2)
    (hports : ∀ n ∈ h.ports.map (·.name), n ∈ ws.map (·.1)) (hpnd : (h.ports.map (·.name)).Nodup)
    (hdir : (h.ports.all fun s => (s.dir.bind (lookupS · exportDirMap)).isSome) = true)
    (hinames : (h.instances.map (·.name)).Nodup)
    (hinst : (h.instances.all (instOK ctx ws)) = true) :
    ∃ q ps, exportPorts h.ports = .ok q ∧ exportInsts h.instances = .ok ps ∧ ps.map (·.name) = h.instances.map (·.name) ∧
      ∀ (pkg : Package) (earlier : List PModule), (∀ r, targetPorts pkg earlier r = ctx r) →
        moduleProblems pkg earlier ⟨h.name, ws, q, ps⟩ = [] := by
  obtain ⟨q, hq⟩ := exportPorts_ok h.ports hdir
  obtain ⟨ps, e1, e2, e3⟩ := insts_export ctx ws h.instances hinst
  refine ⟨q, ps, hq, e1, e2, ?_⟩
  intro pkg earlier hctx
  unfold moduleProblems
  have hqn := exportPorts_names h.ports q hq
  have h1 : dups (ws.map (·.1)) = [] := dups_nil_of_nodup _ hnames
  have h2 : dups (q.map (·.1)) = [] := by rw [hqn]; exact dups_nil_of_nodup _ hpnd
  have h3 : (q.map (·.1)).filter (fun n => (lookup n ws).isNone) = [] := by
    rw [List.filter_eq_nil_iff]
    intro n hn
    rw [hqn] at hn
    have := lookup_isSome_of_name_mem ws n (hports n hn)
    cases hl : lookup n ws with
    | none => simp [hl] at this
    | some w => simp
  have h4 : dups (ps.map (·.name)) = [] := by rw [e2]; exact dups_nil_of_nodup _ hinames
  have h5 : ws.filter (fun s => s.2 = 0) = [] := by
    rw [List.filter_eq_nil_iff]
    intro s hs
    have := hwid s hs
    simp; omega
  have h6 : ps.flatMap (instProblems pkg earlier ⟨h.name, ws, q, ps⟩) = [] := by
    rw [List.flatMap_eq_nil_iff]
    intro pi hpi
    obtain ⟨ports, hc, hnd, hall, hcov⟩ := e3 pi hpi
    exact inst_no_problems pkg earlier _ pi ports (by rw [hctx]; exact hc) hnd hall hcov
  simp only [h1, h2, h3, h4, h5, h6, List.map_nil, List.append_nil]

/-- **What the exporter writes for a well-formed elaborated module has none of the defects C06 lists**, in whatever package it
    ends up: signal, port and instance names unique, every port a declared signal, no zero-width signal, every instance of a
    defined target with each of its ports connected exactly once, to a target over declared signals, inside their widths, of the
    port's width. -/
theorem export_module_wf (ctx : PRef → Option (List (String × Nat))) (h : HModule) (hw : EWF ctx h = true) :
    ∃ p, RoundTrip.exportModule h = .ok p ∧ p.signals = sigList h ∧ p.instances.map (·.name) = h.instances.map (·.name) ∧
      ∀ (pkg : Package) (earlier : List PModule), (∀ r, targetPorts pkg earlier r = ctx r) → moduleProblems pkg earlier p = [] := by
  unfold EWF at hw
  simp only [Bool.and_eq_true, decide_eq_true_eq] at hw
  obtain ⟨⟨⟨⟨hnames, hwid⟩, hdir⟩, hinames⟩, hinst⟩ := hw
  have hsn : (sigList h).map (·.1) = (h.signals ++ h.ports).map (·.name) := by
    unfold sigList; rw [List.map_map]; rfl
  have hpnd : (h.ports.map (·.name)).Nodup := by
    rw [List.map_append] at hnames
    exact (List.nodup_append.mp hnames).2.1
  obtain ⟨q, ps, hq, e1, e2, hall⟩ := export_core ctx h (sigList h) (by rw [hsn]; exact hnames)
    (by
      intro s hs
      unfold sigList at hs
      obtain ⟨x, hx, rfl⟩ := List.mem_map.mp hs
      rw [List.all_eq_true] at hwid
      simpa using hwid x hx)
    (by intro n hn; rw [hsn, List.map_append]; exact List.mem_append_right _ hn)
    hpnd hdir hinames hinst
  exact ⟨⟨h.name, sigList h, q, ps⟩, by unfold RoundTrip.exportModule; rw [hq, e1]; rfl, rfl, e2, hall⟩

/-- **The same for the other layout.** An exporter that writes the ports' signals first and the internal ones after them
    (`exportModulePF`) produces, from the *same* state `EWF` describes, a module with no problems either: where in the list a
    signal stands does not enter any of the clauses, because names are unique and everything else looks signals up by name
    (`lookup_append_comm`). -/
theorem export_module_wf_ports_first (ctx : PRef → Option (List (String × Nat))) (h : HModule) (hw : EWF ctx h = true) :
    ∃ p, RoundTrip.exportModulePF h = .ok p ∧ p.signals = sigListPF h ∧ p.instances.map (·.name) = h.instances.map (·.name) ∧
      ∀ (pkg : Package) (earlier : List PModule), (∀ r, targetPorts pkg earlier r = ctx r) → moduleProblems pkg earlier p = [] := by
  unfold EWF at hw
  simp only [Bool.and_eq_true, decide_eq_true_eq] at hw
  obtain ⟨⟨⟨⟨hnames, hwid⟩, hdir⟩, hinames⟩, hinst⟩ := hw
  have hsn : (sigListPF h).map (·.1) = (h.ports ++ h.signals).map (·.name) := by
    unfold sigListPF; rw [List.map_map]; rfl
  have hperm : (h.ports ++ h.signals).Perm (h.signals ++ h.ports) := List.perm_append_comm
  have hpnd : (h.ports.map (·.name)).Nodup := by
    rw [List.map_append] at hnames
    exact (List.nodup_append.mp hnames).2.1
  have hinst' : (h.instances.all (instOK ctx (sigListPF h))) = true := by
    rw [List.all_eq_true] at hinst ⊢
    intro i hi
    rw [← instOK_congr ctx (sigList h) (sigListPF h) (sigList_lookup_comm h hnames) i]
    exact hinst i hi
  obtain ⟨q, ps, hq, e1, e2, hall⟩ := export_core ctx h (sigListPF h)
    (by rw [hsn]; exact ((hperm.map _).nodup_iff).mpr hnames)
    (by
      intro s hs
      unfold sigListPF at hs
      obtain ⟨x, hx, rfl⟩ := List.mem_map.mp hs
      rw [List.all_eq_true] at hwid
      simpa using hwid x (hperm.subset hx))
    (by intro n hn; rw [hsn, List.map_append]; exact List.mem_append_left _ hn)
    hpnd hdir hinames hinst'
  exact ⟨⟨h.name, sigListPF h, q, ps⟩, by unfold RoundTrip.exportModulePF; rw [hq, e1]; rfl, rfl, e2, hall⟩

theorem lookup_of_mem (ports : List (String × Nat)) (hnd : (ports.map (·.1)).Nodup) :
    ∀ (p : String) (w : Nat), (p, w) ∈ ports → Pkg.lookup p ports = some w := by
  induction ports with
  | nil => intro p w h; cases h
  | cons a rest ih =>
    intro p w h
    simp only [List.map_cons, List.nodup_cons] at hnd
    obtain ⟨a1, a2⟩ := a
    unfold Pkg.lookup
    rcases List.mem_cons.mp h with e | e
    · injection e with e1 e2; subst e1; subst e2; simp
    · have hne : a1 ≠ p := fun e' => hnd.1 (e' ▸ List.mem_map.mpr ⟨(p, w), e, rfl⟩)
      rw [if_neg hne]
      exact ih hnd.2 p w e

/-- **What the checking passes establish is what the exporter needs**: an instance whose connections pass `ConnTypes`
    (every port connected, width equal, nothing else — `conntypes_passes_iff`), are over the module's own signals (`Orphanage`)
    and are resolved to exportable form (`SliceResolver`) satisfies the instance part of `EWF`. -/
theorem checked_instance_is_instOK (ctx : PRef → Option (List (String × Nat))) (ws : List (String × Nat)) (i : HInst)
    (ports : List (String × Nat)) (hc : ctx i.ref = some ports)
    (hio : (ports.map (·.1)).Nodup) (hnd : (i.conns.map (·.1)).Nodup)
    (hpass : ConnTypes.passes ports i.conns = true)
    (hown : ∀ pc ∈ i.conns, sigsOK ws pc.2 = true ∧ ∃ t, exportTarget pc.2 = .ok t) :
    ExportWF.instOK ctx ws i = true := by
  obtain ⟨hall, hex⟩ := (ConnTypes.passes_iff ports i.conns hio hnd).mp hpass
  unfold ExportWF.instOK
  rw [hc]
  simp only [Bool.and_eq_true, decide_eq_true_eq, List.all_eq_true]
  refine ⟨⟨hnd, ?_⟩, ?_⟩
  · intro pc hpc
    have hk := hex pc hpc
    obtain ⟨pw, hpw, hpn⟩ := List.mem_map.mp hk
    obtain ⟨c, hcm, hw⟩ := hall pw hpw
    have hceq : c = pc.2 := by
      have h1 : (pw.1, pc.2) ∈ i.conns := by rw [hpn]; exact hpc
      exact ConnTypes.unique_conn i.conns pw.1 c pc.2 hnd hcm h1 |>.symm
    have hl : Pkg.lookup pc.1 ports = some pw.2 := by
      rw [← hpn]; exact lookup_of_mem ports hio pw.1 pw.2 hpw
    rw [hl]
    obtain ⟨hs, t, ht⟩ := hown pc hpc
    unfold connOK
    rw [hs, ht, ← hceq, hw]
    simp
  · intro pw hpw
    obtain ⟨c, hcm, _⟩ := hall pw hpw
    simp only [List.contains_eq_mem, decide_eq_true_eq]
    exact List.mem_map.mpr ⟨(pw.1, c), hcm, rfl⟩


/-- non-vacuity: a module with a port, an internal bus and a resistor between a bit of the bus and the port -/
def exH : HModule := ⟨"Top", [⟨"s", 2, none⟩], [⟨"a", 1, some "INPUT"⟩],
  [⟨"r1", .ext "vlsir.primitives" "resistor", [("r", "5")], [("p", .slice (.sig "s" 2) (.int 1)), ("n", .sig "a" 1)]⟩]⟩
def exCtxW : PRef → Option (List (String × Nat)) := fun r => if r = .ext "vlsir.primitives" "resistor" then some [("p", 1), ("n", 1)] else none
example : EWF exCtxW exH = true := by decide
end Modules

/-! ## module names -/
section Names

structure NInv (name : Nat → String) (s : NState) : Prop where
  nodup : (s.done.map name).Nodup
  reserved : ∀ x ∈ s.done, name x ∈ s.reserved

structure NStep (name : Nat → String) (s s' : NState) : Prop where
  inv : NInv name s'
  mono : ∀ n ∈ s.reserved, n ∈ s'.reserved
  keep : ∀ x ∈ s.done, x ∈ s'.done
  fresh : ∀ x ∈ s'.done, x ∈ s.done ∨ name x ∉ s.reserved

theorem foldOpt_step (name : Nat → String) (f : NState → Nat → Option NState)
    (hf : ∀ s c s', NInv name s → f s c = some s' → NStep name s s' ∧ c ∈ s'.done) :
    ∀ (cs : List Nat) (s s' : NState), NInv name s → foldOpt f s cs = some s' → NStep name s s' ∧ ∀ c ∈ cs, c ∈ s'.done
  | [], s, s', hi, h => by
    simp only [foldOpt, Option.some.injEq] at h
    subst h
    exact ⟨⟨hi, fun _ h => h, fun _ h => h, fun x hx => Or.inl hx⟩, fun _ h => by cases h⟩
  | c :: rest, s, s', hi, h => by
    unfold foldOpt at h
    cases hc : f s c with
    | none => simp [hc] at h
    | some s₁ =>
      simp only [hc] at h
      obtain ⟨st1, hm⟩ := hf s c s₁ hi hc
      obtain ⟨st2, hall⟩ := foldOpt_step name f hf rest s₁ s' st1.inv h
      refine ⟨⟨st2.inv, fun n hn => st2.mono n (st1.mono n hn), fun x hx => st2.keep x (st1.keep x hx), ?_⟩, ?_⟩
      · intro x hx
        rcases st2.fresh x hx with h1 | h1
        · exact st1.fresh x h1
        · exact Or.inr (fun hin => h1 (st1.mono _ hin))
      · intro x hx
        rcases List.mem_cons.mp hx with rfl | hx
        · exact st2.keep _ hm
        · exact hall x hx

theorem exportNamed_step (name : Nat → String) (children : Nat → List Nat) :
    ∀ (fuel : Nat) (s : NState) (m : Nat) (s' : NState), NInv name s → exportNamed name children fuel s m = some s' →
      NStep name s s' ∧ m ∈ s'.done
  | 0, _, _, _, _, h => by simp [exportNamed] at h
  | fuel + 1, s, m, s', hi, h => by
    unfold exportNamed at h
    by_cases hd : m ∈ s.done
    · simp only [hd, ↓reduceIte, Option.some.injEq] at h
      subst h
      exact ⟨⟨hi, fun _ h => h, fun _ h => h, fun x hx => Or.inl hx⟩, hd⟩
    · simp only [hd, ↓reduceIte] at h
      by_cases hr : name m ∈ s.reserved
      · simp [hr] at h
      · simp only [hr, ↓reduceIte] at h
        cases hc : foldOpt (exportNamed name children fuel) { s with reserved := name m :: s.reserved } (children m) with
        | none => simp [hc] at h
        | some s₂ =>
          simp only [hc, Option.some.injEq] at h
          subst h
          have hi1 : NInv name { s with reserved := name m :: s.reserved } :=
            ⟨hi.nodup, fun x hx => List.mem_cons_of_mem _ (hi.reserved x hx)⟩
          obtain ⟨st, _⟩ := foldOpt_step name _ (exportNamed_step name children fuel) (children m) _ s₂ hi1 hc
          have hnm : name m ∉ s₂.done.map name := by
            intro hin
            obtain ⟨x, hx, hxn⟩ := List.mem_map.mp hin
            rcases st.fresh x hx with h1 | h1
            · exact hr (hxn ▸ hi.reserved x h1)
            · exact h1 (hxn ▸ List.mem_cons_self ..)
          refine ⟨⟨⟨?_, ?_⟩, ?_, ?_, ?_⟩, by simp⟩
          · simp only [List.map_append, List.map_cons, List.map_nil]
            rw [List.nodup_append]
            refine ⟨st.inv.nodup, by simp, ?_⟩
            intro a ha b hb hab
            simp only [List.mem_singleton] at hb
            subst hb; subst hab
            exact hnm ha
          · intro x hx
            simp only [List.mem_append, List.mem_singleton] at hx
            rcases hx with hx | rfl
            · exact st.inv.reserved x hx
            · exact st.mono _ (List.mem_cons_self ..)
          · intro n hn; exact st.mono n (List.mem_cons_of_mem _ hn)
          · intro x hx; exact List.mem_append_left _ (st.keep x hx)
          · intro x hx
            simp only [List.mem_append, List.mem_singleton] at hx
            rcases hx with hx | rfl
            · rcases st.fresh x hx with h1 | h1
              · exact Or.inl h1
              · exact Or.inr (fun hin => h1 (List.mem_cons_of_mem _ hin))
            · exact Or.inr hr

theorem nodup_map_inj {f : Nat → String} : ∀ (l : List Nat), (l.map f).Nodup → ∀ x ∈ l, ∀ y ∈ l, f x = f y → x = y
  | [], _, _, hx, _, _, _ => by cases hx
  | a :: rest, hnd, x, hx, y, hy, hxy => by
    simp only [List.map_cons, List.nodup_cons] at hnd
    have hxa := List.mem_cons.mp hx
    have hya := List.mem_cons.mp hy
    rcases hxa with e1 | e1
    · rcases hya with e2 | e2
      · rw [e1, e2]
      · exact absurd (List.mem_map.mpr ⟨y, e2, by rw [← hxy, e1]⟩) hnd.1
    · rcases hya with e2 | e2
      · exact absurd (List.mem_map.mpr ⟨x, e1, by rw [hxy, e2]⟩) hnd.1
      · exact nodup_map_inj rest hnd.2 x e1 y e2 hxy

/-- **Module names are unique in every package that is returned**: whenever `export()` of any list of tops succeeds — the name
    of a module being reserved before its dependencies are exported — every top is in the package and no two modules of the
    package share a serialized name; in particular two different modules of one name below the tops make it raise. -/
theorem exported_names_unique (name : Nat → String) (children : Nat → List Nat) (fuel : Nat) (tops : List Nat) (s' : NState)
    (h : exportNamedTops name children fuel tops = some s') :
    (s'.done.map name).Nodup ∧ (∀ t ∈ tops, t ∈ s'.done) ∧
    ∀ x ∈ s'.done, ∀ y ∈ s'.done, name x = name y → x = y := by
  have hi : NInv name ⟨[], []⟩ := ⟨by simp, fun _ h => by cases h⟩
  obtain ⟨st, hall⟩ := foldOpt_step name _ (exportNamed_step name children fuel) tops _ s' hi h
  exact ⟨st.inv.nodup, hall, nodup_map_inj _ st.inv.nodup⟩

/-- two modules called "A" (0 and 2) below one top: refused; with distinct names: exported, dependencies first -/
example : exportNamedTops (fun m => if m = 2 then "A" else if m = 0 then "A" else "B") (fun m => if m = 3 then [0, 2] else []) 5 [3] = none ∧
    (exportNamedTops (fun m => if m = 0 then "A" else if m = 2 then "C" else "B") (fun m => if m = 3 then [0, 2] else []) 5 [3]).map (·.done) = some [0, 2, 3] := by
  decide
end Names

/-! ### Non-vacuity: a diamond -/
example : exportTops (fun m => if m = 3 then [1, 2] else if m = 1 ∨ m = 2 then [0] else []) 4 [3] = [0, 1, 2, 3] := by
  decide

/-! ## "over the module's own signals" is what `Orphanage` checks -/
section Ownership
open Hdl21.Orphanage Hdl21.Pkg

/-- **The ownership hypothesis of `checked_instance_is_instOK` discharged**: a connection that passed `Orphanage` in module `me`
    and has been resolved to Signal / Slice / Concat form names only signals the module declares, with their widths — given that
    every Signal object parented by `me` is declared by `me` under its name and width (the namespace coherence of C18:
    `_parent_module` is set by, and only by, filing the object in the module's namespace). -/
theorem orphanage_gives_sigsOK (me : Nat) (ws : List (String × Nat)) (c : OConn) (s : SConn)
    (hcoh : ∀ n w, (n, w, some me) ∈ sigObjs c → Pkg.lookup n ws = some w)
    (hpass : checkConn me c = true) (hres : erase c = some s) :
    sigsOK ws s = true :=
  erase_sigsOK me ws c s hcoh hpass hres

/-- Without the check there is nothing to conclude: a signal of another module by the same name need not be declared here. -/
example : checkConn 7 (.sig "s" 2 (some 8)) = false ∧ (erase (.sig "s" 2 (some 8))).isSome = true ∧ sigsOK [] (.sig "s" 2) = false := by
  decide

example : checkConn 7 (.concat [.slice (.sig "s" 2 (some 7)) (.int 1), .sig "t" 1 (some 7)]) = true ∧
    sigsOK [("s", 2), ("t", 1)] (.concat [.slice (.sig "s" 2) (.int 1), .sig "t" 1]) = true := by decide

end Ownership


/-! ## the passes composed: one F1 module through the default pass list and the exporter -/
section Pipeline
open Hdl21.Pkg Hdl21.RoundTrip Hdl21.ExportWF Hdl21.ModulePipe

/-- **The passes establish what the exporter needs.** For a module of fragment F1 (ModulePipe.lean: connections are arbitrarily
    nested slices and concatenations of signals), whose namespace is a namespace (`ModOK`: one object per name, positive widths,
    directed ports, dict keys distinct): when the default pass list — `Orphanage, ConnTypes, SliceResolver, ConnTypesRepeat,
    OrphanageRepeat`, composed from the models each pass has of its own — answers, and the exporter does not refuse a stepped
    slice, the state the passes leave is `EWF`.  No hypothesis about intermediate states remains. -/
theorem elaborated_module_is_EWF (fuel : Nat) (ctx : PRef → Option (List (String × Nat))) (h e : HModule) (p : PModule)
    (hm : ModOK ctx h) (he : elabModule fuel ctx h = .ok e) (hx : RoundTrip.exportModule e = .ok p) :
    EWF ctx e = true := by
  obtain ⟨hnames, hwid, hdir, hinames, hcn, hctx⟩ := hm
  obtain ⟨_, _, hs, hc', ho'⟩ := elabModule_inv he
  obtain ⟨_, hsig, hport, hrel⟩ := sliceResolver_inv hs
  -- the exporter exported every connection
  have hexp : ∀ r ∈ e.instances, ∀ pc ∈ r.conns, ∃ t, exportTarget pc.2 = .ok t := by
    unfold RoundTrip.exportModule at hx
    cases h1 : exportPorts e.ports with
    | error x => simp [h1] at hx
    | ok q =>
      cases h2 : exportInsts e.instances with
      | error x => simp [h1, h2] at hx
      | ok ps =>
        intro r hr pc hpc
        obtain ⟨pi, _, _, _, _, hcs⟩ := forall2_mem_left (exportInsts_spec _ _ h2) r hr
        obtain ⟨pt, _, _, ht⟩ := forall2_mem_left hcs pc hpc
        exact ⟨pt.2, ht⟩
  unfold EWF
  simp only [Bool.and_eq_true, decide_eq_true_eq, List.all_eq_true]
  rw [hsig, hport]
  refine ⟨⟨⟨⟨hnames, fun s hs' => by simpa using hwid s hs'⟩, ?_⟩, ?_⟩, ?_⟩
  · rw [List.all_eq_true] at hdir; exact hdir
  · rw [forall2_map_eq (f := fun (i : HInst) => i.name) (g := fun (i : HInst) => i.name) (fun a b hr => hr.1) hrel]
    exact hinames
  · intro r hr
    obtain ⟨ports, hcr, hpass⟩ := connTypes_inst hc' r hr
    obtain ⟨i, hi, _, _, _, hcs⟩ := forall2_mem_right hrel r hr
    have hnd : (r.conns.map (·.1)).Nodup := by
      rw [forall2_map_eq (f := fun (pc : String × SConn) => pc.1) (g := fun (pc : String × SConn) => pc.1)
        (fun a b hr => hr.1) hcs]
      exact hcn i hi
    have hsl : sigList e = sigList h := sigList_of_resolved hs
    have := checked_instance_is_instOK ctx (sigList e) r ports hcr (hctx _ _ hcr) hnd hpass
      (fun pc hpc => ⟨orphanage_inst ho' r hr pc hpc, hexp r hr pc hpc⟩)
    exact this

/-- **C06 for the module the composed passes hand to the exporter**: whatever `pipeline` (default pass list, then
    `export_module`) returns for an F1 module has none of the module-level defects C06 lists — signal, port and instance names
    unique, every port a declared signal, no zero-width signal, every instance of a defined target with each of its ports
    connected exactly once to a target over declared signals, inside their widths, as wide as the port — in whatever package
    it ends up. -/
theorem module_pipeline_wf (fuel : Nat) (ctx : PRef → Option (List (String × Nat))) (h : HModule) (p : PModule)
    (hm : ModOK ctx h) (hp : pipeline fuel ctx h = .ok p) :
    ∀ (pkg : Package) (earlier : List PModule), (∀ r, targetPorts pkg earlier r = ctx r) → moduleProblems pkg earlier p = [] := by
  unfold pipeline at hp
  cases he : elabModule fuel ctx h with
  | error x => simp [he] at hp
  | ok e =>
    simp only [he] at hp
    have hw := elaborated_module_is_EWF fuel ctx h e p hm he hp
    obtain ⟨p', hp', _, _, hall⟩ := export_module_wf ctx e hw
    rw [hp] at hp'
    injection hp' with hp'
    subst hp'
    exact hall

/-- non-vacuity: `exH` (a resistor between bit 1 of a bus and a port) goes through, and a reversed slice of a concatenation is
    resolved on the way -/
example : (pipeline 40 exCtxW exH).toOption.map (fun p => p.instances.map fun i => i.conns.map fun pc => (pc.1, readTarget p.signals pc.2)) =
    some [[("p", [("s", 1)]), ("n", [("a", 0)])]] := by decide +kernel
example : (pipeline 40 (fun _ => some [("p", 2)])
    ⟨"T", [⟨"s", 2, none⟩, ⟨"t", 2, none⟩], [], [⟨"x", .ext "d" "n", [], [("p", .slice (.concat [.sig "s" 2, .sig "t" 2]) (.range (some 1) (some 3) none))]⟩]⟩).toOption.map
      (fun p => p.instances.map fun i => i.conns.map fun pc => (pc.1, readTarget p.signals pc.2)) =
    some [[("p", [("s", 1), ("t", 0)])]] := by decide +kernel
end Pipeline



/-! ## … and across the hierarchy: every module of an F1 design through the pass list and the exporter, children first -/
section Hierarchy
open Hdl21.Pkg Hdl21.RoundTrip Hdl21.ExportWF Hdl21.ModulePipe

/-- the module-local half of `ModOK` -/
def ModOK₀ (h : HModule) : Prop :=
  ((h.signals ++ h.ports).map (·.name)).Nodup ∧
  (∀ s ∈ h.signals ++ h.ports, 0 < s.width) ∧
  (h.ports.all fun s => (s.dir.bind (lookupS · exportDirMap)).isSome) = true ∧
  (h.instances.map (·.name)).Nodup ∧
  (∀ i ∈ h.instances, (i.conns.map (·.1)).Nodup)

/-- every primitive of the regenerated table has its ports under distinct names -/
theorem primitive_ports_distinct : primitivePorts.all (fun r => decide ((r.2.2.map (·.1)).Nodup)) = true := by decide +kernel

theorem targetPorts_exts_only (pkg : Package) (earlier : List PModule) (r : PRef) :
    targetPorts pkg earlier r = targetPorts ⟨[], pkg.exts⟩ earlier r := by
  cases r <;> rfl

theorem map_fst_lookup (ports : List (String × String)) (sigs : List (String × Nat)) :
    (ports.map (fun (x : String × String) => (x.1, (lookup x.1 sigs).getD 0))).map (·.1) = ports.map (·.1) := by
  rw [List.map_map]; rfl

/-- what an instance can point to has its ports under distinct names, given that the modules exported so far and the declared
    external modules do -/
theorem ctx_ports_distinct (exts : List PExt) (acc : List PModule)
    (hacc : ∀ m ∈ acc, (m.ports.map (·.1)).Nodup) (hext : ∀ e ∈ exts, (e.ports.map (·.1)).Nodup) :
    ∀ r ports, targetPorts ⟨[], exts⟩ acc r = some ports → (ports.map (·.1)).Nodup := by
  intro r ports h
  cases r with
  | loc name =>
    simp only [targetPorts] at h
    cases hf : acc.find? (fun m => m.name == name) with
    | none => simp [hf] at h
    | some m =>
      simp only [hf, Option.map_some] at h
      injection h with h; subst h
      have hm := List.mem_of_find?_eq_some hf
      have := hacc m hm
      simpa [List.map_map, Function.comp_def] using this
  | ext d n =>
    simp only [targetPorts] at h
    cases hf : exts.find? (fun e => e.domain == d && e.name == n) with
    | some e =>
      simp only [hf] at h
      injection h with h; subst h
      have := hext e (List.mem_of_find?_eq_some hf)
      simpa [List.map_map, Function.comp_def] using this
    | none =>
      simp only [hf] at h
      cases hp : primitivePorts.find? (fun r => r.1 == d && r.2.1 == n) with
      | none => simp [hp] at h
      | some r =>
        simp only [hp, Option.map_some] at h
        injection h with h; subst h
        have := List.all_eq_true.mp primitive_ports_distinct r (List.mem_of_find?_eq_some hp)
        simpa using this

theorem pipeline_ports (fuel : Nat) (ctx : PRef → Option (List (String × Nat))) (h : HModule) (p : PModule)
    (hp : pipeline fuel ctx h = .ok p) : p.ports.map (·.1) = h.ports.map (·.name) := by
  unfold pipeline at hp
  cases he : elabModule fuel ctx h with
  | error x => simp [he] at hp
  | ok e =>
    simp only [he] at hp
    obtain ⟨_, _, hs, _, _⟩ := elabModule_inv he
    obtain ⟨_, _, hport, _⟩ := sliceResolver_inv hs
    unfold RoundTrip.exportModule at hp
    cases h1 : exportPorts e.ports with
    | error x => simp [h1] at hp
    | ok q =>
      cases h2 : exportInsts e.instances with
      | error x => simp [h1, h2] at hp
      | ok ps =>
        simp only [h1, h2] at hp
        injection hp with hp; subst hp
        rw [← hport]; exact exportPorts_names _ _ h1

/-- **C06 for a whole F1 design.** Its modules — each with a namespace that is a namespace (`ModOK₀`), children first — go through
    the composed pass list and the exporter one after the other, every instance judged against what the package holds at that
    point (modules exported earlier, declared external modules with distinct port names, the primitive table).  If that returns,
    the package has **no module-level defect anywhere** (`problemsFrom … = []`: unique signal / port / instance names, ports on
    declared signals, no zero-width signal, every instance of something exported before it, declared or primitive, each of its
    ports connected exactly once to a target over declared signals, in range, as wide as the port).  With
    `exported_names_unique` (module names) and `declarations_consistent` (external modules) that is all of `WFpkg`. -/
theorem design_pipeline_wf (fuel : Nat) (exts : List PExt) (hext : ∀ e ∈ exts, (e.ports.map (·.1)).Nodup) :
    ∀ (hs : List HModule) (acc mods : List PModule), (∀ h ∈ hs, ModOK₀ h) → (∀ m ∈ acc, (m.ports.map (·.1)).Nodup) →
      pipelineDesign fuel exts hs acc = .ok mods →
      ∃ new, mods = acc ++ new ∧ ∀ (others : List PModule), problemsFrom ⟨others, exts⟩ acc new = []
  | [], acc, mods, _, _, h => by
    unfold pipelineDesign at h; injection h with h; subst h
    exact ⟨[], by simp, fun _ => rfl⟩
  | h :: rest, acc, mods, hm, hacc, hp => by
    unfold pipelineDesign at hp
    cases h1 : pipeline fuel (targetPorts ⟨[], exts⟩ acc) h with
    | error x => simp [h1] at hp
    | ok p =>
      simp only [h1] at hp
      obtain ⟨m1, m2, m3, m4, m5⟩ := hm h (List.mem_cons_self ..)
      have hmod : ModOK (targetPorts ⟨[], exts⟩ acc) h := ⟨m1, m2, m3, m4, m5, ctx_ports_distinct exts acc hacc hext⟩
      have hwf := module_pipeline_wf fuel _ h p hmod h1
      have hpn : (p.ports.map (·.1)).Nodup := by
        rw [pipeline_ports fuel _ h p h1]
        rw [List.map_append] at m1
        exact (List.nodup_append.mp m1).2.1
      obtain ⟨new, hnew, hrest⟩ := design_pipeline_wf fuel exts hext rest (acc ++ [p]) mods
        (fun x hx => hm x (List.mem_cons_of_mem _ hx))
        (fun m hmem => by
          rcases List.mem_append.mp hmem with hm' | hm'
          · exact hacc m hm'
          · simp at hm'; subst hm'; exact hpn) hp
      refine ⟨p :: new, by rw [hnew]; simp, ?_⟩
      intro others
      unfold problemsFrom
      rw [hwf ⟨others, exts⟩ acc (fun r => targetPorts_exts_only ⟨others, exts⟩ acc r), hrest others]
      rfl

/-- **`WFpkg` for F1 designs, every clause.** The package `to_proto` returns for a design of fragment F1 — all modules through the
    composed pass list and the exporter, children first — satisfies the whole of the executed C06 predicate, given what the other
    theorems of this file establish of their own parts: module names distinct (`exported_names_unique`) and external-module
    declarations distinct (`declarations_consistent`). -/
theorem package_wf_F1 (fuel : Nat) (exts : List PExt) (hext : ∀ e ∈ exts, (e.ports.map (·.1)).Nodup)
    (hs : List HModule) (mods : List PModule) (hm : ∀ h ∈ hs, ModOK₀ h)
    (hp : pipelineDesign fuel exts hs [] = .ok mods)
    (hnames : (mods.map (·.name)).Nodup) (hkeys : (exts.map (fun e => e.domain ++ "." ++ e.name)).Nodup) :
    WFpkg ⟨mods, exts⟩ = true := by
  obtain ⟨new, hnew, hprob⟩ := design_pipeline_wf fuel exts hext hs [] mods hm (fun _ h => by cases h) hp
  simp only [List.nil_append] at hnew
  subst hnew
  unfold WFpkg problems
  rw [dups_nil_of_nodup _ hnames, dups_nil_of_nodup _ hkeys, hprob mods]
  rfl

/-- non-vacuity: a child with a two-bit port under a parent that wires it to a reversed slice of a (one-part) concatenation of a bus -/
example :
    let child : HModule := ⟨"Child", [], [⟨"d", 2, some "INPUT"⟩], [⟨"r", .ext "vlsir.primitives" "resistor", [], [("p", .slice (.sig "d" 2) (.int 0)), ("n", .slice (.sig "d" 2) (.int 1))]⟩]⟩
    let top : HModule := ⟨"Top", [⟨"bus", 4, none⟩], [], [⟨"c", .loc "Child", [], [("d", .slice (.concat [.sig "bus" 4]) (.range (some 3) (some 1) (some (-1))))]⟩]⟩
    (match pipelineDesign 40 [] [child, top] [] with
     | .ok mods => some (mods.map (·.name), problemsFrom ⟨mods, []⟩ [] mods)
     | .error _ => none) = some (["Child", "Top"], []) := by decide +kernel
end Hierarchy

/-! ## external-module declarations -/
section ExtDecls
open Hdl21.ExtDecl

/-- the package's declarations: one per qualified name -/
def KeysUnique (pkg : List Decl) : Prop := (pkg.map Decl.key).Nodup

theorem find_none_not_mem (pkg : List Decl) (d : Decl) (h : pkg.find? (fun o => o.key = d.key) = none) : d.key ∉ pkg.map Decl.key := by
  intro hm
  obtain ⟨o, ho, hk⟩ := List.mem_map.mp hm
  have := List.find?_eq_none.mp h o ho
  simp [hk] at this

/-- one declaration step: names stay unique, what was declared stays, and the object just declared is in the package **as it was
    given** — same widths, same ports, same spice type — so an instance checked against its own `ExternalModule` is checked
    against what the package declares.  (A step that compares names and port lists only — seed C06-r8-2 — files a declaration of
    other widths under the first one's name.) -/
theorem declare_spec (pkg pkg' : List Decl) (d : Decl) (hu : KeysUnique pkg) (h : declare pkg d = some pkg') :
    KeysUnique pkg' ∧ d ∈ pkg' ∧ (∀ o ∈ pkg, o ∈ pkg') ∧ (∀ o ∈ pkg', o ∈ pkg ∨ o = d) := by
  unfold declare at h
  cases hf : pkg.find? (fun o => o.key = d.key) with
  | some o =>
    simp only [hf] at h
    by_cases ho : o = d
    · simp [ho] at h; subst h
      have hm := List.mem_of_find?_eq_some hf
      exact ⟨hu, ho ▸ hm, fun _ h => h, fun _ h => Or.inl h⟩
    · simp [ho] at h
  | none =>
    simp only [hf] at h
    injection h with h; subst h
    refine ⟨?_, by simp, fun o ho => by simp [ho], fun o ho => ?_⟩
    · unfold KeysUnique
      rw [List.map_append, List.nodup_append]
      refine ⟨hu, by simp, ?_⟩
      intro a ha b hb
      simp at hb; subst hb
      intro hab; subst hab
      exact find_none_not_mem pkg d hf ha
    · rcases List.mem_append.mp ho with h | h
      · exact Or.inl h
      · simp at h; exact Or.inr h

/-- **Every package's external-module declarations are consistent**: whenever the exporter gets through all the `ExternalModule`
    objects of a design, the package declares each qualified name once, and every object met is declared exactly as given; two
    objects of one name that differ in anything the package says — a port's width included — make the export fail. -/
theorem declarations_consistent : ∀ (ds : List Decl) (pkg pkg' : List Decl), KeysUnique pkg → declareAll pkg ds = some pkg' →
    KeysUnique pkg' ∧ (∀ d ∈ ds, d ∈ pkg') ∧ (∀ o ∈ pkg, o ∈ pkg')
  | [], pkg, pkg', hu, h => by
    unfold declareAll at h; injection h with h; subst h
    exact ⟨hu, (fun _ hd => by cases hd), fun _ h => h⟩
  | d :: ds, pkg, pkg', hu, h => by
    unfold declareAll at h
    cases hd : declare pkg d with
    | none => simp [hd] at h
    | some p1 =>
      simp only [hd] at h
      obtain ⟨hu1, hin, hkeep, _⟩ := declare_spec pkg p1 d hu hd
      obtain ⟨hu2, hall, hkeep2⟩ := declarations_consistent ds p1 pkg' hu1 h
      refine ⟨hu2, ?_, fun o ho => hkeep2 o (hkeep o ho)⟩
      intro x hx
      rcases List.mem_cons.mp hx with rfl | hx
      · exact hkeep2 _ hin
      · exact hall x hx

theorem conflicting_declarations_refused (ds : List Decl) (pkg : List Decl) (hu : KeysUnique pkg) (a b : Decl)
    (ha : a ∈ ds) (hb : b ∈ ds) (hk : a.key = b.key) (hne : a ≠ b) : declareAll pkg ds = none := by
  cases h : declareAll pkg ds with
  | none => rfl
  | some pkg' =>
    obtain ⟨hu', hall, _⟩ := declarations_consistent ds pkg pkg' hu h
    exfalso
    -- two different members of a list whose keys are pairwise distinct cannot share a key
    have key : ∀ (l : List Decl), (l.map Decl.key).Nodup → a ∈ l → b ∈ l → False := by
      intro l
      induction l with
      | nil => intro _ h; cases h
      | cons x xs ih =>
        intro hnd hxa hxb
        simp only [List.map_cons, List.nodup_cons] at hnd
        rcases List.mem_cons.mp hxa with e1 | e1 <;> rcases List.mem_cons.mp hxb with e2 | e2
        · exact hne (e1.trans e2.symm)
        · exact hnd.1 (List.mem_map.mpr ⟨b, e2, by rw [← e1, hk]⟩)
        · exact hnd.1 (List.mem_map.mpr ⟨a, e1, by rw [← e2, hk]⟩)
        · exact ih hnd.2 e1 e2
    exact key pkg' hu' (hall a ha) (hall b hb)

/-- non-vacuity: the same declaration twice is written once; the same name with an eight- and a sixteen-bit port is refused -/
example :
    let e8 : Decl := ⟨"lib", "EW", "SUBCKT", [("d", 8), ("q", 1)], [("d", "INPUT"), ("q", "OUTPUT")]⟩
    let e16 : Decl := ⟨"lib", "EW", "SUBCKT", [("d", 16), ("q", 1)], [("d", "INPUT"), ("q", "OUTPUT")]⟩
    (declareAll [] [e8, e8]).map List.length = some 1 ∧ declareAll [] [e8, e16] = none ∧ declareAll [] [e16, e8] = none := by decide
end ExtDecls

end Hdl21.Props.C06
