/-
# C06 — Every exported package is closed and self-consistent

* `export_order`: the exporter's depth-first traversal lists every module once, after the modules it
  instantiates, for any module DAG, any sharing and any list of tops.
* `target_wf`: whatever the resolver + exporter produce for a connection (fragment F1) names declared
  signals only, stays inside their widths, and has the width of the connection (hence of the port,
  which `ConnTypes` compared it with).
* The full predicate `WFpkg` (Pkg.lean: unique names, ports name declared signals, references resolve
  to earlier modules / declared external modules / known primitives from the regenerated table, every
  target port connected exactly once, targets in range and of the port's width) is **executed** by the
  driver on every package the real code returns; that `elaborate ∘ export` establishes it for every
  design is proved for the connection targets only.
-/
import Hdl21Model.ExportOrder
import Hdl21Model.Lemmas.Resolve
import Hdl21Model.Lemmas.Export
import Hdl21Model.Lemmas.ExportWF
namespace Hdl21.Props.C06
open Hdl21 Hdl21.ExportOrder

theorem closed_nil (ch : Nat → List Nat) : Closed ch [] := by
  intro i x h; simp at h

theorem closed_snoc {ch : Nat → List Nat} {l : List Nat} {m : Nat}
    (hc : Closed ch l) (hm : ∀ c ∈ ch m, c ∈ l) : Closed ch (l ++ [m]) := by
  intro i x h c hcx
  rcases Nat.lt_or_ge i l.length with hi | hi
  · rw [List.getElem?_append_left hi] at h
    have := hc i x h c hcx
    rw [List.take_append_of_le_length (by omega)]
    exact this
  · rw [List.getElem?_append_right hi] at h
    have hi0 : i - l.length = 0 := by
      rcases Nat.eq_zero_or_pos (i - l.length) with h0 | h0
      · exact h0
      · rw [List.getElem?_eq_none (by simp; omega)] at h; cases h
    rw [hi0] at h
    simp at h; subst h
    have : i = l.length := by omega
    subst this
    simp [hm c hcx]

/-- The invariant carried through the traversal. -/
structure Inv (ch : Nat → List Nat) (l : List Nat) : Prop where
  closed : Closed ch l
  nodup : l.Nodup

theorem exportModule_spec (ch : Nat → List Nat) (hdag : ∀ m c, c ∈ ch m → c < m) :
    ∀ fuel done m, m < fuel → Inv ch done →
      Inv ch (exportModule ch fuel done m) ∧ m ∈ exportModule ch fuel done m ∧
      (∀ x ∈ done, x ∈ exportModule ch fuel done m)
  | 0, done, m, hlt, _ => by omega
  | fuel + 1, done, m, hlt, hinv => by
    rw [exportModule]
    split
    · rename_i hin; exact ⟨hinv, hin, fun x hx => hx⟩
    · rename_i hnin
      -- fold over the children, keeping the invariant, growing monotonically, collecting every child
      have key : ∀ (cs : List Nat) (d : List Nat), (∀ c ∈ cs, c < m) → Inv ch d → m ∉ d →
          Inv ch (cs.foldl (fun d c => exportModule ch fuel d c) d) ∧
          (∀ x ∈ d, x ∈ cs.foldl (fun d c => exportModule ch fuel d c) d) ∧
          (∀ c ∈ cs, c ∈ cs.foldl (fun d c => exportModule ch fuel d c) d) ∧
          m ∉ cs.foldl (fun d c => exportModule ch fuel d c) d := by
        intro cs
        induction cs with
        | nil => intro d _ hd hm; exact ⟨hd, fun x hx => hx, fun c hc => (by cases hc), hm⟩
        | cons c cs ih =>
          intro d hcs hd hm
          have hc : c < m := hcs c (by simp)
          obtain ⟨hi1, hmem1, hmono1⟩ := exportModule_spec ch hdag fuel d c (by omega) hd
          have hm1 : m ∉ exportModule ch fuel d c := exportModule_notin ch hdag fuel d c m (by omega) hm
          obtain ⟨hi2, hmono2, hall2, hm2⟩ := ih (exportModule ch fuel d c) (fun x hx => hcs x (by simp [hx])) hi1 hm1
          refine ⟨hi2, fun x hx => hmono2 x (hmono1 x hx), ?_, hm2⟩
          intro x hx
          rcases List.mem_cons.1 hx with rfl | hx
          · exact hmono2 _ hmem1
          · exact hall2 x hx
      obtain ⟨hi, hmono, hall, hm⟩ := key (ch m) done (fun c hc => hdag m c hc) hinv hnin
      refine ⟨⟨closed_snoc hi.closed hall, ?_⟩, by simp, fun x hx => by simp [hmono x hx]⟩
      rw [List.nodup_append]
      exact ⟨hi.nodup, by simp, by intro a ha b hb; simp at hb; subst hb; intro e; subst e; exact hm ha⟩
where
  /-- Exporting a module only ever adds that module and modules below it. -/
  exportModule_notin (ch : Nat → List Nat) (hdag : ∀ m c, c ∈ ch m → c < m) :
      ∀ fuel done c m, c < m → m ∉ done → m ∉ exportModule ch fuel done c
    | 0, done, c, m, _, h => by rw [exportModule]; exact h
    | fuel + 1, done, c, m, hlt, h => by
      rw [exportModule]
      split
      · exact h
      · have key : ∀ (cs : List Nat) (d : List Nat), (∀ x ∈ cs, x < m) → m ∉ d →
            m ∉ cs.foldl (fun d c => exportModule ch fuel d c) d := by
          intro cs
          induction cs with
          | nil => intro d _ hd; exact hd
          | cons x xs ih =>
            intro d hxs hd
            exact ih _ (fun y hy => hxs y (by simp [hy])) (exportModule_notin ch hdag fuel d x m (hxs x (by simp)) hd)
        intro hmem
        rcases List.mem_append.1 hmem with hm | hm
        · exact key (ch c) done (fun x hx => Nat.lt_trans (hdag c x hx) hlt) h hm
        · simp at hm; omega

/-- **Definition before use, once each**: for any module DAG, sharing and list of tops, the exported
    module list has no duplicates, contains every top, and lists each module after everything it
    instantiates. -/
theorem export_order (ch : Nat → List Nat) (hdag : ∀ m c, c ∈ ch m → c < m) (tops : List Nat) (fuel : Nat)
    (hf : ∀ t ∈ tops, t < fuel) :
    Closed ch (exportTops ch fuel tops) ∧ (exportTops ch fuel tops).Nodup ∧ ∀ t ∈ tops, t ∈ exportTops ch fuel tops := by
  unfold exportTops
  have key : ∀ (ts : List Nat) (d : List Nat), (∀ t ∈ ts, t < fuel) → Inv ch d →
      Inv ch (ts.foldl (fun d t => exportModule ch fuel d t) d) ∧
      (∀ x ∈ d, x ∈ ts.foldl (fun d t => exportModule ch fuel d t) d) ∧
      (∀ t ∈ ts, t ∈ ts.foldl (fun d t => exportModule ch fuel d t) d) := by
    intro ts
    induction ts with
    | nil => intro d _ hd; exact ⟨hd, fun x hx => hx, fun t ht => (by cases ht)⟩
    | cons t ts ih =>
      intro d hts hd
      obtain ⟨h1, hmem, hmono⟩ := exportModule_spec ch hdag fuel d t (hts t (by simp)) hd
      obtain ⟨h2, hmono2, hall⟩ := ih _ (fun x hx => hts x (by simp [hx])) h1
      refine ⟨h2, fun x hx => hmono2 x (hmono x hx), ?_⟩
      intro x hx
      rcases List.mem_cons.1 hx with rfl | hx
      · exact hmono2 _ hmem
      · exact hall x hx
  obtain ⟨hi, _, hall⟩ := key tops [] hf ⟨closed_nil ch, List.nodup_nil⟩
  exact ⟨hi.closed, hi.nodup, hall⟩

/-- Connection targets produced by resolver + exporter (F1) name only declared signals, stay inside
    their widths (C03 `exported_bits_in_range`), and carry exactly as many bits as the connection is wide. -/
theorem target_width (ws : List (String × Nat)) (fuel : Nat) (c r : SConn) (t : Pkg.PTarget) (w : Nat)
    (hok : sigsOK ws c = true) (hr : resolveSliceable fuel c = .ok r) (he : exportTarget r = .ok t)
    (hw : c.width = .ok w) : (Pkg.readTarget ws t).length = w := by
  obtain ⟨bs, hd, hl⟩ := width_denote c w hw
  have hok' : sigsOK ws r = true :=
    (resolve_keeps (fun c => sigsOK ws c = true) (by
      constructor
      · intro p idx; rw [sigsOK]
      · intro ps; rw [sigsOK]
        induction ps with
        | nil => simp [sigsOKList]
        | cons p ps ih => simp [sigsOKList, ih]) fuel).2.2.1 c r hr hok
  rw [export_read ws r t bs hok' he ((resolve_sound fuel).2.2.1 c r bs hr hd)]
  simp [hl]

/-! ## whole modules -/
section Modules
open Hdl21.Pkg Hdl21.RoundTrip Hdl21.ExportWF

/-- **What the exporter writes for a well-formed elaborated module has none of the defects C06 lists**, in whatever package it
    ends up: signal, port and instance names unique, every port a declared signal, no zero-width signal, every instance of a
    defined target with each of its ports connected exactly once, to a target over declared signals, inside their widths, of the
    port's width. -/
theorem export_module_wf (ctx : PRef → Option (List (String × Nat))) (h : HModule) (hw : EWF ctx h = true) :
    ∃ p, RoundTrip.exportModule h = .ok p ∧ p.signals = sigList h ∧ p.instances.map (·.name) = h.instances.map (·.name) ∧
      ∀ (pkg : Package) (earlier : List PModule), (∀ r, targetPorts pkg earlier r = ctx r) → moduleProblems pkg earlier p = [] := by
  unfold EWF at hw
  simp only [Bool.and_eq_true, decide_eq_true_eq] at hw
  obtain ⟨⟨⟨⟨hnames, hwid⟩, hdir⟩, hinames⟩, hinst⟩ := hw
  obtain ⟨q, hq⟩ := exportPorts_ok h.ports hdir
  obtain ⟨ps, e1, e2, e3⟩ := insts_export ctx (sigList h) h.instances hinst
  refine ⟨⟨h.name, sigList h, q, ps⟩, by unfold RoundTrip.exportModule; rw [hq, e1]; rfl, rfl, e2, ?_⟩
  intro pkg earlier hctx
  unfold moduleProblems
  have hsn : (sigList h).map (·.1) = (h.signals ++ h.ports).map (·.name) := by
    unfold sigList; rw [List.map_map]; rfl
  have hqn := exportPorts_names h.ports q hq
  have h1 : dups ((sigList h).map (·.1)) = [] := by rw [hsn]; exact dups_nil_of_nodup _ hnames
  have hpnd : (h.ports.map (·.name)).Nodup := by
    rw [List.map_append] at hnames
    exact (List.nodup_append.mp hnames).2.1
  have h2 : dups (q.map (·.1)) = [] := by rw [hqn]; exact dups_nil_of_nodup _ hpnd
  have h3 : (q.map (·.1)).filter (fun n => (lookup n (sigList h)).isNone) = [] := by
    rw [List.filter_eq_nil_iff]
    intro n hn
    rw [hqn] at hn
    have : n ∈ (sigList h).map (·.1) := by
      rw [hsn, List.map_append]; exact List.mem_append_right _ hn
    have := lookup_isSome_of_name_mem (sigList h) n this
    cases hl : lookup n (sigList h) with
    | none => simp [hl] at this
    | some w => simp
  have h4 : dups (ps.map (·.name)) = [] := by rw [e2]; exact dups_nil_of_nodup _ hinames
  have h5 : (sigList h).filter (fun s => s.2 = 0) = [] := by
    rw [List.filter_eq_nil_iff]
    intro s hs
    unfold sigList at hs
    obtain ⟨x, hx, rfl⟩ := List.mem_map.mp hs
    rw [List.all_eq_true] at hwid
    have := hwid x hx
    simp only [decide_eq_true_eq] at this
    simp; omega
  have h6 : ps.flatMap (instProblems pkg earlier ⟨h.name, sigList h, q, ps⟩) = [] := by
    rw [List.flatMap_eq_nil_iff]
    intro pi hpi
    obtain ⟨ports, hc, hnd, hall, hcov⟩ := e3 pi hpi
    exact inst_no_problems pkg earlier _ pi ports (by rw [hctx]; exact hc) hnd hall hcov
  simp only [h1, h2, h3, h4, h5, h6, List.map_nil, List.append_nil]


/-- non-vacuity: a module with a port, an internal bus and a resistor between a bit of the bus and the port -/
def exH : HModule := ⟨"Top", [⟨"s", 2, none⟩], [⟨"a", 1, some "INPUT"⟩],
  [⟨"r1", .ext "vlsir.primitives" "resistor", [("r", "5")], [("p", .slice (.sig "s" 2) (.int 1)), ("n", .sig "a" 1)]⟩]⟩
def exCtxW : PRef → Option (List (String × Nat)) := fun r => if r = .ext "vlsir.primitives" "resistor" then some [("p", 1), ("n", 1)] else none
example : EWF exCtxW exH = true := by decide
end Modules

/-! ### Non-vacuity: a diamond -/
example : exportTops (fun m => if m = 3 then [1, 2] else if m = 1 ∨ m = 2 then [0] else []) 4 [3] = [0, 1, 2, 3] := by
  decide

end Hdl21.Props.C06
