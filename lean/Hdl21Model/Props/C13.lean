/-
# C13 — Parameter values reach the package unchanged

Exactness of prefixed numbers through `export_prefixed` / `import_prefixed` for every mantissa,
exponent and each of the 21 prefixes; the value dispatch; the ideal-primitive name and parameter
tables (regenerated from the code on every run).  Decimal ↔ text (`str(Decimal)`, `Decimal(text)`)
and float ↔ IEEE bits are CPython's and are covered by the correspondence only.
-/
import Hdl21Model.Params
import Hdl21Model.Lemmas.Prefix
namespace Hdl21.Props.C13
open Hdl21 Hdl21.Params

/-! ### Tables (G) -/

/-- Every hdl21 prefix has an export entry, and importing what was exported gives the prefix back. -/
theorem prefix_roundtrip : ∀ pv ∈ prefixValues,
    ∃ name, exportPrefix pv = some name ∧ importPrefix name = some pv := by decide

/-- The exported VLSIR prefix names are members of the vlsir.SIPrefix enum. -/
theorem prefix_names_valid : ∀ e ∈ exportPrefixMap, (vlsirPrefixEnum.map (·.1)).contains e.2 = true := by decide

/-- Exporter and importer agree on the ideal-primitive names: each hdl21 ideal primitive maps to
    a VLSIR primitive that the importer maps back to it, and all 11 are covered. -/
theorem prim_maps_inverse : ∀ p ∈ exportPrimMap, lookupS p.2 importPrimMap = some p.1 := by decide
theorem prim_map_total : ∀ n ∈ idealPrimitives, (lookupS n exportPrimMap).isSome = true := by decide
theorem prim_map_injective : (exportPrimMap.map (·.2)).Nodup := by decide

/-- Pulse-source parameter renaming: the importer inverts the exporter, every field is carried. -/
theorem pulse_maps_inverse : ∀ p ∈ exportPulseMap, lookupS p.2 importPulseMap = some p.1 := by decide
theorem pulse_fields_total : ∀ f ∈ pulseFields, (exportPulseMap.map (·.2)).contains f = true := by decide
theorem pulse_keys_distinct : (exportPulseMap.map (·.1)).Nodup := by decide

/-! ### Exactness of prefixed numbers -/

theorem isInt_toInt (d : Dec) (h : Dec.isInt d = true) : ((d.toInt : ℤ) : ℚ) = d.val := by
  unfold Dec.isInt at h
  unfold Dec.toInt Dec.val
  by_cases he : d.e ≥ 0
  · simp only [he, if_true]
    have hk : (d.e.toNat : ℤ) = d.e := Int.toNat_of_nonneg he
    push_cast
    rw [← zpow_natCast, hk]
  · simp only [he, if_false, decide_eq_true_eq] at h ⊢
    have hk : ((-d.e).toNat : ℤ) = -d.e := Int.toNat_of_nonneg (by omega)
    have hdvd : (10 ^ (-d.e).toNat : ℤ) ∣ d.c := Int.dvd_of_emod_eq_zero h
    rw [Int.tdiv_eq_ediv_of_dvd hdvd]
    have hpos : (0 : ℚ) < ((10 : ℤ) ^ (-d.e).toNat : ℤ) := by positivity
    rw [Int.cast_div hdvd (ne_of_gt hpos)]
    push_cast
    rw [← zpow_natCast, hk, zpow_neg]
    field_simp

/-- **A prefixed number survives export and import exactly**: same exact value, same prefix,
    for any mantissa length, any exponent and every legal prefix; it is never rejected. -/
theorem prefixed_exact (p : Prefixed) (hp : p.pre ∈ prefixValues) :
    ∃ n name, exportPrefixed p = some (.prefixed n name) ∧
      ∃ q, importPrefixed n name = some q ∧ q.val = p.val ∧ q.pre = p.pre := by
  obtain ⟨name, h1, h2⟩ := prefix_roundtrip p.pre hp
  unfold exportPrefixed
  simp only [h1]
  split
  · rename_i hc
    simp only [Bool.and_eq_true] at hc
    refine ⟨_, name, rfl, ⟨⟨p.number.toInt, 0⟩, p.pre⟩, ?_, ?_, rfl⟩
    · simp [importPrefixed, h2]
    · unfold Prefixed.val Dec.val
      simp only [zpow_zero, mul_one]
      rw [isInt_toInt p.number hc.1]; rfl
  · refine ⟨_, name, rfl, p, ?_, rfl, rfl⟩
    simp [importPrefixed, h2]

/-- Integers are exported as integers only when they fit VLSIR's 64 bits. -/
theorem int64_guard (p : Prefixed) (n : Int) (name : String)
    (h : exportPrefixed p = some (.prefixed (.int64 n) name)) : -(2 ^ 63 : Int) ≤ n ∧ n < 2 ^ 63 := by
  unfold exportPrefixed at h
  cases hx : exportPrefix p.pre with
  | none => simp [hx] at h
  | some nm =>
    simp only [hx] at h
    split at h
    · rename_i hc
      simp only [Bool.and_eq_true, inInt64, decide_eq_true_eq] at hc
      injection h with h; injection h with h1 _; injection h1 with h1
      rw [← h1]; exact hc.2
    · injection h with h; injection h with h1 _; cases h1

/-! ### Value dispatch -/

/-- Each accepted Python value lands in the ParamValue variant that carries it unchanged;
    `None` is omitted; non-string enums and foreign types are rejected. -/
theorem dispatch :
    (exportParamValue .none = some none) ∧
    (∀ s, exportParamValue (.str s) = some (some (.literal s))) ∧
    (∀ s, exportParamValue (.literal s) = some (some (.literal s))) ∧
    (∀ s, exportParamValue (.enumStr s) = some (some (.literal s))) ∧
    (exportParamValue .enumOther = none) ∧ (exportParamValue .other = none) ∧
    (∀ r, exportParamValue (.float r) = some (some (.double r))) ∧
    (∀ i, inInt64 i = true → exportParamValue (.int i) = some (some (.int64 i))) ∧
    (∀ i, inInt64 i = false → exportParamValue (.int i) = none) := by
  refine ⟨rfl, fun _ => rfl, fun _ => rfl, fun _ => rfl, rfl, rfl, fun _ => rfl, ?_, ?_⟩
  · intro i h; simp [exportParamValue, h]
  · intro i h; simp [exportParamValue, h]

/-! ### Non-vacuity -/
example : exportPrefixed ⟨⟨15, -1⟩, -9⟩ = some (.prefixed (.string ⟨15, -1⟩) "NANO") := by decide
example : exportPrefixed ⟨⟨10, -1⟩, 3⟩ = some (.prefixed (.int64 1) "KILO") := by decide
example : exportPrefixed ⟨⟨1, 30⟩, 0⟩ = some (.prefixed (.string ⟨1, 30⟩) "UNIT") := by decide

end Hdl21.Props.C13
