/-
# C16 — flatten() preserves leaf-level connectivity

`walk` labels every leaf terminal with the net it is on, a net being (path of instances to the module that
declares it, its name there); `flatten` then rebuilds the module **by name**.  Proved for every hierarchy
(any depth, any sharing — `mods` is an arbitrary module table, the fuel an arbitrary depth bound):

* `flat_only_leaves_one_per_leaf`   the flat module has exactly one instance per leaf of the hierarchy
                                    (`leafCount`), all of them leaves, under pairwise distinct names, and the
                                    top module's ports, unchanged;
* `flat_same_net_iff`               two leaf terminals are on one signal of the flat module iff `walk` put them on
                                    one net; a terminal is on a port of the flat module iff it is on that port's net;
* `collision_rejected`              whenever two different nets, or two different leaves, would get one joined
                                    name, `flatten` returns nothing (raises) — never a wrong module;
* `walk_child_port_is_parent_net`, `walk_internal_net_is_private`   the two rules by which `walk` labels:
                                    a child's port is the very net its parent connects to it, an internal
                                    signal is a net of its own per instance path;
* `walk_paths`                      every leaf's path extends the path of the module it was found under.
* `walk_labels_are_connectivity`, `flatten_preserves_connectivity`   connectivity of the hierarchy is the
                                    equivalence closure of "a child's port is the signal its instantiator connects to it"
                                    (`Connected`, Lemmas/FlattenSound.lean); two leaf terminals get one net id — and, when
                                    `flatten` returns, sit on one signal of the flat module — **iff** the signals they are attached
                                    to are connected in the hierarchy; a terminal sits on a port of the flat module iff it is
                                    connected to that port of `m`.  Hypothesis `WFH`: instance names are unique within a module and
                                    an instance binds a port at most once (dict keys in Hdl21).
The correspondence still compares every design with the independent declarative semantics `Sem.src`, and every name the
implementation produces with the model's.
-/
import Hdl21Model.Flatten
import Hdl21Model.Lemmas.FlattenSound
namespace Hdl21.Props.C16
open Hdl21.Flatten

theorem netClash_false {ids : List NetId} (h : netClash ids = false) {a b : NetId}
    (ha : a ∈ ids) (hb : b ∈ ids) (hn : netName a = netName b) : a = b := by
  unfold netClash at h
  rw [List.any_eq_false] at h
  have h1 := h a ha
  simp only [Bool.not_eq_true] at h1
  rw [List.any_eq_false] at h1
  have h2 := h1 b hb
  simp only [Bool.not_eq_true, Bool.and_eq_false_iff, bne_eq_false_iff_eq, beq_eq_false_iff_ne] at h2
  rcases h2 with h2 | h2
  · exact h2
  · exact absurd hn h2

theorem mem_usedIds_of_conn {ports : List Name} {nodes : List FNode} {n : FNode} {c : Name × NetId}
    (hn : n ∈ nodes) (hc : c ∈ n.conns) : c.2 ∈ usedIds ports nodes := by
  unfold usedIds
  apply List.mem_append_right
  exact List.mem_flatMap.mpr ⟨n, hn, List.mem_map.mpr ⟨c, hc, rfl⟩⟩

theorem mem_usedIds_of_port {ports : List Name} {nodes : List FNode} {q : Name} (hq : q ∈ ports) :
    (([], q) : NetId) ∈ usedIds ports nodes := by
  unfold usedIds
  exact List.mem_append_left _ (List.mem_map.mpr ⟨q, hq, rfl⟩)

/-- What `flatten` returned, in terms of what `walk` found. -/
theorem flatten_ok {mods : Nat → Option FMod} {fuel : Nat} {top : FMod} {F : Flat}
    (h : flatten mods fuel top = .ok F) :
    ∃ nodes, walk mods fuel top [] (top.signals.map (fun s => (s, ([], s))) ++ top.ports.map (fun s => (s, ([], s)))) = some nodes ∧
      netClash (usedIds top.ports nodes) = false ∧ leafClash nodes = false ∧
      crossClash (usedIds top.ports nodes) nodes = false ∧
      F.ports = top.ports ∧
      F.insts = nodes.map (fun n => { name := leafName n, kind := n.kind, conns := n.conns.map fun c => (c.1, netName c.2) }) := by
  unfold flatten at h
  split at h
  · cases h
  · rename_i nodes hw
    split at h
    · cases h
    · rename_i hc
      simp only [Bool.or_eq_true, not_or, Bool.not_eq_true] at hc
      injection h with h
      subst h
      exact ⟨nodes, hw, hc.1.1, hc.1.2, hc.2, rfl, rfl⟩

/-- Two leaf terminals share a signal of the flat module iff they are on one net of the hierarchy;
    a leaf terminal is on a port of the flat module iff it is on that port's net. -/
theorem flat_same_net_iff {mods : Nat → Option FMod} {fuel : Nat} {top : FMod} {F : Flat}
    (h : flatten mods fuel top = .ok F) :
    ∃ nodes, walk mods fuel top [] (top.signals.map (fun s => (s, ([], s))) ++ top.ports.map (fun s => (s, ([], s)))) = some nodes ∧
      (∀ n₁ ∈ nodes, ∀ n₂ ∈ nodes, ∀ c₁ ∈ n₁.conns, ∀ c₂ ∈ n₂.conns, (netName c₁.2 = netName c₂.2 ↔ c₁.2 = c₂.2)) ∧
      (∀ n ∈ nodes, ∀ c ∈ n.conns, ∀ q ∈ top.ports, (netName c.2 = q ↔ c.2 = ([], q))) := by
  obtain ⟨nodes, hw, hnc, _, _, _, _⟩ := flatten_ok h
  refine ⟨nodes, hw, ?_, ?_⟩
  · intro n₁ h₁ n₂ h₂ c₁ hc₁ c₂ hc₂
    exact ⟨fun e => netClash_false hnc (mem_usedIds_of_conn h₁ hc₁) (mem_usedIds_of_conn h₂ hc₂) e, fun e => by rw [e]⟩
  · intro n hn c hc q hq
    constructor
    · intro e
      have : netName c.2 = netName (([], q) : NetId) := by
        rw [e]; simp [netName, joinNames]
      exact netClash_false hnc (mem_usedIds_of_conn hn hc) (mem_usedIds_of_port hq) this
    · intro e; rw [e]; simp [netName, joinNames]

theorem collision_rejected {mods : Nat → Option FMod} {fuel : Nat} {top : FMod} {nodes : List FNode}
    (hw : walk mods fuel top [] (top.signals.map (fun s => (s, ([], s))) ++ top.ports.map (fun s => (s, ([], s)))) = some nodes)
    (hc : netClash (usedIds top.ports nodes) = true ∨ leafClash nodes = true ∨ crossClash (usedIds top.ports nodes) nodes = true) :
    flatten mods fuel top = .error .collision := by
  unfold flatten
  rw [hw]
  simp only
  rcases hc with hc | hc | hc <;> simp [hc]

/-- In a flat module that was returned no instance carries the name of a net: every name of the flat module stands for one
    thing (adding the instance under a net's name would have put it in the net's place). -/
theorem flat_instance_names_are_not_net_names {mods : Nat → Option FMod} {fuel : Nat} {top : FMod} {F : Flat}
    (h : flatten mods fuel top = .ok F) :
    ∀ i ∈ F.insts, i.name ∉ F.ports ∧ ∀ j ∈ F.insts, ∀ c ∈ j.conns, i.name ≠ c.2 := by
  obtain ⟨nodes, _, _, _, hx, hp, hi⟩ := flatten_ok h
  intro i hiin
  rw [hi] at hiin
  obtain ⟨n, hn, rfl⟩ := List.mem_map.mp hiin
  have hno : ∀ id ∈ usedIds top.ports nodes, leafName n ≠ netName id := by
    intro id hid e
    have : crossClash (usedIds top.ports nodes) nodes = true := by
      unfold crossClash
      rw [List.any_eq_true]
      exact ⟨n, hn, by rw [List.any_eq_true]; exact ⟨id, hid, by simpa using e⟩⟩
    rw [hx] at this; cases this
  constructor
  · intro hq
    rw [hp] at hq
    exact hno ([], _) (mem_usedIds_of_port hq) (by simp [netName, joinNames])
  · intro j hj c hc e
    rw [hi] at hj
    obtain ⟨n₂, hn₂, rfl⟩ := List.mem_map.mp hj
    obtain ⟨c₀, hc₀, rfl⟩ := List.mem_map.mp hc
    exact hno c₀.2 (mem_usedIds_of_conn hn₂ hc₀) e

/-! ### `walk` -/

theorem walkList_length (f : FInst → Option (List FNode)) (g : FInst → Nat)
    (hfg : ∀ i a, f i = some a → a.length = g i) :
    ∀ (insts : List FInst) (nodes : List FNode), walkList f insts = some nodes → nodes.length = (insts.map g).sum
  | [], nodes, h => by simp only [walkList] at h; injection h with h; subst h; rfl
  | i :: rest, nodes, h => by
    simp only [walkList] at h
    split at h
    · rename_i a b ha hb
      injection h with h; subst h
      simp [hfg i a ha, walkList_length f g hfg rest b hb]
    · cases h

/-- One flattened instance per leaf of the hierarchy. -/
theorem walk_leaf_count (mods : Nat → Option FMod) : ∀ (fuel : Nat) (m : FMod) (parents : List Name) (env : Env)
    (nodes : List FNode), walk mods fuel m parents env = some nodes → nodes.length = leafCount mods fuel m
  | 0, _, _, _, _, h => by simp [walk] at h
  | fuel + 1, m, parents, env, nodes, h => by
    simp only [walk] at h
    simp only [leafCount]
    apply walkList_length _ _ _ m.insts nodes h
    intro i a ha
    unfold walkInst at ha
    unfold countInst
    split at ha
    · cases ha
    · rename_i nc _
      cases ht : i.target with
      | leaf k => simp only [ht] at ha; injection ha with ha; subst ha; rfl
      | mod idx =>
        simp only [ht] at ha
        cases hm : mods idx with
        | none => simp [hm] at ha
        | some child => simp only [hm] at ha; simp only [hm]; exact walk_leaf_count mods fuel child _ _ a ha

theorem walkList_forall (f : FInst → Option (List FNode)) (P : FNode → Prop)
    (hf : ∀ i a, f i = some a → ∀ n ∈ a, P n) :
    ∀ (insts : List FInst) (nodes : List FNode), walkList f insts = some nodes → ∀ n ∈ nodes, P n
  | [], nodes, h => by simp only [walkList] at h; injection h with h; subst h; intro n hn; cases hn
  | i :: rest, nodes, h => by
    simp only [walkList] at h
    split at h
    · rename_i a b ha hb
      injection h with h; subst h
      intro n hn
      rcases List.mem_append.mp hn with hn | hn
      · exact hf i a ha n hn
      · exact walkList_forall f P hf rest b hb n hn
    · cases h

/-- Every leaf found under a module at path `parents` has a path that properly extends `parents`. -/
theorem walk_paths (mods : Nat → Option FMod) : ∀ (fuel : Nat) (m : FMod) (parents : List Name) (env : Env)
    (nodes : List FNode), walk mods fuel m parents env = some nodes →
      ∀ n ∈ nodes, ∃ suffix, suffix ≠ [] ∧ n.path = parents ++ suffix
  | 0, _, _, _, _, h => by simp [walk] at h
  | fuel + 1, m, parents, env, nodes, h => by
    simp only [walk] at h
    apply walkList_forall _ (fun n => ∃ suffix, suffix ≠ [] ∧ n.path = parents ++ suffix) _ m.insts nodes h
    intro i a ha n hn
    unfold walkInst at ha
    split at ha
    · cases ha
    · rename_i nc _
      cases ht : i.target with
      | leaf k =>
        simp only [ht] at ha; injection ha with ha; subst ha
        simp only [List.mem_singleton] at hn; subst hn
        exact ⟨[i.name], by simp, rfl⟩
      | mod idx =>
        simp only [ht] at ha
        cases hm : mods idx with
        | none => simp [hm] at ha
        | some child =>
          simp only [hm] at ha
          obtain ⟨sfx, hs, hp⟩ := walk_paths mods fuel child _ _ a ha n hn
          exact ⟨i.name :: sfx, by simp, by rw [hp]; simp⟩

/-- The flat module: one instance per leaf of the hierarchy, under distinct names, and the top's ports. -/
theorem flat_only_leaves_one_per_leaf {mods : Nat → Option FMod} {fuel : Nat} {top : FMod} {F : Flat}
    (h : flatten mods fuel top = .ok F) :
    F.insts.length = leafCount mods fuel top ∧ (F.insts.map (·.name)).Nodup ∧ F.ports = top.ports := by
  obtain ⟨nodes, hw, _, hlc, _, hp, hi⟩ := flatten_ok h
  refine ⟨?_, ?_, hp⟩
  · rw [hi, List.length_map]; exact walk_leaf_count mods fuel top _ _ nodes hw
  · rw [hi, List.map_map]
    have e : ((fun x : FlatInst => x.name) ∘ fun n : FNode =>
        ({ name := leafName n, kind := n.kind, conns := n.conns.map fun c => (c.1, netName c.2) } : FlatInst)) = leafName := rfl
    rw [e]
    unfold leafClash at hlc
    simpa using hlc

/-- A connection to something the parent bound (a port of this module) lands on the parent's net. -/
theorem walk_child_port_is_parent_net (m : FMod) (parents : List Name) (env : Env) (key : Name) (id : NetId)
    (h : envGet env key = some id) : bindKey m parents env key = some id := by
  simp [bindKey, h]

/-- A connection to an internal signal lands on a net that belongs to this instance path alone. -/
theorem walk_internal_net_is_private (m : FMod) (parents : List Name) (env : Env) (key : Name)
    (h : envGet env key = none) (hk : key ∈ m.signals ∨ key ∈ m.ports) :
    bindKey m parents env key = some (parents, key) := by
  simp [bindKey, h, hk]

/-- An unknown signal name is refused. -/
theorem walk_unknown_signal_rejected (m : FMod) (parents : List Name) (env : Env) (key : Name)
    (h : envGet env key = none) (hk : ¬ (key ∈ m.signals ∨ key ∈ m.ports)) :
    bindKey m parents env key = none := by
  simp [bindKey, h, hk]

/-! ### connectivity -/

/-- Every leaf terminal is labelled with the root of the net it is attached to; so two terminals carry one net id
    iff the signals their instantiators connect them to are connected in the hierarchy. -/
theorem walk_labels_are_connectivity {mods : Nat → Option FMod} {fuel : Nat} {top : FMod} {nodes : List FNode}
    (wf : WFH mods top)
    (hw : walk mods fuel top [] (top.signals.map (fun s => (s, ([], s))) ++ top.ports.map (fun s => (s, ([], s)))) = some nodes)
    {n₁ n₂ : FNode} (h₁ : n₁ ∈ nodes) (h₂ : n₂ ∈ nodes) {c₁ c₂ : Name × NetId} (hc₁ : c₁ ∈ n₁.conns) (hc₂ : c₂ ∈ n₂.conns) :
    ∃ (π₁ π₂ : List Name) (m₁ m₂ : FMod) (i₁ i₂ : FInst) (s₁ s₂ : Name),
      At mods top π₁ m₁ ∧ i₁ ∈ m₁.insts ∧ n₁.path = π₁ ++ [i₁.name] ∧ (c₁.1, s₁) ∈ i₁.conns ∧
      At mods top π₂ m₂ ∧ i₂ ∈ m₂.insts ∧ n₂.path = π₂ ++ [i₂.name] ∧ (c₂.1, s₂) ∈ i₂.conns ∧
      (c₁.2 = c₂.2 ↔ Connected mods top (π₁, s₁) (π₂, s₂)) ∧
      (∀ q, c₁.2 = ([], q) ↔ Connected mods top (π₁, s₁) ([], q)) := by
  obtain ⟨π₁, m₁, i₁, k₁, hat₁, hi₁, _, hp₁, hl₁, _⟩ := walk_labels mods top fuel top [] _ nodes .root envOK_top hw n₁ h₁
  obtain ⟨π₂, m₂, i₂, k₂, hat₂, hi₂, _, hp₂, hl₂, _⟩ := walk_labels mods top fuel top [] _ nodes .root envOK_top hw n₂ h₂
  obtain ⟨s₁, hs₁, hr₁⟩ := hl₁ c₁.1 c₁.2 hc₁
  obtain ⟨s₂, hs₂, hr₂⟩ := hl₂ c₂.1 c₂.2 hc₂
  refine ⟨π₁, π₂, m₁, m₂, i₁, i₂, s₁, s₂, hat₁, hi₁, hp₁, hs₁, hat₂, hi₂, hp₂, hs₂, ?_, ?_⟩
  · exact (connected_iff_same_root wf hr₁ hr₂).symm
  · intro q
    exact (connected_iff_same_root wf hr₁ (Root.top (s := q))).symm

/-- `flatten` connects two leaf terminals, or a terminal and a port bit, if and only if they are connected in `m`. -/
theorem flatten_preserves_connectivity {mods : Nat → Option FMod} {fuel : Nat} {top : FMod} {F : Flat}
    (wf : WFH mods top) (h : flatten mods fuel top = .ok F) :
    ∃ nodes, walk mods fuel top [] (top.signals.map (fun s => (s, ([], s))) ++ top.ports.map (fun s => (s, ([], s)))) = some nodes ∧
      F.insts = nodes.map (fun n => { name := leafName n, kind := n.kind, conns := n.conns.map fun c => (c.1, netName c.2) }) ∧
      ∀ n₁ ∈ nodes, ∀ n₂ ∈ nodes, ∀ c₁ ∈ n₁.conns, ∀ c₂ ∈ n₂.conns,
        ∃ (π₁ π₂ : List Name) (i₁ i₂ : FInst) (s₁ s₂ : Name),
          n₁.path = π₁ ++ [i₁.name] ∧ (c₁.1, s₁) ∈ i₁.conns ∧ n₂.path = π₂ ++ [i₂.name] ∧ (c₂.1, s₂) ∈ i₂.conns ∧
          -- same signal of the flat module  ⇔  connected in the hierarchy
          (netName c₁.2 = netName c₂.2 ↔ Connected mods top (π₁, s₁) (π₂, s₂)) ∧
          -- on port q of the flat module  ⇔  connected to port q of the top module
          (∀ q ∈ top.ports, netName c₁.2 = q ↔ Connected mods top (π₁, s₁) ([], q)) := by
  obtain ⟨nodes, hw, hnc, _, _, _, hi⟩ := flatten_ok h
  refine ⟨nodes, hw, hi, ?_⟩
  intro n₁ h₁ n₂ h₂ c₁ hc₁ c₂ hc₂
  obtain ⟨π₁, π₂, m₁, m₂, i₁, i₂, s₁, s₂, _, _, hp₁, hs₁, _, _, hp₂, hs₂, hiff, hport⟩ :=
    walk_labels_are_connectivity wf hw h₁ h₂ hc₁ hc₂
  refine ⟨π₁, π₂, i₁, i₂, s₁, s₂, hp₁, hs₁, hp₂, hs₂, ?_, ?_⟩
  · rw [← hiff]
    exact ⟨fun e => netClash_false hnc (mem_usedIds_of_conn h₁ hc₁) (mem_usedIds_of_conn h₂ hc₂) e, fun e => by rw [e]⟩
  · intro q hq
    rw [← hport q]
    constructor
    · intro e
      have : netName c₁.2 = netName (([], q) : NetId) := by rw [e]; simp [netName, joinNames]
      exact netClash_false hnc (mem_usedIds_of_conn h₁ hc₁) (mem_usedIds_of_port hq) this
    · intro e; rw [e]; simp [netName, joinNames]

/-! Non-vacuity: a two-level hierarchy flattens; the same with a top-level signal named like the inner net is refused. -/
def inner : FMod := ⟨['I'], [['a'], ['b']], [['x']],
  [⟨['r', '1'], .leaf "R", [(['p'], ['a']), (['n'], ['x'])]⟩, ⟨['r', '2'], .leaf "R", [(['p'], ['x']), (['n'], ['b'])]⟩]⟩
def topOk : FMod := ⟨['T'], [['p'], ['q']], [], [⟨['i', '1'], .mod 0, [(['a'], ['p']), (['b'], ['q'])]⟩]⟩
def topClash : FMod := ⟨['T'], [['p'], ['q']], [['i', '1', ':', 'x']],
  topOk.insts ++ [⟨['r'], .leaf "R", [(['p'], ['i', '1', ':', 'x']), (['n'], ['q'])]⟩]⟩
def tbl : Nat → Option FMod := fun k => if k = 0 then some inner else none

example : (match flatten tbl 3 topOk with | .ok F => F.insts.map (·.name) == [['i', '1', ':', 'r', '1'], ['i', '1', ':', 'r', '2']] && F.signals == [['i', '1', ':', 'x']] | _ => false) = true := by
  decide +kernel
example : (match flatten tbl 3 topClash with | .error .collision => true | _ => false) = true := by decide +kernel
/-- a top-level signal named like the joined path of a leaf instance -/
def topCross : FMod := ⟨['T'], [['p'], ['q']], [['i', '1', ':', 'r', '1']],
  [⟨['r'], .leaf "R", [(['p'], ['i', '1', ':', 'r', '1']), (['n'], ['q'])]⟩] ++ topOk.insts⟩
example : (match flatten tbl 3 topCross with | .error .collision => true | _ => false) = true := by decide +kernel

end Hdl21.Props.C16
