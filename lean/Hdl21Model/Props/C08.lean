/-
# C08 — A failed elaboration or generator call does not poison later ones

Over the abstract runner (Runner.lean), where a pass may raise at any (pass, module) point, for any
module DAG, any pass behaviour and any history of earlier calls:

* `failure_is_recorded`      a module on which a pass raised is marked failed, and every failed module
                             lacks the `done` mark of the pass that failed on it;
* `failed_module_blocks`     any later visit — of any pass class, under any old or new parent — that
                             reaches a failed module through a not-yet-completed path does not complete:
                             such a module is never part of a returned (exported) design;
* `failed_is_forever`        nothing un-fails a module or rewrites it again (whether or not the designer
                             edits other things);
* `unrelated_unaffected`     modules that are not below the visited top keep their state, marks and
                             failure flags whatever happens — a failure never leaks sideways;
* `retry_fails_again`        repeating the failed call fails again (the code re-raises the stored
                             original exception object; the model has one failure value).
* `generator_failure_leaves_no_trace`, `generator_retry_runs_again`, `generator_success_is_cached`,
  `generator_pending_untouched`  (GenRun.lean) a generator call whose body raised changes nothing in the cache — no
                             entry, no pending mark — so the very same call can be run again and, if its body now
                             returns, is cached from then on; calls never leave a pending mark behind.
* `nested_calls_leave_no_mark`, `nested_never_spuriously_circular`, `nested_failed_call_runs_again`,
  `nested_success_is_cached`   the same for generators that call generators (event trees `Ev`: every body makes nested
                             calls, catches their failures or lets them propagate, then returns or raises): after any
                             history nothing is pending; "circular dependency" is reported only for an event tree that
                             really nests a call inside the same call; a call that did not return is run again; one that
                             did is cached for good.
The exception *texts* and the real cache are decided
by the correspondence (harness/props/c08.py): every (pass position, module) failure point, injected
three ways, followed by every continuation, against a fresh process.
-/
import Hdl21Model.Lemmas.Runner
import Hdl21Model.Props.C07
import Hdl21Model.GenRun
import Hdl21Model.Lemmas.GenRun
namespace Hdl21.Props.C08
open Hdl21.Runner Hdl21.Props.C07

variable {S : Type}

/-- Whenever a visit leaves a module newly failed, that module is not `done` for the visiting pass. -/
theorem failure_is_recorded (sys : Sys S) (hdag : ∀ m c, c ∈ sys.children m → c < m) (k fuel : Nat)
    (st : RState S) (m x : Nat) (h1 : (visit sys k fuel st m).1.failed x = true) (h0 : st.failed x = false) :
    (visit sys k fuel st m).1.done k x = false :=
  (visit_spec sys hdag k fuel st m).1.new_failed x h1 h0

/-- Visiting a failed module itself never completes and changes nothing. -/
theorem failed_module_raises (sys : Sys S) (j fuel : Nat) (st : RState S) (m : Nat) (hf : st.failed m = true) :
    visit sys j (fuel + 1) st m = (st, false) := by
  rw [visit]; simp [hf]

/-- A visit that would have to pass through a failed, not-yet-done module does not complete. -/
theorem failed_module_blocks (sys : Sys S) (hdag : ∀ m c, c ∈ sys.children m → c < m) (k fuel : Nat)
    (st : RState S) (p x : Nat) (hc : DoneClosed sys k st) (hr : Reach sys p x)
    (hf : st.failed x = true) (hnd : st.done k x = false) : (visit sys k fuel st p).2 = false := by
  cases hres : (visit sys k fuel st p).2 with
  | false => rfl
  | true =>
    have hall := visit_reaches_all sys hdag k fuel st p hc hres x hr
    have fr := ((visit_spec sys hdag k fuel st p).1.failed_frozen x hf).2 k
    rw [fr, hnd] at hall; cases hall

/-- Failure is permanent, and a failed module is never rewritten or marked again. -/
theorem failed_is_forever (sys : Sys S) (hdag : ∀ m c, c ∈ sys.children m → c < m) (j fuel : Nat)
    (st : RState S) (m x : Nat) (hf : st.failed x = true) :
    (visit sys j fuel st m).1.failed x = true ∧ (visit sys j fuel st m).1.σ x = st.σ x ∧
    ∀ i, (visit sys j fuel st m).1.done i x = st.done i x := by
  have rel := (visit_spec sys hdag j fuel st m).1
  exact ⟨rel.failed_mono x hf, (rel.failed_frozen x hf).1, (rel.failed_frozen x hf).2⟩

/-- Modules that are not below the visited one are untouched, whether the visit fails or not. -/
theorem unrelated_unaffected (sys : Sys S) (hdag : ∀ m c, c ∈ sys.children m → c < m) (k fuel : Nat)
    (st : RState S) (m x : Nat) (hx : m < x) :
    (visit sys k fuel st m).1.σ x = st.σ x ∧ (∀ j, (visit sys k fuel st m).1.done j x = st.done j x) ∧
    (visit sys k fuel st m).1.failed x = st.failed x := only_below_touched sys hdag k fuel st m x hx

/-- Retrying after a failure fails again: the failed module still blocks the pass that failed on it. -/
theorem retry_fails_again (sys : Sys S) (hdag : ∀ m c, c ∈ sys.children m → c < m) (k fuel fuel' : Nat)
    (st : RState S) (p x : Nat) (hc : DoneClosed sys k st) (hr : Reach sys p x)
    (h0 : st.failed x = false) (h1 : (visit sys k fuel st p).1.failed x = true) :
    (visit sys k fuel' (visit sys k fuel st p).1 p).2 = false := by
  have rel := (visit_spec sys hdag k fuel st p).1
  exact failed_module_blocks sys hdag k fuel' _ p x (rel.closed hc) hr h1 (rel.new_failed x h1 h0)

/-! ## generator calls -/
section Generators
open Hdl21.GenRun

/-- A generator call that fails leaves the cache exactly as it was. -/
theorem generator_failure_leaves_no_trace (s : Cache) (c : Call) (body : Outcome) (h : (run s c body).2 = .failed) :
    (run s c body).1 = s := by
  unfold run at h ⊢
  cases hl : lookup c s.done with
  | some m => simp [hl] at h
  | none =>
    simp only [hl] at h ⊢
    split
    · rfl
    · cases body with
      | raises => rfl
      | ok m => rename_i hp; simp [hp] at h

/-- … so the same call can be run again: if its body returns this time, that module is the result, now and later. -/
theorem generator_retry_runs_again (s : Cache) (c : Call) (m : Mod) (hn : lookup c s.done = none) (hp : c ∉ s.pending) :
    let s₁ := (run s c .raises).1
    (run s₁ c (.ok m)).2 = .module m ∧ ∀ body, (run (run s₁ c (.ok m)).1 c body).2 = .module m := by
  have h1 : (run s c .raises).1 = s := by simp [run, hn, hp]
  simp only [h1]
  constructor
  · simp [run, hn, hp]
  · intro body
    simp [run, hn, hp, lookup]

/-- A call that returned is answered from the cache from then on, whatever the body would do. -/
theorem generator_success_is_cached (s : Cache) (c : Call) (m : Mod) (h : lookup c s.done = some m) (body : Outcome) :
    run s c body = (s, .module m) := by
  simp [run, h]

/-- No call leaves a pending mark or a stack entry behind. -/
theorem generator_pending_untouched (s : Cache) (calls : List (Call × Outcome)) :
    (runAll s calls).pending = s.pending ∧ (runAll s calls).stack = s.stack := by
  induction calls generalizing s with
  | nil => exact ⟨rfl, rfl⟩
  | cons co r ih =>
    obtain ⟨c, o⟩ := co
    simp only [runAll]
    have h1 : (run s c o).1.pending = s.pending ∧ (run s c o).1.stack = s.stack := by
      unfold run
      cases lookup c s.done with
      | some m => exact ⟨rfl, rfl⟩
      | none =>
        simp only
        split
        · exact ⟨rfl, rfl⟩
        · cases o <;> exact ⟨rfl, rfl⟩
    rw [(ih (run s c o).1).1, (ih (run s c o).1).2, h1.1, h1.2]
    exact ⟨rfl, rfl⟩

example : (runAll Cache.init [(7, .raises), (7, .ok 3), (7, .raises)]) = ⟨[(7, 3)], [], []⟩ := by decide

/-! ### generators that call generators (bodies that catch a nested failure, or let it propagate) -/

theorem runEvs_frame (s : Cache) (evs : List Ev) : (runEvs s evs).pending = s.pending ∧ (runEvs s evs).stack = s.stack := by
  induction evs generalizing s with
  | nil => exact ⟨rfl, rfl⟩
  | cons e r ih =>
    simp only [runEvs]
    exact ⟨(ih _).1.trans (runEv_frame s e).1, (ih _).2.trans (runEv_frame s e).2⟩

/-- Whatever calls were made before — failing at any depth, caught or not — nothing is left pending and the call stack is empty. -/
theorem nested_calls_leave_no_mark (evs : List Ev) :
    (runEvs Cache.init evs).pending = [] ∧ (runEvs Cache.init evs).stack = [] :=
  runEvs_frame Cache.init evs

/-- … so a later call is answered "circular dependency" only when it asks for it: when its own bodies, this time, call a
    generator from inside a call with the same parameters.  A repeated call never gets that answer because of what failed before. -/
theorem nested_never_spuriously_circular (evs : List Ev) (e : Ev)
    (h : (runEv (runEvs Cache.init evs) e).2 = .circular) : cyc [] e = true := by
  have := runEv_circular (runEvs Cache.init evs) e h
  rwa [(nested_calls_leave_no_mark evs).1] at this

/-- A call that did not return a module — its own body failed, or a failure below it that it did not catch — is not cached,
    and is simply run again. -/
theorem nested_failed_call_runs_again (s : Cache) (c : Call) (nested : List Ev) (catches : Bool) (out : Outcome)
    (hp : c ∉ s.pending) (h : ∀ m, (runEv s (.call c nested catches out)).2 ≠ .module m) (catches' : Bool) (m : Mod) :
    (runEv (runEv s (.call c nested catches out)).1 (.call c [] catches' (.ok m))).2 = .module m := by
  have hfr := runEv_frame s (.call c nested catches out)
  have hnone : lookup c (runEv s (.call c nested catches out)).1.done = none := by
    unfold runEv at h ⊢
    cases hl : lookup c s.done with
    | some m' => simp [hl] at h
    | none =>
      simp only [hl, hp, ↓reduceIte] at h ⊢
      have ih := runBody_pending_done { s with pending := c :: s.pending, stack := c :: s.stack } c
        (List.mem_cons_self ..) catches nested
      simp only [hl] at ih
      split
      · simpa using ih
      · rename_i hr
        simp only [hr] at h
        cases out with
        | raises => simpa using ih
        | ok m' => exact absurd rfl (h m')
  have hp' : c ∉ (runEv s (.call c nested catches out)).1.pending := by rw [hfr.1]; exact hp
  generalize (runEv s (.call c nested catches out)).1 = s' at hnone hp'
  unfold runEv
  simp [hnone, hp', runBody]

/-- A call that returned is answered from the cache for good, whatever happens in between. -/
theorem nested_success_is_cached (s : Cache) (c : Call) (m : Mod) (h : lookup c s.done = some m) (between : List Ev)
    (nested : List Ev) (catches : Bool) (out : Outcome) :
    (runEv (runEvs s between) (.call c nested catches out)).2 = .module m := by
  have hm : lookup c (runEvs s between).done = some m := by
    induction between generalizing s with
    | nil => exact h
    | cons e r ih => exact ih _ (runEv_done_mono s c m h e)
  unfold runEv
  simp [hm]

/-- the scenario of a repair that forgets the mark only at the outermost level: Outer catches Inner(bad)'s failure and returns;
    Inner(bad) called again fails as before (not "circular"), and works once its body does; a genuine cycle is reported as one -/
example :
    let inner := Ev.call 1 [] false .raises
    let s := runEvs Cache.init [.call 0 [inner] true (.ok 10)]
    s = ⟨[(0, 10)], [], []⟩ ∧ (runEv s inner).2 = .failed ∧ (runEv s (.call 1 [] false (.ok 11))).2 = .module 11 ∧
    (runEv s (.call 2 [.call 3 [.call 2 [] false (.ok 5)] false (.ok 6)] true (.ok 7))).2 = .module 7 ∧
    (runEv s (.call 2 [.call 3 [.call 2 [] false (.ok 5)] false (.ok 6)] false (.ok 7))).2 = .circular := by decide
end Generators

/-! ## Repair and retry: what the runner does *not* guarantee (the recorded finding, exhibited in the model)

The designer may replace an instance of a module that is not elaborated yet: the model of that edit is another `children`
function. The `done` sets do not know about it. -/

/-- **A parent a pass has completed on hides a new child from that pass.** After the edit (`sys'` instead of `sys`: the module
    `m` now instantiates `c`), visiting `m` with pass `k` — done on `m`, not on `c` — completes at once and leaves `c`
    unvisited: whatever pass `k` would have established about `c` (its references resolved, its bundles flattened) is missing when
    the later passes, not yet done on `m`, descend into it. This is `revisit_is_noop` read as a defect; the implementation shows it
    as the known finding `repair:<fault>/<repair>` (a spurious refusal, never a wrong package). -/
theorem done_parent_hides_new_child (sys' : Sys S) (k fuel : Nat) (st : RState S) (m c : Nat)
    (hd : st.done k m = true) (hf : st.failed m = false) (_hnew : c ∈ sys'.children m) (hc : st.done k c = false) :
    (visit sys' k (fuel + 1) st m).2 = true ∧ (visit sys' k (fuel + 1) st m).1.done k c = false := by
  rw [revisit_is_noop sys' k fuel st m hd hf]
  exact ⟨rfl, hc⟩

/-- The witness, run: modules 0 (bad: pass 1 raises on it), 1 (the parent), 2 (healthy). First call: pass 0 completes on 0 and 1,
    pass 1 fails on 0. The designer makes 1 instantiate 2 instead of 0. Second call: pass 0 is done on the parent and never runs
    on module 2; pass 1 then meets module 2 in a state pass 0 has not prepared (here: it raises on every module of state 0). -/
example :
    let sys  : Sys Nat := ⟨fun m => if m = 1 then [0] else [], fun k σ m => if k = 0 then some 1 else if σ m = 0 ∨ m = 0 then none else some 2⟩
    let sys' : Sys Nat := { sys with children := fun m => if m = 1 then [2] else [] }
    let init : RState Nat := ⟨fun _ => 0, fun _ _ => false, fun _ => false⟩
    let st1 := elaborate sys 2 5 [1] init
    let st2 := elaborate sys' 2 5 [1] st1.1
    st1.2 = false ∧ st1.1.done 0 1 = true ∧ st1.1.failed 1 = false ∧       -- the first call fails below the parent, which pass 0 completed on
    st2.2 = false ∧ st2.1.done 0 2 = false ∧ st2.1.failed 2 = true ∧        -- the repaired design is refused: pass 0 never saw module 2
    (elaborate sys' 2 5 [1] init).2 = true := by                            -- which a fresh process elaborates
  decide

end Hdl21.Props.C08