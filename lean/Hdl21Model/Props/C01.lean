/-
# C01 — Elaboration and export preserve the connectivity the designer wrote

What is proved here (fragment **F1**: buses, arbitrarily nested slices and concatenations):
for every connection, of any width and nesting, the bits that the VLSIR netlisters read
(positionally, most-significant first) in the connection target that `SliceResolver` + the exporter
produce are exactly — same bits, same order, bit `i` to bit `i` — the bits the designer's expression
denotes.  This covers `_list_slice/_resolve_slice/_resolve_concat`, `export_slice`'s inclusive top and
`export_concat`'s part order.

Fragment **F2** (PortRefs.lean: port references and no-connects over whole signals): `portrefs_preserve_connectivity`
— when `ResolvePortRefs` is done, two ports are on one signal iff the connections the designer wrote (port to signal,
port to port reference — chains, fans, cycles, with or without a declared signal in the group) join them; a port is on a
declared signal iff it is wired to it; a no-connected port is on a signal nothing else is on; the signals invented for
groups without a declared signal are distinct from every declared one.  `follow`'s depth-first group discovery is
proved to compute connected components (`Lemmas/Dfs.lean`).

What is **not** proved but decided by the correspondence with the declarative `Sem.src` as oracle
(Design.lean; evaluated by the driver on every generated design and compared with `Sem.pkg` of the
real package and with the netlist text): references inside slices / concatenations, arrays, bundles,
anonymous bundles, pairs and the composition across hierarchy (rest of F2, F3 of DESIGN.md §6).
-/
import Hdl21Model.Lemmas.Resolve
import Hdl21Model.Lemmas.Export
import Hdl21Model.Lemmas.PortRefs
import Hdl21Model.Props.C03
import Hdl21Model.Lemmas.Rename
import Hdl21Model.Lemmas.Nets
import Hdl21Model.Lemmas.InstBundle
import Hdl21Model.Lemmas.ArrayPass
import Hdl21Model.Lemmas.BundleConn
import Hdl21Model.Lemmas.ModulePipe
import Hdl21Model.Props.C06
namespace Hdl21.Props.C01
open Hdl21 Hdl21.Pkg

theorem sigsOK_leafPred (ws : List (String × Nat)) : LeafPred (fun c => sigsOK ws c = true) := by
  constructor
  · intro p idx; rw [sigsOK]
  · intro ps
    rw [sigsOK]
    induction ps with
    | nil => simp [sigsOKList]
    | cons p ps ih => simp [sigsOKList, ih]

/-- **F1**: resolve, export, read back = the designer's bits. -/
theorem connection_preserved (ws : List (String × Nat)) (fuel : Nat) (c r : SConn) (t : PTarget) (bs : List Bit)
    (hok : sigsOK ws c = true)
    (hr : resolveSliceable fuel c = .ok r) (he : exportTarget r = .ok t) (hd : c.denote = .ok bs) :
    readTarget ws t = bs.map bitNat := by
  have hok' : sigsOK ws r = true := (resolve_keeps _ (sigsOK_leafPred ws) fuel).2.2.1 c r hr hok
  exact export_read ws r t bs hok' he (resolve_preserves_bits_aux fuel c r bs hr hd)
where resolve_preserves_bits_aux (fuel : Nat) (c r : SConn) (bs : List Bit)
    (h : resolveSliceable fuel c = .ok r) (hd : c.denote = .ok bs) : r.denote = .ok bs :=
  (resolve_sound fuel).2.2.1 c r bs h hd

/-- Bit `i` of the connection reaches bit `i` of the port: the reading has the connection's width
    and its `i`-th element is the `i`-th denoted bit. -/
theorem bit_i_to_bit_i (ws : List (String × Nat)) (fuel : Nat) (c r : SConn) (t : PTarget) (bs : List Bit)
    (hok : sigsOK ws c = true)
    (hr : resolveSliceable fuel c = .ok r) (he : exportTarget r = .ok t) (hd : c.denote = .ok bs) (i : Nat) :
    (readTarget ws t)[i]? = (bs[i]?).map bitNat := by
  rw [connection_preserved ws fuel c r t bs hok hr he hd, List.getElem?_map]

/-- Concatenation parts are exported most-significant first: reading `Concat(a, b)` gives `a`'s bits lowest. -/
theorem concat_order (ws : List (String × Nat)) (a b : SConn) (ta tb : PTarget)
    (ha : exportTarget a = .ok ta) (hb : exportTarget b = .ok tb) :
    exportTarget (.concat [a, b]) = .ok (.concat [tb, ta]) ∧
    readTarget ws (.concat [tb, ta]) = readTarget ws ta ++ readTarget ws tb := by
  constructor
  · rw [exportTarget]; simp only [bind, Except.bind]
    rw [exportParts]; simp only [bind, Except.bind, ha]
    rw [exportParts]; simp only [bind, Except.bind, hb]
    rw [exportParts]; simp
  · rw [readTarget, readParts, readParts, readParts]; simp

/-! ### Non-vacuity: a reversed slice of a concatenation -/
example :
    let c : SConn := .slice (.concat [.sig "a" 2, .sig "b" 3]) (.range none none (some (-2)))
    (match resolveSliceable 12 c with
     | .ok r => (match exportTarget r with
                 | .ok t => some (readTarget [("a", 2), ("b", 3)] t)
                 | .error _ => none)
     | .error _ => none) = some [("b", 2), ("b", 0), ("a", 0)] := by decide +kernel

/-! ## Arrays: per-element wiring (`ArrayFlattener`: element `k` gets `conn[k*w : (k+1)*w]`) -/

/-- Element `k` of an instance array whose port of width `w` is wired per element to a connection of `n * w` bits
    receives exactly the bits `k*w … (k+1)*w - 1` of that connection, in order: bit `j` of the element's port is bit
    `k*w + j` of the connection. -/
theorem array_element_bits (c : SConn) (bs : List Bit) (n w k : Nat) (hd : c.denote = .ok bs) (hlen : bs.length = n * w)
    (hk : k < n) (hw : 0 < w) :
    ∃ es, (SConn.slice c (.range (some ((k * w : Nat) : Int)) (some (((k + 1) * w : Nat) : Int)) none)).denote = .ok es ∧
      es.length = w ∧ ∀ j, j < w → es[j]? = bs[k * w + j]? := by
  have hab : k * w < (k + 1) * w := by rw [Nat.succ_mul]; omega
  have hb : (k + 1) * w ≤ bs.length := by rw [hlen]; exact Nat.mul_le_mul_right w hk
  have hpy := Hdl21.Props.C03.pyBits_simple bs.length (k * w) ((k + 1) * w) hab hb
  have hsub : (k + 1) * w - k * w = w := by rw [Nat.succ_mul]; omega
  rw [hsub] at hpy
  have hne : (List.range w).map (fun (j : Nat) => ((k * w : Nat) : Int) + j) ≠ [] := by
    cases w with
    | zero => omega
    | succ w' => simp [List.range_succ]
  obtain ⟨s, hs, hbits, _⟩ := Hdl21.Props.C03.range_unit_accept bs.length _ _ none (Or.inl rfl) _ hpy hne
  have hin : ∀ x ∈ s.bits, 0 ≤ x ∧ x < bs.length := by
    intro x hx
    rw [hbits] at hx
    obtain ⟨j, hj, rfl⟩ := List.mem_map.mp hx
    have := List.mem_range.mp hj
    constructor <;> omega
  obtain ⟨es, hes⟩ := pick_ok bs s.bits hin
  refine ⟨es, ?_, ?_, ?_⟩
  · simp only [SConn.denote, hd]
    show (do let inner ← sliceInner bs.length _; pick bs inner.bits) = _
    rw [hs]
    exact hes
  · have := pick_length bs s.bits es hes
    rw [this, hbits]; simp
  · intro j hj
    have hkj : s.bits[j]? = some (((k * w : Nat) : Int) + (j : Nat)) := by
      rw [hbits, List.getElem?_map, List.getElem?_range hj]; rfl
    obtain ⟨_, h2, _⟩ := pick_getElem bs s.bits es hes j _ hkj
    rw [h2]
    congr 1

/-! ## F2: port references and no-connects -/
section F2
open Hdl21.PortRefs Hdl21.Dfs

/-- **F2.** After `ResolvePortRefs` (every port of the module resolved to the signal `r p`):
    two ports share a signal iff the designer's connections join them; a port is on a declared signal iff it is wired to
    it; a port connected to a no-connect ends on a signal that carries nothing else. -/
theorem portrefs_preserve_connectivity (m : Mod) (wf : WF m) (r : Port → Nat)
    (hres : ∀ p ∈ m.ports, resolvePort m p = some (r p)) :
    (∀ p₁ ∈ m.ports, ∀ p₂ ∈ m.ports, (r p₁ = r p₂ ↔ Wired m (.port p₁) (.port p₂))) ∧
    (∀ p ∈ m.ports, ∀ s, s < m.nsig → (r p = s ↔ Wired m (.port p) (.sig s))) ∧
    (∀ p ∈ m.ports, ∀ id, look m p = some (.nc id) → ∀ p₂ ∈ m.ports, r p₂ = r p → p₂ = p) := by
  have hsome : ∀ p ∈ m.ports, (resolvePort m p).isSome := fun p hp => by rw [hres p hp]; rfl
  have declared_lt : ∀ {x : Port} {v : Nat}, look m x = some (.sig v) → v < m.nsig :=
    fun hl => wf.sigIn _ (look_mem hl) _ rfl
  refine ⟨?_, ?_, ?_⟩
  · intro p₁ h₁ p₂ h₂
    constructor
    · intro heq
      have b₁ := resolve_basis (hres p₁ h₁)
      have b₂ := resolve_basis (hres p₂ h₂)
      rw [← heq] at b₂
      cases b₁ with
      | declared x₁ hr₁ hl₁ =>
        cases b₂ with
        | declared x₂ hr₂ hl₂ =>
          exact .trans (reach_wired wf hr₁) (.trans (.edge (.toSig hl₁)) (.trans (.symm (.edge (.toSig hl₂))) (.symm (reach_wired wf hr₂))))
        | invented idx z hv _ _ => have := declared_lt hl₁; omega
      | invented idx₁ z₁ hv₁ hz₁ hr₁ =>
        cases b₂ with
        | declared x₂ _ hl₂ => have := declared_lt hl₂; omega
        | invented idx₂ z₂ hv₂ hz₂ hr₂ =>
          have : idx₁ = idx₂ := by omega
          subst this
          rw [hz₁] at hz₂; injection hz₂ with hz₂; subst hz₂
          exact .trans (reach_wired wf hr₁) (.symm (reach_wired wf hr₂))
    · intro hw
      have := wired_label wf hsome hw
      simp only [label, hres p₁ h₁, hres p₂ h₂] at this
      injection this
  · intro p hp s hs
    constructor
    · intro heq
      have b := resolve_basis (hres p hp)
      rw [heq] at b
      cases b with
      | declared x hr hl => exact .trans (reach_wired wf hr) (.edge (.toSig hl))
      | invented idx z hv _ _ => omega
    · intro hw
      have := wired_label wf hsome hw
      simp only [label, hres p hp] at this
      injection this
  · intro p hp id hl p₂ hp₂ heq
    have halone := resolve_nc_alone hl (hres p hp)
    have b := resolve_basis (hres p hp)
    have b₂ := resolve_basis (hres p₂ hp₂)
    rw [heq] at b₂
    cases b with
    | declared x hr hlx =>
      -- the only port of the group is `p`, which is on a no-connect, not on a signal
      have := halone x hr; subst this
      rw [hl] at hlx; cases hlx
    | invented idx z hv hz hr =>
      have hzp := halone z hr; subst hzp
      cases b₂ with
      | declared x₂ _ hl₂ => have := declared_lt hl₂; omega
      | invented idx₂ z₂ hv₂ hz₂ hr₂ =>
        have : idx = idx₂ := by omega
        subst this
        rw [hz] at hz₂; injection hz₂ with hz₂; subst hz₂
        exact halone p₂ (reach_symm wf hr₂)

/-- The signals invented for groups without a declared signal are none of the designer's. -/
theorem invented_signals_are_fresh (m : Mod) (p : Port) (v : Nat) (h : resolvePort m p = some v) :
    v < m.nsig → ∃ x, Reach (nbrs m) p x ∧ look m x = some (.sig v) := by
  intro hv
  cases resolve_basis h with
  | declared x hr hl => exact ⟨x, hr, hl⟩
  | invented idx z hv' _ _ => omega

/-! Non-vacuity: `i1.a = i0.x`, `i2.b = i0.x`, `i0.x` left to the references; `i3.c = s0`; `i4.d = NoConn()`. -/
def exMod : Mod := ⟨[(0, 0), (1, 0), (2, 0), (3, 0), (4, 0)],
  [((1, 0), .pref (0, 0)), ((2, 0), .pref (0, 0)), ((3, 0), .sig 0), ((4, 0), .nc 0)], 1⟩
example : exMod.ports.map (resolvePort exMod) = [some 1, some 1, some 1, some 0, some 5] := by decide +kernel
end F2

/-! ## F2, continued: references inside slices and concatenations

A connection may *contain* references — `Concat(other.q, sig[0])`, `other.q[1:3]`.  Such a reference stands for the whole
port `other.q`; once that port's group has its signal (F2 above), `update_ref_deps` puts the signal in the reference's
place.  In the model the written connection is an `SConn` in which a reference is a pseudo-signal of the port's width, and
the elaborated connection is its `rename` under `ρ` = "pseudo-signal of `q` ↦ the signal `q` resolved to, signals ↦ themselves". -/

/-- **Bit `i` of the elaborated connection is bit `i` of the written one**, with every bit of a referenced port replaced by the
    same bit of the signal that port was resolved to, and every bit of a declared signal left as it is: slicing and
    concatenating commute with resolving the references inside. -/
theorem references_inside_compounds (ρ : String → String) (c : SConn) (bs : List Bit) (h : c.denote = .ok bs) :
    (c.rename ρ).denote = .ok (bs.map (renameBit ρ)) ∧ (bs.map (renameBit ρ)).length = bs.length ∧
    ∀ i : Nat, (bs.map (renameBit ρ))[i]? = (bs[i]?).map (renameBit ρ) := by
  refine ⟨by rw [denote_rename, h], by simp, fun i => by simp⟩

/-- … and a connection the designer could not have written (bad index, empty selection) stays refused. -/
theorem references_inside_compounds_refused (ρ : String → String) (c : SConn) (e : Err) (h : c.denote = .error e) :
    (c.rename ρ).denote = .error e := by
  rw [denote_rename, h]

/-- `Concat(&q[1:3], s[0])` with `q` (3 bits) resolved to the implicit signal `i_q`: the port gets `i_q[1], i_q[2], s[0]`. -/
example :
    ((SConn.concat [.slice (.sig "&q" 3) (.range (some 1) (some 3) none), .slice (.sig "s" 2) (.int 0)]).rename
      (fun n => if n = "&q" then "i_q" else n)).denote.toOption = some [("i_q", 1), ("i_q", 2), ("s", 0)] := by decide

/-! ## the oracle: the net solver's union-find

Both readings of a design — `Sem.src` of what was written, `Sem.pkg` of the exported package — are computed by the same naive
solver (Nets.lean), whose only non-trivial step is merging classes of atoms. -/
section Oracle
open Hdl21.Nets

/-- `join cs a b` is union: over pairwise disjoint classes, two atoms are together afterwards iff they were together before
    (`a` and `b` each being given a class of their own if they had none), or one was with `a` and the other with `b`. -/
theorem solver_join_is_union (cs : List (List Atom)) (a b : Atom) (hd : Disj cs) :
    Disj (join cs a b) ∧
    ∀ x y, Same (join cs a b) x y ↔
      (Same (touch (touch cs a) b) x y ∨ (Same (touch (touch cs a) b) x a ∧ Same (touch (touch cs a) b) b y) ∨
       (Same (touch (touch cs a) b) x b ∧ Same (touch (touch cs a) b) a y)) :=
  join_spec cs a b hd

/-- `joinAll cs l` (all port bits of one child net glued onto the parent's atoms): everything of `l` ends in one class, what was
    together stays together, and nothing is identified beyond the equivalence generated by the old classes and the list. -/
theorem solver_joinAll_sound_and_complete (l : List Atom) (cs : List (List Atom)) (hd : Disj cs) :
    Disj (joinAll cs l) ∧ (∀ x y, Same cs x y → Same (joinAll cs l) x y) ∧
    (∀ x ∈ l, ∀ y ∈ l, Same (joinAll cs l) x y) ∧ (∀ x y, Same (joinAll cs l) x y → Gen cs l x y) :=
  joinAll_spec l cs hd

example : (joinAll [[⟨"s:a", [], 0⟩], [⟨"s:b", [], 0⟩, ⟨"s:c", [], 0⟩]] [⟨"s:a", [], 0⟩, ⟨"s:c", [], 0⟩]).length = 1 := by decide
end Oracle

/-! ## instance bundles (`h.Pair` and other `InstanceBundleType`s) -/
section InstBundles
open Hdl21.InstBundle

/-- **What `InstBundleElabPass` makes of an instance bundle**: one instance per member of the bundle type, in member order, each
    with exactly the instance bundle's ports in their order; on every port the member's instance gets what `elemConn` says —
    its own member of a bundle instance of the very type, the field of its name of an anonymous bundle, a scalar connection
    as it is (the same for every member), a no-connect left to be resolved per instance. -/
theorem instbundle_expansion (ty : String) (nested : Bool) (ms : List String) (conns : List (String × IBConn))
    (r : List (String × List (String × ElemConn))) (h : expand ty nested ms conns = .ok r) (hnd : (conns.map (·.1)).Nodup) :
    nested = false ∧ r.map (·.1) = ms ∧
    ∀ m es, (m, es) ∈ r → es.map (·.1) = conns.map (·.1) ∧
      ∀ p c e, (p, c) ∈ conns → (p, e) ∈ es → elemConn ty ms m c = .ok e := by
  unfold expand at h
  cases nested with
  | true => simp at h
  | false =>
    simp only [Bool.false_eq_true, ↓reduceIte] at h
    obtain ⟨i1, i2⟩ := expandMembers_spec ty ms conns ms r h
    refine ⟨rfl, i1, fun m es hm => ?_⟩
    obtain ⟨j1, j2⟩ := elemConns_spec ty ms m conns es (i2 m es hm)
    exact ⟨j1, fun p c e hc he => j2 p c e hc he hnd⟩

/-- the four kinds of connection, spelled out -/
theorem instbundle_connection_kinds (ty : String) (ms : List String) (m : String) :
    (∀ c, elemConn ty ms m (.scalar c) = .ok (.conn c)) ∧
    (∀ b, elemConn ty ms m (.bundle ty b) = .ok (.member b m)) ∧
    (∀ fields c, (fields.any fun f => !ms.contains f.1) = false → lookupF m fields = some c →
        elemConn ty ms m (.anon fields) = .ok (.conn c)) ∧
    elemConn ty ms m .noconn = .ok .noconn := by
  refine ⟨fun _ => rfl, fun b => by simp [elemConn], fun fields c h1 h2 => ?_, rfl⟩
  show (if (fields.any fun f => !ms.contains f.1) = true then _ else _) = _
  rw [if_neg (by rw [h1]; exact Bool.false_ne_true), h2]

/-- … and what it refuses: nested bundle types, a bundle instance of another type, an anonymous bundle with a field the
    bundle type does not have (C02). -/
theorem instbundle_refusals (ty : String) (ms : List String) (conns : List (String × IBConn)) :
    (∃ e, expand ty true ms conns = .error e) ∧
    (∀ m ty' b, ty' ≠ ty → ∃ e, elemConn ty ms m (.bundle ty' b) = .error e) ∧
    (∀ m fields, (fields.any fun f => !ms.contains f.1) = true → ∃ e, elemConn ty ms m (.anon fields) = .error e) := by
  refine ⟨⟨"Invalid Instance Bundle with nested Bundles", by simp [expand]⟩,
    fun m ty' b hne => ⟨"Invalid Instance Bundle connection", by simp [elemConn, hne]⟩,
    fun m fields h => ⟨"has no members", ?_⟩⟩
  show (if (fields.any fun f => !ms.contains f.1) = true then _ else _) = _
  rw [if_pos h]

example : (expand "Diff" false ["p", "n"] [("a", .anon [("n", .sig "y" 1), ("p", .sig "x" 1)]), ("b", .scalar (.sig "v" 1))]).toOption.map
    (fun r => r.map fun me => (me.1, me.2.map (·.1))) = some [("p", ["a", "b"]), ("n", ["a", "b"])] := by decide
end InstBundles

/-! ## instance arrays (`n * M(…)(…)`), the pass as a whole -/
section Arrays
open Hdl21.ArrayPass

/-- **What `ArrayFlattener` makes of an instance array**: `n ≥ 1` instances, element `k` with exactly the array's ports in
    their order, and on port `p` what `elem … k p` says of the array's connection. -/
theorem array_expansion (ports : List (String × Port)) (n : Nat) (conns : List (String × AConn))
    (r : List (List (String × AElem))) (h : expand ports n conns = .ok r) :
    1 ≤ n ∧ r.length = n ∧
    ∀ k, k < n → ∃ es, r[k]? = some es ∧ es.length = conns.length ∧
      ∀ (i : Nat) p c, conns[i]? = some (p, c) → ∃ e, es[i]? = some (p, e) ∧ elem ports n k p c = .ok e := by
  unfold expand at h
  by_cases hn : n < 1
  · simp [hn] at h
  · simp only [hn, ↓reduceIte] at h
    obtain ⟨l1, l2⟩ := forall2_getElem ((elements_iff ports n conns _ r).mp h)
    simp only [List.length_range] at l1
    refine ⟨by omega, l1.symm, fun k hk => ?_⟩
    obtain ⟨es, e1, e2⟩ := l2 k k (by simp [hk])
    obtain ⟨m1, m2⟩ := forall2_getElem ((elemConns_iff ports n k conns es).mp e2)
    refine ⟨es, e1, m1.symm, fun i p c hc => ?_⟩
    obtain ⟨⟨p', e⟩, f1, f2, f3⟩ := m2 i (p, c) hc
    simp only at f2 f3
    subst f2
    exact ⟨e, f1, f3⟩

/-- the kinds of connection, spelled out: a bundle instance goes to every element as it is; a connection as wide as the port
    goes to every element as it is; one `n` times as wide is cut into `n` parts, element `k` getting `[k*w, (k+1)*w)`. -/
theorem array_connection_kinds (ports : List (String × Port)) (n k : Nat) (p : String) :
    (∀ b, elem ports n k p (.bundle b) = .ok (.bundle b)) ∧
    (∀ c w, lookupP p ports = some (.sig w) → c.width = .ok w → elem ports n k p (.sig c) = .ok (.whole c)) ∧
    (∀ c w, lookupP p ports = some (.sig w) → c.width = .ok (w * n) → w ≠ w * n →
        elem ports n k p (.sig c) = .ok (.part c (k * w) ((k + 1) * w))) := by
  refine ⟨fun _ => rfl, fun c w h1 h2 => ?_, fun c w h1 h2 h3 => ?_⟩
  · simp [elem, h1, h2]
  · simp [elem, h1, h2, h3]

/-- … and the pass accepts an array exactly when it has at least one element and every connection is a bundle instance or a
    Signal / Slice / Concat on a Signal port of the target whose width is the port's or `n` times the port's (C02). -/
theorem array_pass_accepts_iff (ports : List (String × Port)) (n : Nat) (conns : List (String × AConn)) :
    (∃ r, expand ports n conns = .ok r) ↔
      1 ≤ n ∧ ∀ pc ∈ conns, match pc.2 with
        | .bundle _ => True
        | .sig c => ∃ w cw, lookupP pc.1 ports = some (.sig w) ∧ c.width = .ok cw ∧ (w = cw ∨ w * n = cw)
        | _ => False := by
  have key : ∀ p c, accepted ports n p c ↔ (match c with
        | .bundle _ => True
        | .sig c => ∃ w cw, lookupP p ports = some (.sig w) ∧ c.width = .ok cw ∧ (w = cw ∨ w * n = cw)
        | _ => False) := by
    intro p c
    unfold accepted
    cases c with
    | bundle b => simp [elem]
    | portref => simp [elem]
    | other => simp [elem]
    | sig c =>
      simp only [elem]
      cases hp : lookupP p ports with
      | none => simp
      | some pt =>
        cases pt with
        | bundle => simp
        | sig w =>
          cases hw : c.width with
          | error x => simp
          | ok cw =>
            by_cases h1 : w = cw
            · simp [h1]
            · by_cases h2 : w * n = cw
              · simp [h1, h2]
              · simp [h1, h2]
  constructor
  · rintro ⟨r, h⟩
    obtain ⟨hn, _, hk⟩ := array_expansion ports n conns r h
    refine ⟨hn, fun pc hpc => ?_⟩
    obtain ⟨es, _, _, he⟩ := hk 0 (by omega)
    obtain ⟨i, hi⟩ := List.getElem?_of_mem hpc
    obtain ⟨e, _, h2⟩ := he i pc.1 pc.2 hi
    exact (key pc.1 pc.2).mp ⟨e, h2⟩
  · rintro ⟨hn, hall⟩
    unfold expand
    rw [if_neg (by omega)]
    exact elements_ok_of_accepted ports n conns (fun pc hpc => (key pc.1 pc.2).mpr (hall pc hpc)) _

/-- the part an element gets stands for exactly its `w` bits of the connection (`array_element_bits`), so that the `n` parts
    partition the connection: bit `i` of the connection is bit `i % w` of element `i / w`'s port and of no other. -/
theorem array_parts_partition (c : SConn) (bs : List Bit) (n w : Nat) (hd : c.denote = .ok bs) (hlen : bs.length = n * w)
    (hw : 0 < w) (i : Nat) (hi : i < n * w) :
    ∃ sc es, (AElem.part c ((i / w) * w) ((i / w + 1) * w)).conn = some sc ∧ sc.denote = .ok es ∧ es.length = w ∧
      es[i % w]? = bs[i]? := by
  have hk : i / w < n := by
    apply (Nat.div_lt_iff_lt_mul hw).mpr; exact hi
  obtain ⟨es, h1, h2, h3⟩ := array_element_bits c bs n w (i / w) hd hlen hk hw
  refine ⟨_, es, rfl, h1, h2, ?_⟩
  rw [h3 (i % w) (Nat.mod_lt _ hw)]
  congr 1
  rw [Nat.mul_comm]; exact Nat.div_add_mod i w

example : (expand [("d", .sig 2), ("ck", .sig 1)] 3 [("d", .sig (.sig "bus" 6)), ("ck", .sig (.sig "clk" 1))]).toOption.map
    (fun r => r.map fun es => es.map fun pe => match pe.2 with | .part _ lo hi => (pe.1, lo, hi) | _ => (pe.1, 0, 0)) =
    some [[("d", 0, 2), ("ck", 0, 0)], [("d", 2, 4), ("ck", 0, 0)], [("d", 4, 6), ("ck", 0, 0)]] := by decide
end Arrays

/-! ## bundle-valued ports: what `BundleFlattener` connects the flattened ports to -/
section BundleConnections
open Hdl21.Bundles Hdl21.BundleConn

/-- **Flattened ports are paired with members by path.** Whenever the re-connection of a bundle-valued port `port` answers, the
    instance has exactly one connection per leaf path `π` of the port's bundle type, in that order, on the flattened port
    `port_π`, and it is the scalar connectable the written connection holds at member path `π` — never one chosen by position. -/
theorem bundle_connection_pairs_by_path (nm : String → List String → String) (env : Env) (port : String) (portTree : BTree)
    (c : BConn) (cs : List (String × SConn)) (h : reconnect nm env port portTree c = .ok cs) :
    ∃ s, resolve nm env c = .ok s ∧
      cs.map (·.1) = ((flatten false false none portTree).map (·.path)).map (flatName port) ∧
      ∀ k (hk : k < ((flatten false false none portTree).map (·.path)).length),
        ∃ x, s.at ((flatten false false none portTree).map (·.path))[k] = some (.leaf x) ∧
          cs[k]? = some (flatName port ((flatten false false none portTree).map (·.path))[k], x) := by
  unfold reconnect at h
  cases hr : resolve nm env c with
  | error e => simp [hr] at h
  | ok s =>
    simp only [hr] at h
    obtain ⟨h1, h2⟩ := connect_spec port s _ cs h
    exact ⟨s, rfl, h1, h2⟩

theorem connect_eq_map (port : String) (s : Scope) (g : Flat → SConn) :
    ∀ fs : List Flat, (∀ f ∈ fs, s.at f.path = some (.leaf (g f))) →
      connect port (fs.map (·.path)) s = .ok (fs.map (fun f => (flatName port f.path, g f)))
  | [], _ => rfl
  | f :: rest, h => by
    simp only [List.map_cons, connect]
    rw [h f (by simp), connect_eq_map port s g rest (fun x hx => h x (by simp [hx]))]

/-- **A bundle instance of the port's own type** (member names distinct at every level of the definition) is connected member by
    member: the flattened port `port_π` ends on the signal the instance's member `π` was flattened to, `nm b π`, of the leaf's
    width — for every leaf path, whatever the depth and fan-out of the definition tree. -/
theorem bundle_instance_connection_memberwise (nm : String → List String → String) (env : Env) (port b : String) (t : BTree)
    (hb : lookupEnv b env = some t) (hwf : WFT t) :
    reconnect nm env port t (.inst b) =
      .ok ((flatten false false none t).map (fun f => (flatName port f.path, SConn.sig (nm b f.path) f.width))) := by
  unfold reconnect
  simp only [resolve, hb]
  exact connect_eq_map port _ (fun f => SConn.sig (nm b f.path) f.width) _
    (fun f hf => by simpa using scopeOf_at nm b t hwf [] false none f hf)

/-- **A reference to a sub-bundle** stands for that part of its root: member `π` of `root.p` is member `p ++ π` of `root`. -/
theorem subbundle_reference_is_relative (nm : String → List String → String) (env : Env) (root : String) (p : List String)
    (t : BTree) (s : Scope) (hb : lookupEnv root env = some t) (h : resolve nm env (.ref root p) = .ok s) (π : List String) :
    s.at π = (scopeOf nm root [] t).at (p ++ π) := by
  simp only [resolve, hb] at h
  cases ha : (scopeOf nm root [] t).at p with
  | none => simp [ha] at h
  | some s' =>
    simp only [ha, Except.ok.injEq] at h
    subst h
    exact (Scope.at_append _ p π s' ha).symm

/-- **A member of an anonymous bundle is found by its name**, wherever it stands among the fields, and whatever it is — a scalar
    connectable, a bundle instance, a reference, another anonymous bundle: member `f :: π` of the anonymous bundle is member `π` of
    its field `f`. -/
theorem anonymous_bundle_member_by_name (nm : String → List String → String) (env : Env) (fs : List (String × BConn)) (s : Scope)
    (h : resolve nm env (.anon fs) = .ok s) (f : String) (c : BConn) (hf : fs.find? (fun x => x.1 = f) = some (f, c))
    (π : List String) : ∃ sc, resolve nm env c = .ok sc ∧ s.at (f :: π) = sc.at π := by
  simp only [resolve] at h
  cases hr : resolveFields nm env fs with
  | error e => simp [hr] at h
  | ok ms =>
    simp only [hr, Except.ok.injEq] at h
    subst h
    obtain ⟨sc, hsc, hl⟩ := resolveFields_lookup nm env fs ms hr f c hf
    exact ⟨sc, hsc, by simp [Scope.at, hl]⟩

/-- **Refusals**: a leaf of the port's type for which the connection holds no scalar connectable (a missing member, or a whole
    sub-bundle where a signal is needed) makes the pass raise; so does a bundle instance the module does not have and a reference
    path its root does not have. Nothing is connected by position to make up for it. -/
theorem bundle_connection_refusals (nm : String → List String → String) (env : Env) (port : String) (portTree : BTree) :
    (∀ (c : BConn) (s : Scope) (π : List String), resolve nm env c = .ok s → π ∈ (flatten false false none portTree).map (·.path) →
        (∀ x, s.at π ≠ some (.leaf x)) → ∃ e, reconnect nm env port portTree c = .error e) ∧
    (∀ b, lookupEnv b env = none → ∃ e, reconnect nm env port portTree (.inst b) = .error e) ∧
    (∀ root p t, lookupEnv root env = some t → (scopeOf nm root [] t).at p = none →
        ∃ e, reconnect nm env port portTree (.ref root p) = .error e) := by
  refine ⟨?_, ?_, ?_⟩
  · intro c s π hr hm hno
    unfold reconnect
    simp only [hr]
    exact connect_refuses port s _ π hm hno
  · intro b hb
    cases h : reconnect nm env port portTree (.inst b) with
    | error e => exact ⟨e, rfl⟩
    | ok cs => simp [reconnect, resolve, hb] at h
  · intro root p t hb ha
    cases h : reconnect nm env port portTree (.ref root p) with
    | error e => exact ⟨e, rfl⟩
    | ok cs => simp [reconnect, resolve, hb, ha] at h

/-- Non-vacuity: a port of type `{x, s: {u (2 bits)}}` connected to an anonymous bundle whose fields come in the other order, `s`
    given as a reference to a sub-bundle of another instance and `x` as a slice; and the same with `s` missing. -/
example :
    let sub : BTree := .node [⟨"u", 2, false, .none, none, none⟩] []
    let pt : BTree := .node [⟨"x", 1, false, .none, none, none⟩] [("s", false, none, sub)]
    let big : BTree := .node [⟨"y", 1, false, .none, none, none⟩] [("inner", true, none, sub)]
    let env : Env := [("bb", big)]
    let show_ := fun (r : Except String (List (String × SConn))) => match r with
      | .ok cs => some (cs.map fun pc => (pc.1, match pc.2 with | .sig n w => (n, w) | _ => ("<slice>", 0)))
      | .error _ => none
    show_ (reconnect flatName env "p" pt (.anon [("s", .ref "bb" ["inner"]), ("x", .scalar (.slice (.sig "bus" 4) (.int 2)))])) =
      some [("p_x", ("<slice>", 0)), ("p_s_u", ("bb_inner_u", 2))] ∧
    show_ (reconnect flatName env "p" pt (.anon [("x", .scalar (.sig "a" 1))])) = none := by decide

end BundleConnections


/-! ## F1 at module level: the passes composed (ModulePipe.lean) -/
section Pipeline
open Hdl21.RoundTrip Hdl21.ExportWF Hdl21.ModulePipe

/-- what the netlisters read on a port of an exported instance, against what the designer wrote there -/
def ConnKept (ws : List (String × Nat)) (pc : String × SConn) (pt : String × PTarget) : Prop :=
  pt.1 = pc.1 ∧ ∃ bs, pc.2.denote = .ok bs ∧ readTarget ws pt.2 = bs.map bitNat

def InstKept (ws : List (String × Nat)) (i : HInst) (pi : PInst) : Prop :=
  pi.name = i.name ∧ pi.ref = i.ref ∧ pi.params = i.params ∧ All2 (ConnKept ws) i.conns pi.conns

/-- **C01 for a whole F1 module, through the composed default pass list and the exporter**: whenever `pipeline` answers, the
    exported module declares the module's signals, has one instance per instance the designer wrote — same name, same target,
    same parameters, in order — and every instance the same ports in the same order, each connected to a target in which the
    netlisters read, bit *i* for bit *i*, exactly the signal bits the designer's expression (any nesting of slices and
    concatenations, any step and sign) denotes.  Two terminals therefore touch the same signal bit in the package iff they do in
    the source: the attachment map is the same, and the nets are its fibres. -/
theorem module_connections_preserved (fuel : Nat) (ctx : PRef → Option (List (String × Nat))) (h : HModule) (p : PModule)
    (hm : ModOK ctx h) (hp : pipeline fuel ctx h = .ok p) :
    p.name = h.name ∧ p.signals = sigList h ∧ All2 (InstKept (sigList h)) h.instances p.instances := by
  obtain ⟨_, _, _, _, hcn, hctx⟩ := hm
  unfold pipeline at hp
  cases he : elabModule fuel ctx h with
  | error x => simp [he] at hp
  | ok e =>
    simp only [he] at hp
    obtain ⟨ho, hc, hs, _, _⟩ := elabModule_inv he
    obtain ⟨hn, hsig, hport, hrel⟩ := sliceResolver_inv hs
    unfold RoundTrip.exportModule at hp
    cases h1 : exportPorts e.ports with
    | error x => simp [h1] at hp
    | ok q =>
      cases h2 : exportInsts e.instances with
      | error x => simp [h1, h2] at hp
      | ok ps =>
        simp only [h1, h2] at hp
        injection hp with hp
        subst hp
        refine ⟨hn, by show _ = sigList h; unfold sigList; rw [hsig, hport], ?_⟩
        have hx := exportInsts_spec _ _ h2
        -- compose resolver and exporter, instance by instance, remembering where each instance came from
        have hrel' : All2 (fun i r => i ∈ h.instances ∧ ResInstRel fuel i r) h.instances e.instances :=
          forall2_imp_mem hrel (fun a ha b hr => ⟨ha, hr⟩)
        refine forall2_comp ?_ hrel' hx
        rintro i r pi ⟨hi, r1, r2, r3, rcs⟩ ⟨x1, x2, x3, xcs⟩
        refine ⟨x1.trans r1, x2.trans r2, x3.trans r3, ?_⟩
        obtain ⟨ports, hcr, hpass⟩ := connTypes_inst hc i hi
        have hall := ((ConnTypes.passes_iff ports i.conns (hctx _ _ hcr) (hcn i hi)).mp hpass)
        have rcs' : All2 (fun pc pr => pc ∈ i.conns ∧ ResRel fuel pc pr) i.conns r.conns :=
          forall2_imp_mem rcs (fun a ha b hr => ⟨ha, hr⟩)
        refine forall2_comp ?_ rcs' xcs
        rintro pc pr pt ⟨hpc, e1, hres⟩ ⟨e2, hexp⟩
        refine ⟨e2.trans e1, ?_⟩
        -- the connection has a width (ConnTypes), hence a denotation
        obtain ⟨pw, hpw, hpn⟩ := List.mem_map.mp (hall.2 pc hpc)
        obtain ⟨c, hcm, hw⟩ := hall.1 pw hpw
        have hceq : c = pc.2 := by
          have : (pw.1, pc.2) ∈ i.conns := by rw [hpn]; exact hpc
          exact (ConnTypes.unique_conn i.conns pw.1 c pc.2 (hcn i hi) hcm this).symm
        obtain ⟨bs, hd, _⟩ := width_denote pc.2 pw.2 (hceq ▸ hw)
        exact ⟨bs, hd, connection_preserved (sigList h) fuel pc.2 pr.2 pt.2 bs (orphanage_inst ho i hi pc hpc) hres hexp hd⟩

/-- non-vacuity: two resistors on a bus, one on a reversed slice of a concatenation; the readings are the designer's bits -/
example : (pipeline 40 (fun _ => some [("p", 2), ("n", 1)])
    ⟨"T", [⟨"s", 2, none⟩, ⟨"t", 2, none⟩], [⟨"a", 1, some "INPUT"⟩],
     [⟨"x", .ext "d" "n", [], [("p", .slice (.concat [.sig "s" 2, .sig "t" 2]) (.range (some 2) (some 0) (some (-1)))), ("n", .sig "a" 1)]⟩,
      ⟨"y", .ext "d" "n", [], [("n", .slice (.sig "t" 2) (.int (-1))), ("p", .sig "s" 2)]⟩]⟩).toOption.map
      (fun p => p.instances.map fun i => i.conns.map fun pc => (pc.1, readTarget p.signals pc.2)) =
    some [[("p", [("t", 0), ("s", 1)]), ("n", [("a", 0)])], [("n", [("t", 1)]), ("p", [("s", 0), ("s", 1)])]] := by
  decide +kernel
end Pipeline


/-! ## … with instance arrays in the module: `ArrayFlattener` inside the composition -/
section PipelineArrays
open Hdl21.RoundTrip Hdl21.ExportWF Hdl21.ModulePipe Hdl21.ArrayPass

/-- the elements of one array: called `nm a 0 … nm a (n-1)`, each with the array's port names in the array's order -/
theorem expandArr_names (ctx : PRef → Option (List (String × Nat))) (nm : String → Nat → String) (a : HArr) (els : List HInst)
    (h : expandArr ctx nm a = .ok els) :
    els.map (·.name) = (List.range a.n).map (nm a.name) ∧ ∀ r ∈ els, r.conns.map (·.1) = a.conns.map (·.1) := by
  unfold expandArr at h
  cases hc : ctx a.ref with
  | none => simp [hc] at h
  | some ports =>
    simp only [hc] at h
    cases hx : ArrayPass.expand (ports.map fun pw => (pw.1, ArrayPass.Port.sig pw.2)) a.n (a.conns.map fun pc => (pc.1, ArrayPass.AConn.sig pc.2)) with
    | error x => simp [hx] at h
    | ok r =>
      simp only [hx] at h
      obtain ⟨_, hlen, hel⟩ := array_expansion _ a.n _ r hx
      constructor
      · rw [mkElems_names a nm 0 r els h, hlen]
        apply List.map_congr_left
        intro j _; simp
      · intro ri hri
        obtain ⟨es, hes, hcs⟩ := mkElems_conns a nm 0 r els h ri hri
        obtain ⟨k, hk⟩ := List.getElem?_of_mem hes
        have hkn : k < a.n := by
          rw [← hlen]
          rcases Nat.lt_or_ge k r.length with hh | hh
          · exact hh
          · rw [List.getElem?_eq_none hh] at hk; cases hk
        obtain ⟨es', hes', hl, hper⟩ := hel k hkn
        rw [hk] at hes'; injection hes' with hes'; subst hes'
        rw [forall2_map_eq (f := fun (pe : String × ArrayPass.AElem) => pe.1) (g := fun (pc : String × SConn) => pc.1)
          (fun a b hr => hr.1) (elemSConns_spec es ri.conns hcs)]
        apply List.ext_getElem?
        intro i
        simp only [List.getElem?_map]
        cases hci : a.conns[i]? with
        | none =>
          have : es[i]? = none := by
            rw [List.getElem?_eq_none_iff] at hci ⊢
            simp at hl; omega
          simp [this]
        | some pc =>
          have hci' : (a.conns.map fun pc => (pc.1, ArrayPass.AConn.sig pc.2))[i]? = some (pc.1, ArrayPass.AConn.sig pc.2) := by
            rw [List.getElem?_map, hci]; rfl
          obtain ⟨e, he, _⟩ := hper i pc.1 _ hci'
          simp [he]

theorem flattenArrays_names (ctx : PRef → Option (List (String × Nat))) (nm : String → Nat → String) :
    ∀ (arrs : List HArr) (h h' : HModule), flattenArrays ctx nm arrs h = .ok h' →
      h'.instances.map (·.name) = h.instances.map (·.name) ++ arrs.flatMap (fun a => (List.range a.n).map (nm a.name)) ∧
      ∀ r ∈ h'.instances, r ∈ h.instances ∨ ∃ a ∈ arrs, r.conns.map (·.1) = a.conns.map (·.1)
  | [], h, h', hf => by
    rw [flattenArrays] at hf; injection hf with hf; subst hf
    exact ⟨by simp, fun r hr => Or.inl hr⟩
  | a :: rest, h, h', hf => by
    rw [flattenArrays] at hf
    cases he : expandArr ctx nm a with
    | error x => simp [he] at hf
    | ok els =>
      simp only [he] at hf
      obtain ⟨h1, h2⟩ := flattenArrays_names ctx nm rest _ h' hf
      obtain ⟨n1, n2⟩ := expandArr_names ctx nm a els he
      refine ⟨by rw [h1]; simp [List.map_append, n1, List.append_assoc], ?_⟩
      intro r hr
      rcases h2 r hr with hh | ⟨b, hb, hbc⟩
      · rcases List.mem_append.mp hh with hh | hh
        · exact Or.inl hh
        · exact Or.inr ⟨a, List.mem_cons_self .., n2 r hh⟩
      · exact Or.inr ⟨b, List.mem_cons_of_mem _ hb, hbc⟩

/-- **The namespace after `ArrayFlattener` is a namespace** when the names the pass hands out are fresh and distinct — which is what
    C05 proves of them (`inventAll_spec`: distinct from every name in the module and from each other) — and the arrays' own
    connections are a dict: the hypothesis of `array_elements_read_their_bits`, discharged from naming-level facts. -/
theorem flattened_namespace_ok (ctx : PRef → Option (List (String × Nat))) (nm : String → Nat → String) (arrs : List HArr) (h h' : HModule)
    (hm : ModOK ctx h) (hac : ∀ a ∈ arrs, (a.conns.map (·.1)).Nodup)
    (hnames : (h.instances.map (·.name) ++ arrs.reverse.flatMap (fun a => (List.range a.n).map (nm a.name))).Nodup)
    (hf : flattenArrays ctx nm arrs.reverse h = .ok h') : ModOK ctx h' := by
  obtain ⟨m1, m2, m3, _, m5, m6⟩ := hm
  obtain ⟨_, hsig, hport, _, _⟩ := flattenArrays_spec ctx nm arrs.reverse h h' hf
  obtain ⟨n1, n2⟩ := flattenArrays_names ctx nm arrs.reverse h h' hf
  refine ⟨by rw [hsig, hport]; exact m1, by rw [hsig, hport]; exact m2, by rw [hport]; exact m3, by rw [n1]; exact hnames, ?_, m6⟩
  intro r hr
  rcases n2 r hr with hh | ⟨a, ha, hc⟩
  · exact m5 r hh
  · rw [hc]; exact hac a (List.mem_reverse.mp ha)

/-- **Element `k` of an instance array ends on its bits.** An F1 module that also has instance arrays goes through the default
    pass list with `ArrayFlattener` in its place (`pipelineA`; the pass itself is the `ArrayPass` model that is compared with the real
    pass by the `arraypass` stream).  If a module comes back — and the namespace after flattening is a namespace (element names
    fresh and distinct: C05's `inventAll_spec`) — then for every array `a`, every `k < a.n`, there is an exported instance called
    what the pass called element `k`, of the array's target, with the array's ports in order, and on port `pn` of width `w`,
    wired in the source to the expression `c`: either `c` is `w` bits wide and the element reads all of `c` (every element the
    same: broadcast), or `c` is `n·w` bits wide and bit `b` of the element's port is bit `k·w + b` of `c`. -/
theorem array_elements_read_their_bits (fuel : Nat) (ctx : PRef → Option (List (String × Nat))) (nm : String → Nat → String)
    (arrs : List HArr) (h : HModule) (p : PModule)
    (hm : ∀ h', flattenArrays ctx nm arrs.reverse h = .ok h' → ModOK ctx h')
    (hp : pipelineA fuel ctx nm arrs h = .ok p) :
    ∀ a ∈ arrs, ∀ ports, ctx a.ref = some ports → ∀ k, k < a.n →
      ∃ pi ∈ p.instances, pi.name = nm a.name k ∧ pi.ref = a.ref ∧
        ∀ (j : Nat) pn c, a.conns[j]? = some (pn, c) → ∃ t w bs, pi.conns[j]? = some (pn, t) ∧ lookup pn ports = some w ∧ c.denote = .ok bs ∧
          ((bs.length = w ∧ readTarget (sigList h) t = bs.map bitNat) ∨
           (bs.length = a.n * w ∧ ∀ b, b < w → (readTarget (sigList h) t)[b]? = (bs[k * w + b]?).map bitNat)) := by
  unfold pipelineA at hp
  split at hp
  · cases hp
  · split at hp
    · cases hp
    · split at hp
      · cases hp
      · cases hf : flattenArrays ctx nm arrs.reverse h with
        | error x => simp [hf] at hp
        | ok h' =>
          simp only [hf] at hp
          obtain ⟨_, hsig, hport, _, hall⟩ := flattenArrays_spec ctx nm arrs.reverse h h' hf
          have hsl : sigList h' = sigList h := by unfold sigList; rw [hsig, hport]
          obtain ⟨_, _, hkept⟩ := module_connections_preserved fuel ctx h' p (hm h' hf) hp
          rw [hsl] at hkept
          intro a ha ports hctx k hk
          obtain ⟨els, hexp, hin⟩ := hall a (List.mem_reverse.mpr ha)
          unfold expandArr at hexp
          simp only [hctx] at hexp
          cases hx : ArrayPass.expand (ports.map fun pw => (pw.1, Port.sig pw.2)) a.n (a.conns.map fun pc => (pc.1, AConn.sig pc.2)) with
          | error x => simp [hx] at hexp
          | ok r =>
            simp only [hx] at hexp
            obtain ⟨_, _, hel⟩ := array_expansion _ a.n _ r hx
            obtain ⟨es, hes, _, hper⟩ := hel k hk
            obtain ⟨ri, hri, hname, href, _, hcs⟩ := mkElems_spec a nm 0 r els hexp k es hes
            have hrmem : ri ∈ h'.instances := hin ri (List.mem_of_getElem? hri)
            obtain ⟨pi, hpim, p1, p2, _, pcs⟩ := forall2_mem_left hkept ri hrmem
            refine ⟨pi, hpim, by rw [p1, hname]; simp, by rw [p2, href], ?_⟩
            intro j pn c hj
            have hj' : (a.conns.map fun pc => (pc.1, AConn.sig pc.2))[j]? = some (pn, AConn.sig c) := by
              rw [List.getElem?_map, hj]; rfl
            obtain ⟨e, hej, helem⟩ := hper j pn (AConn.sig c) hj'
            obtain ⟨rc, hrc, e1, hconn⟩ := all2_getElem (elemSConns_spec es ri.conns hcs) j (pn, e) hej
            obtain ⟨pt, hpt, e2, bs', hd', hread⟩ := all2_getElem pcs j rc hrc
            -- what `elem` answered
            simp only [elem, lookupP_map] at helem
            cases hl : lookup pn ports with
            | none => simp [hl] at helem
            | some w =>
              simp only [hl, Option.map_some] at helem
              cases hw : c.width with
              | error x => simp [hw] at helem
              | ok cw =>
                simp only [hw] at helem
                obtain ⟨bs, hd, hlen⟩ := width_denote c cw hw
                have hpt' : pi.conns[j]? = some (pn, pt.2) := by
                  rw [hpt]; congr 1; exact Prod.ext (by rw [e2, e1]) rfl
                by_cases h1 : w = cw
                · simp only [h1, if_true] at helem
                  injection helem with helem; subst helem
                  simp only [AElem.conn] at hconn
                  injection hconn with hconn
                  rw [← hconn, hd] at hd'
                  injection hd' with hd'; subst hd'
                  exact ⟨pt.2, w, bs, hpt', rfl, hd, Or.inl ⟨by rw [hlen, h1], hread⟩⟩
                · simp only [h1, if_false] at helem
                  by_cases h2 : w * a.n = cw
                  · simp only [h2, if_true] at helem
                    injection helem with helem; subst helem
                    simp only [AElem.conn] at hconn
                    injection hconn with hconn
                    have hw0 : 0 < w := by
                      rcases Nat.eq_zero_or_pos w with h0 | h0
                      · subst h0; simp at h2; exact absurd h2 h1
                      · exact h0
                    obtain ⟨es', hes', _, hbits⟩ := array_element_bits c bs a.n w k hd (by rw [hlen, ← h2, Nat.mul_comm]) hk hw0
                    rw [← hconn] at hd'
                    rw [hes'] at hd'
                    injection hd' with hd'; subst hd'
                    refine ⟨pt.2, w, bs, hpt', rfl, hd, Or.inr ⟨by rw [hlen, ← h2, Nat.mul_comm], ?_⟩⟩
                    intro b hb
                    rw [hread, List.getElem?_map, hbits b hb]
                  · simp [h2] at helem
/-- the same with the naming-level hypothesis: the module's namespace is a namespace, the arrays' connections are dicts, and the
    names handed to the elements are fresh and distinct (C05) -/
theorem array_elements_read_their_bits_of_fresh_names (fuel : Nat) (ctx : PRef → Option (List (String × Nat))) (nm : String → Nat → String)
    (arrs : List HArr) (h : HModule) (p : PModule) (hm : ModOK ctx h) (hac : ∀ a ∈ arrs, (a.conns.map (·.1)).Nodup)
    (hnames : (h.instances.map (·.name) ++ arrs.reverse.flatMap (fun a => (List.range a.n).map (nm a.name))).Nodup)
    (hp : pipelineA fuel ctx nm arrs h = .ok p) :
    ∀ a ∈ arrs, ∀ ports, ctx a.ref = some ports → ∀ k, k < a.n →
      ∃ pi ∈ p.instances, pi.name = nm a.name k ∧ pi.ref = a.ref ∧
        ∀ (j : Nat) pn c, a.conns[j]? = some (pn, c) → ∃ t w bs, pi.conns[j]? = some (pn, t) ∧ lookup pn ports = some w ∧ c.denote = .ok bs ∧
          ((bs.length = w ∧ readTarget (sigList h) t = bs.map bitNat) ∨
           (bs.length = a.n * w ∧ ∀ b, b < w → (readTarget (sigList h) t)[b]? = (bs[k * w + b]?).map bitNat)) :=
  array_elements_read_their_bits fuel ctx nm arrs h p (fun h' hf => flattened_namespace_ok ctx nm arrs h h' hm hac hnames hf) hp

/-- … and the module that comes back — elements and all — has none of the module-level defects C06 lists (`module_pipeline_wf` on
    the flattened module, whose namespace `flattened_namespace_ok` provides) -/
theorem array_module_wf (fuel : Nat) (ctx : PRef → Option (List (String × Nat))) (nm : String → Nat → String)
    (arrs : List HArr) (h : HModule) (p : PModule) (hm : ModOK ctx h) (hac : ∀ a ∈ arrs, (a.conns.map (·.1)).Nodup)
    (hnames : (h.instances.map (·.name) ++ arrs.reverse.flatMap (fun a => (List.range a.n).map (nm a.name))).Nodup)
    (hp : pipelineA fuel ctx nm arrs h = .ok p) :
    ∀ (pkg : Package) (earlier : List PModule), (∀ r, targetPorts pkg earlier r = ctx r) → moduleProblems pkg earlier p = [] := by
  unfold pipelineA at hp
  split at hp
  · cases hp
  · split at hp
    · cases hp
    · split at hp
      · cases hp
      · cases hf : flattenArrays ctx nm arrs.reverse h with
        | error x => simp [hf] at hp
        | ok h' =>
          simp only [hf] at hp
          exact Hdl21.Props.C06.module_pipeline_wf fuel ctx h' p (flattened_namespace_ok ctx nm arrs h h' hm hac hnames hf) hp

/-- non-vacuity: a three-element array on a six-bit bus with a shared clock; element 1 reads bits 2 and 3 -/
example :
    (pipelineA 40 (fun _ => some [("d", 2), ("ck", 1)]) (fun a k => s!"{a}_{k}")
      [⟨"arr", .ext "d" "E", [], 3, [("d", .sig "bus" 6), ("ck", .sig "clk" 1)]⟩]
      ⟨"T", [⟨"bus", 6, none⟩, ⟨"clk", 1, none⟩], [], []⟩).toOption.map
      (fun p => p.instances.map fun i => i.conns.map fun pc => (pc.1, readTarget p.signals pc.2)) =
    some [[("d", [("bus", 0), ("bus", 1)]), ("ck", [("clk", 0)])],
          [("d", [("bus", 2), ("bus", 3)]), ("ck", [("clk", 0)])],
          [("d", [("bus", 4), ("bus", 5)]), ("ck", [("clk", 0)])]] := by decide +kernel
end PipelineArrays

/-! ## … and for every module of an F1 design -/
section Hierarchy
open Hdl21.RoundTrip Hdl21.ExportWF Hdl21.ModulePipe Hdl21.Props.C06

/-- what `module_connections_preserved` says of one module and its exported counterpart -/
def ModKept (h : HModule) (p : PModule) : Prop :=
  p.name = h.name ∧ p.signals = sigList h ∧ All2 (InstKept (sigList h)) h.instances p.instances

/-- **C01 for a whole F1 design**: when the modules of a design go through the composed pass list and the exporter, children
    first (`pipelineDesign`), the package holds one module per module of the design, in order, and in each of them every
    instance — of a leaf or of a module exported before — has on every port, bit *i* for bit *i*, the signal bits the designer's
    expression denotes.  A child's port *is* its signal of that name (same bits, same order: `p.signals = sigList h`), so the nets
    of the hierarchy — glued at ports, bit to bit — are the nets the designer's connections induce, level by level. -/
theorem design_connections_preserved (fuel : Nat) (exts : List PExt) (hext : ∀ e ∈ exts, (e.ports.map (·.1)).Nodup) :
    ∀ (hs : List HModule) (acc mods : List PModule), (∀ h ∈ hs, ModOK₀ h) → (∀ m ∈ acc, (m.ports.map (·.1)).Nodup) →
      pipelineDesign fuel exts hs acc = .ok mods → ∃ new, mods = acc ++ new ∧ All2 ModKept hs new
  | [], acc, mods, _, _, h => by
    unfold pipelineDesign at h; injection h with h; subst h
    exact ⟨[], by simp, .nil⟩
  | h :: rest, acc, mods, hm, hacc, hp => by
    unfold pipelineDesign at hp
    cases h1 : pipeline fuel (targetPorts ⟨[], exts⟩ acc) h with
    | error x => simp [h1] at hp
    | ok p =>
      simp only [h1] at hp
      obtain ⟨m1, m2, m3, m4, m5⟩ := hm h (List.mem_cons_self ..)
      have hmod : ModOK (targetPorts ⟨[], exts⟩ acc) h := ⟨m1, m2, m3, m4, m5, ctx_ports_distinct exts acc hacc hext⟩
      have hk := module_connections_preserved fuel _ h p hmod h1
      have hpn : (p.ports.map (·.1)).Nodup := by
        rw [pipeline_ports fuel _ h p h1]
        rw [List.map_append] at m1
        exact (List.nodup_append.mp m1).2.1
      obtain ⟨new, hnew, hrest⟩ := design_connections_preserved fuel exts hext rest (acc ++ [p]) mods
        (fun x hx => hm x (List.mem_cons_of_mem _ hx))
        (fun m hmem => by
          rcases List.mem_append.mp hmem with hm' | hm'
          · exact hacc m hm'
          · simp at hm'; subst hm'; exact hpn) hp
      exact ⟨p :: new, by rw [hnew]; simp, .cons hk hrest⟩
end Hierarchy

end Hdl21.Props.C01