/-
# C01 — Elaboration and export preserve the connectivity the designer wrote

What is proved here (fragment **F1**: buses, arbitrarily nested slices and concatenations):
for every connection, of any width and nesting, the bits that the VLSIR netlisters read
(positionally, most-significant first) in the connection target that `SliceResolver` + the exporter
produce are exactly — same bits, same order, bit `i` to bit `i` — the bits the designer's expression
denotes.  This covers `_list_slice/_resolve_slice/_resolve_concat`, `export_slice`'s inclusive top and
`export_concat`'s part order.

What is **not** proved but decided by the correspondence with the declarative `Sem.src` as oracle
(Design.lean; evaluated by the driver on every generated design and compared with `Sem.pkg` of the
real package and with the netlist text): port-reference groups, no-connects, arrays, bundles,
anonymous bundles, pairs and the composition across hierarchy (F2, F3 of DESIGN.md §6).
-/
import Hdl21Model.Lemmas.Resolve
import Hdl21Model.Lemmas.Export
namespace Hdl21.Props.C01
open Hdl21 Hdl21.Pkg

theorem sigsOK_leafPred (ws : List (String × Nat)) : LeafPred (fun c => sigsOK ws c = true) := by
  constructor
  · intro p idx; rw [sigsOK]
  · intro ps
    rw [sigsOK]
    induction ps with
    | nil => simp [sigsOKList]
    | cons p ps ih => simp [sigsOKList, ih]

/-- **F1**: resolve, export, read back = the designer's bits. -/
theorem connection_preserved (ws : List (String × Nat)) (fuel : Nat) (c r : SConn) (t : PTarget) (bs : List Bit)
    (hok : sigsOK ws c = true)
    (hr : resolveSliceable fuel c = .ok r) (he : exportTarget r = .ok t) (hd : c.denote = .ok bs) :
    readTarget ws t = bs.map bitNat := by
  have hok' : sigsOK ws r = true := (resolve_keeps _ (sigsOK_leafPred ws) fuel).2.2.1 c r hr hok
  exact export_read ws r t bs hok' he (resolve_preserves_bits_aux fuel c r bs hr hd)
where resolve_preserves_bits_aux (fuel : Nat) (c r : SConn) (bs : List Bit)
    (h : resolveSliceable fuel c = .ok r) (hd : c.denote = .ok bs) : r.denote = .ok bs :=
  (resolve_sound fuel).2.2.1 c r bs h hd

/-- Bit `i` of the connection reaches bit `i` of the port: the reading has the connection's width
    and its `i`-th element is the `i`-th denoted bit. -/
theorem bit_i_to_bit_i (ws : List (String × Nat)) (fuel : Nat) (c r : SConn) (t : PTarget) (bs : List Bit)
    (hok : sigsOK ws c = true)
    (hr : resolveSliceable fuel c = .ok r) (he : exportTarget r = .ok t) (hd : c.denote = .ok bs) (i : Nat) :
    (readTarget ws t)[i]? = (bs[i]?).map bitNat := by
  rw [connection_preserved ws fuel c r t bs hok hr he hd, List.getElem?_map]

/-- Concatenation parts are exported most-significant first: reading `Concat(a, b)` gives `a`'s bits lowest. -/
theorem concat_order (ws : List (String × Nat)) (a b : SConn) (ta tb : PTarget)
    (ha : exportTarget a = .ok ta) (hb : exportTarget b = .ok tb) :
    exportTarget (.concat [a, b]) = .ok (.concat [tb, ta]) ∧
    readTarget ws (.concat [tb, ta]) = readTarget ws ta ++ readTarget ws tb := by
  constructor
  · rw [exportTarget]; simp only [bind, Except.bind]
    rw [exportParts]; simp only [bind, Except.bind, ha]
    rw [exportParts]; simp only [bind, Except.bind, hb]
    rw [exportParts]; simp
  · rw [readTarget, readParts, readParts, readParts]; simp

/-! ### Non-vacuity: a reversed slice of a concatenation -/
example :
    let c : SConn := .slice (.concat [.sig "a" 2, .sig "b" 3]) (.range none none (some (-2)))
    (match resolveSliceable 12 c with
     | .ok r => (match exportTarget r with
                 | .ok t => some (readTarget [("a", 2), ("b", 3)] t)
                 | .error _ => none)
     | .error _ => none) = some [("b", 2), ("b", 0), ("a", 0)] := by decide +kernel

end Hdl21.Props.C01
