namespace Hdl21.Props.C01
end Hdl21.Props.C01
