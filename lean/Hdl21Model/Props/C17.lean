/-
# C17 — Simulation input export is complete and faithful

For every `Sim` (any attributes in any order, sweep / Monte-Carlo nesting of any depth — `SimExport.lean`):
* `export_rejects_bad_testbench`, `export_accepts_testbench`   exported iff the testbench has exactly one port and
                               that port is scalar — and then export never fails;
* `export_entries`             `top` is the testbench's name; controls and options are the attributes of those kinds,
                               one entry each, in the original order, translated field by field; the analyses are the
                               analysis attributes in the original order and nesting, equal to the originals in everything
                               but the names (`strip`) — inner analyses of sweeps and Monte-Carlos included;
* `every_attr_exported_once`   the three lists together have exactly one entry per attribute;
* `names_kept_and_distinct`    a named analysis keeps its name, at its position; if the designer's names are distinct,
                               all names in the output are distinct (unnamed analyses get fresh `Analysis{j}`, never one
                               the designer used);
* `save_forms`                 each of the five documented save-target forms is translated (mode / one name / the names
                               joined by commas), none refused.
Numeric fields are carried as exact values; "the float nearest each prefixed value" is decided by the correspondence
against `fractions.Fraction` (Lean's `Float` is opaque to the kernel).
-/
import Hdl21Model.Lemmas.SimExport
namespace Hdl21.Props.C17
open Hdl21.SimExport

theorem isTb_iff (ports : List Nat) : isTb ports = true ↔ ports = [1] := by
  simp [isTb]

/-- A testbench that does not have exactly one scalar port is rejected. -/
theorem export_rejects_bad_testbench (s : Sim) (h : s.tbPorts ≠ [1]) : exportSim s = none := by
  have : isTb s.tbPorts = false := by
    cases hb : isTb s.tbPorts with
    | false => rfl
    | true => exact absurd ((isTb_iff _).mp hb) h
  simp [exportSim, this]

/-- … and every other `Sim` is exported. -/
theorem export_accepts_testbench (s : Sim) (h : s.tbPorts = [1]) : (exportSim s).isSome = true := by
  have hb : isTb s.tbPorts = true := (isTb_iff _).mpr h
  have := exportAns_total (userNamesL (analyses s.attrs)) (analyses s.attrs) 0
  simp only [exportSim, hb, Bool.not_true, Bool.false_eq_true, if_false]
  cases he : exportAns (userNamesL (analyses s.attrs)) (analyses s.attrs) 0 with
  | none => simp [he] at this
  | some p => simp

theorem every_attr_exported_once : ∀ (attrs : List Attr),
    (analyses attrs).length + (ctrls attrs).length + (opts attrs).length = attrs.length
  | [] => rfl
  | .an a :: r => by simp only [analyses, ctrls, opts, List.length_cons]; have := every_attr_exported_once r; omega
  | .ctrl c :: r => by simp only [analyses, ctrls, opts, List.length_cons]; have := every_attr_exported_once r; omega
  | .opt n v :: r => by simp only [analyses, ctrls, opts, List.length_cons]; have := every_attr_exported_once r; omega

/-- What a successful export contains. -/
theorem export_entries (s : Sim) (inp : SimInput) (h : exportSim s = some inp) :
    inp.top = s.tbName ∧
    inp.ctrls = (ctrls s.attrs).map exportCtrl ∧
    inp.opts = opts s.attrs ∧
    stripL inp.an = stripL (analyses s.attrs) ∧
    inp.an.length + inp.ctrls.length + inp.opts.length = s.attrs.length := by
  unfold exportSim at h
  split at h
  · cases h
  · cases he : exportAns (userNamesL (analyses s.attrs)) (analyses s.attrs) 0 with
    | none => simp [he] at h
    | some p =>
      obtain ⟨an, k⟩ := p
      simp only [he, Option.map_some] at h
      injection h with h; subst h
      obtain ⟨hs, ns, hns, hsl⟩ := exportAns_spec _ _ 0 an k he
      refine ⟨rfl, rfl, rfl, hs, ?_⟩
      have hl : an.length = (analyses s.attrs).length := by
        have := congrArg List.length hs
        have e : ∀ l : List An, (stripL l).length = l.length := by
          intro l; induction l with
          | nil => rfl
          | cons a r ih => simp [stripL, ih]
        rw [e, e] at this; exact this
      simp only [hl, List.length_map]
      exact every_attr_exported_once s.attrs

/-- Named analyses keep their names, position by position (in export order, nesting included); and if the
    designer's names are pairwise distinct, so are all names of the output. -/
theorem names_kept_and_distinct (s : Sim) (inp : SimInput) (h : exportSim s = some inp) :
    ∃ names : List String,
      slotsL inp.an = names.map some ∧
      names.length = (slotsL (analyses s.attrs)).length ∧
      (∀ (i : Nat) (n : String), (slotsL (analyses s.attrs))[i]? = some (some n) → names[i]? = some n) ∧
      ((userNamesL (analyses s.attrs)).Nodup → names.Nodup) ∧
      (∀ x ∈ names, x ∈ userNamesL (analyses s.attrs) ∨ ∃ j, x = fmt j ∧ x ∉ userNamesL (analyses s.attrs)) := by
  unfold exportSim at h
  split at h
  · cases h
  · cases he : exportAns (userNamesL (analyses s.attrs)) (analyses s.attrs) 0 with
    | none => simp [he] at h
    | some p =>
      obtain ⟨an, k⟩ := p
      simp only [he, Option.map_some] at h
      injection h with h; subst h
      obtain ⟨_, ns, hns, hsl⟩ := exportAns_spec _ _ 0 an k he
      obtain ⟨_, hlen, hmem, hnd, hkeep⟩ := assign_spec _ _ 0 ns k hns
      refine ⟨ns, hsl, hlen, hkeep, ?_, ?_⟩
      · intro hu
        apply hnd
        · rw [← userNamesL_eq]; exact hu
        · intro t ht; rw [userNamesL_eq]; exact ht
      · intro x hx
        rcases hmem x hx with h | ⟨j, _, _, h3, h4⟩
        · left; rw [userNamesL_eq]; exact h
        · right; exact ⟨j, h3, h4⟩

/-- Every documented form of save target is accepted. -/
theorem save_forms (s : String) (l : List String) :
    exportSave .modeAll = .mode true ∧ exportSave .modeNone = .mode false ∧
    exportSave (.signal s) = .signal s ∧ exportSave (.name s) = .signal s ∧
    exportSave (.signals l) = .signal (",".intercalate l) ∧ exportSave (.names l) = .signal (",".intercalate l) :=
  ⟨rfl, rfl, rfl, rfl, rfl, rfl⟩

/-- Controls are translated one to one (no control is dropped, merged or reordered). -/
theorem ctrl_translation (c : Ctrl SaveTarget) :
    (∀ p, c = .include p → exportCtrl c = .include p) ∧
    (∀ p q, c = .lib p q → exportCtrl c = .lib p q) ∧
    (∀ a n e, c = .meas a n e → exportCtrl c = .meas a n e) ∧
    (∀ n v, c = .param n v → exportCtrl c = .param n v) ∧
    (∀ t, c = .literal t → exportCtrl c = .literal t) ∧
    (∀ t, c = .save t → exportCtrl c = .save (exportSave t)) := by
  refine ⟨?_, ?_, ?_, ?_, ?_, ?_⟩ <;> intros <;> subst_vars <;> rfl

/-! Non-vacuity: a nested sweep with one designer name that looks like an invented one. -/
example :
    let s : Sim := { tbPorts := [1], tbName := "tb", attrs :=
      [.an (.op (some (fmt 0))), .ctrl (.save (.names ["a", "b"])), .an (.sweep none "x" (.points ["1"]) [.tran none "1/1000" none, .op none]),
       .opt "reltol" "1/1000"] }
    (exportSim s).isSome = true ∧ s.tbPorts = [1] := by
  refine ⟨export_accepts_testbench _ rfl, rfl⟩

end Hdl21.Props.C17
