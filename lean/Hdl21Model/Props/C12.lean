/-
# C12 — Output is reproducible across processes

`order_independent`: whatever order a set of port references is iterated in (any permutation — the
model of CPython's address- and seed-dependent set iteration), `ordered` returns the same list; hence
everything computed from it — the order of an instance's connections, the invented names — is the same
in every process.  The runtime facts the model cannot exhibit (CPython's `id`/seed based hashing,
allocation history, protobuf's deterministic serialisation, md5) are covered by the correspondence:
N interpreters with different PYTHONHASHSEED and random unrelated work, byte-identical packages and
netlists.
`ordered_portrefs_independent`: the key as written, `(instance name, port name)` compared as tuples, identifies the
references held by the instances of one module (instance names are distinct there) — and `instance_name_alone_is_not_a_key`:
the instance name alone does not.
-/
import Hdl21Model.Order
import Mathlib.Data.Prod.Lex
import Mathlib.Data.String.Basic
import Mathlib.Data.List.Perm.Basic
import Hdl21Model.Lemmas.Dfs
namespace Hdl21.Props.C12
open Hdl21.Order

variable {α κ : Type} [LinearOrder κ]

/-- Sorting by a key that identifies the elements of the set gives one list, whatever order the set
    was enumerated in. (The key only has to tell the members of *this* set apart.) -/
theorem order_independent (key : α → κ) (l l' : List α) (h : l.Perm l')
    (hinj : ∀ a ∈ l, ∀ b ∈ l, key a = key b → a = b) :
    ordered key l = ordered key l' := by
  unfold ordered
  let r : α → α → Prop := fun a b => key a ≤ key b
  have : Std.Total r := ⟨fun a b => le_total (key a) (key b)⟩
  have : IsTrans α r := ⟨fun a b c hab hbc => le_trans hab hbc⟩
  have hp : (l.insertionSort r).Perm (l'.insertionSort r) :=
    ((List.perm_insertionSort r l).trans h).trans (List.perm_insertionSort r l').symm
  refine List.Perm.eq_of_pairwise ?_ (List.pairwise_insertionSort r l) (List.pairwise_insertionSort r l') hp
  intro a b ha hb hab hba
  have ha' : a ∈ l := (List.mem_insertionSort r).1 ha
  have hb' : b ∈ l := h.mem_iff.2 ((List.mem_insertionSort r).1 hb)
  exact hinj a ha' b hb' (le_antisymm hab hba)

/-- Anything computed from the ordered list is independent of the iteration order of the set. -/
theorem computed_from_ordered {β : Type} (key : α → κ) (f : List α → β)
    (l l' : List α) (h : l.Perm l') (hinj : ∀ a ∈ l, ∀ b ∈ l, key a = key b → a = b) :
    f (ordered key l) = f (ordered key l') := by
  rw [order_independent key l l' h hinj]

/-- `ordered` returns exactly the elements of the set. -/
theorem ordered_perm (key : α → κ) (l : List α) : (ordered key l).Perm l :=
  List.perm_insertionSort _ l

/-! ### Non-vacuity: three references, two enumeration orders -/
example : ordered (fun (p : Nat × Nat) => p.1 * 100 + p.2) [(2, 1), (1, 2), (1, 1)]
        = ordered (fun (p : Nat × Nat) => p.1 * 100 + p.2) [(1, 1), (2, 1), (1, 2)] := by decide

/-! ## the key `ordered()` really uses -/

/-- a reference to a port: the instance (by identity) and the port's name -/
structure PRef where
  inst : Nat
  port : String
  deriving DecidableEq

/-- the key of `portref.ordered`: `(p.inst.name, p.portname)`, compared as Python compares tuples -/
def refKey (name : Nat → String) (p : PRef) : String ×ₗ String := toLex (name p.inst, p.port)

/-- Within one module — instance names distinct — that key tells any two references apart. -/
theorem refKey_identifies (name : Nat → String) (insts : List Nat) (hinj : ∀ a ∈ insts, ∀ b ∈ insts, name a = name b → a = b)
    (a b : PRef) (ha : a.inst ∈ insts) (hb : b.inst ∈ insts) (h : refKey name a = refKey name b) : a = b := by
  unfold refKey at h
  have h' := toLex.injective h
  simp only [Prod.mk.injEq] at h'
  obtain ⟨i, p⟩ := a
  obtain ⟨j, q⟩ := b
  simp only at h' ha hb
  have := hinj i ha j hb h'.1
  subst this
  rw [h'.2]

/-- **`ordered()` as written**: the references held by instances of one module come out in one order whatever order the
    set was enumerated in. -/
theorem ordered_portrefs_independent (name : Nat → String) (insts : List Nat)
    (hinj : ∀ a ∈ insts, ∀ b ∈ insts, name a = name b → a = b) (l l' : List PRef) (h : l.Perm l')
    (hl : ∀ p ∈ l, p.inst ∈ insts) :
    ordered (refKey name) l = ordered (refKey name) l' :=
  order_independent (refKey name) l l' h (fun a ha b hb hk => refKey_identifies name insts hinj a b (hl a ha) (hl b hb) hk)

/-- Sorting by the instance name alone is *not* enough: two ports of one instance keep the order the set happened to have. -/
theorem instance_name_alone_is_not_a_key :
    ∃ (l l' : List PRef), l.Perm l' ∧
      ordered (fun p : PRef => p.inst) l ≠ ordered (fun p : PRef => p.inst) l' :=
  ⟨[⟨0, "p"⟩, ⟨0, "q"⟩], [⟨0, "q"⟩, ⟨0, "p"⟩], List.Perm.swap _ _ _, by decide⟩

end Hdl21.Props.C12

/-! ## group discovery (`ResolvePortRefs.follow`) under any iteration order of the back-reference sets -/
namespace Hdl21.Props.C12
open Hdl21.Order Hdl21.Dfs

variable {ν κ : Type} [DecidableEq ν] [LinearOrder κ]

/-- **The group `follow` discovers is the same set whatever order the sets of connected ports are iterated in.**
    `nbrs` and `nbrs'` enumerate, for every port reference, the same neighbours (its connection if that is a reference, and
    the references connected to it — `_connected_ports`, a Python `set`) in two arbitrary orders, as two processes would.
    The depth-first searches visit the nodes in different orders, but whenever both answer they have collected the same
    references, each once. -/
theorem group_members_order_independent (nbrs nbrs' : ν → List ν) (hperm : ∀ a, (nbrs a).Perm (nbrs' a))
    (fuel fuel' : Nat) (p : ν) (g g' : List ν)
    (h : dfs nbrs fuel p [] = some g) (h' : dfs nbrs' fuel' p [] = some g') : g.Perm g' := by
  have hn : g.Nodup := dfs_nodup nbrs fuel p [] g h List.nodup_nil
  have hn' : g'.Nodup := dfs_nodup nbrs' fuel' p [] g' h' List.nodup_nil
  rw [List.perm_ext_iff_of_nodup hn hn']
  intro x
  rw [dfs_component nbrs fuel p g h x, dfs_component nbrs' fuel' p g' h' x]
  exact ⟨Reach.congr (fun a y hy => (hperm a).mem_iff.1 hy), Reach.congr (fun a y hy => (hperm a).mem_iff.2 hy)⟩

/-- Hence everything a pass computes from a group *after ordering it by a key that identifies its members* — which
    reference gives the implicit signal its name, the order in which the group's ports are re-connected — is the same in
    every process, even where the search itself walked the sets in another order. -/
theorem handled_group_order_independent {β : Type} (key : ν → κ) (f : List ν → β)
    (nbrs nbrs' : ν → List ν) (hperm : ∀ a, (nbrs a).Perm (nbrs' a))
    (fuel fuel' : Nat) (p : ν) (g g' : List ν)
    (h : dfs nbrs fuel p [] = some g) (h' : dfs nbrs' fuel' p [] = some g')
    (hinj : ∀ a ∈ g, ∀ b ∈ g, key a = key b → a = b) :
    f (ordered key g) = f (ordered key g') :=
  computed_from_ordered key f g g' (group_members_order_independent nbrs nbrs' hperm fuel fuel' p g g' h h') hinj

/-- Non-vacuity: a three-node cycle searched with the neighbour lists in two different orders — different discovery orders,
    the same group. -/
example :
    let nb  : Nat → List Nat := fun a => if a = 0 then [1, 2] else if a = 1 then [2, 0] else [0, 1]
    let nb' : Nat → List Nat := fun a => if a = 0 then [2, 1] else if a = 1 then [0, 2] else [1, 0]
    dfs nb 5 0 [] = some [0, 1, 2] ∧ dfs nb' 5 0 [] = some [0, 2, 1] := by decide

end Hdl21.Props.C12
