/-
# C12 — Output is reproducible across processes

`order_independent`: whatever order a set of port references is iterated in (any permutation — the
model of CPython's address- and seed-dependent set iteration), `ordered` returns the same list; hence
everything computed from it — the order of an instance's connections, the invented names — is the same
in every process.  The runtime facts the model cannot exhibit (CPython's `id`/seed based hashing,
allocation history, protobuf's deterministic serialisation, md5) are covered by the correspondence:
N interpreters with different PYTHONHASHSEED and random unrelated work, byte-identical packages and
netlists.
-/
import Hdl21Model.Order
namespace Hdl21.Props.C12
open Hdl21.Order

variable {α κ : Type} [LinearOrder κ]

/-- Sorting by a key that identifies the elements of the set gives one list, whatever order the set
    was enumerated in. (The key only has to tell the members of *this* set apart.) -/
theorem order_independent (key : α → κ) (l l' : List α) (h : l.Perm l')
    (hinj : ∀ a ∈ l, ∀ b ∈ l, key a = key b → a = b) :
    ordered key l = ordered key l' := by
  unfold ordered
  let r : α → α → Prop := fun a b => key a ≤ key b
  have : Std.Total r := ⟨fun a b => le_total (key a) (key b)⟩
  have : IsTrans α r := ⟨fun a b c hab hbc => le_trans hab hbc⟩
  have hp : (l.insertionSort r).Perm (l'.insertionSort r) :=
    ((List.perm_insertionSort r l).trans h).trans (List.perm_insertionSort r l').symm
  refine List.Perm.eq_of_pairwise ?_ (List.pairwise_insertionSort r l) (List.pairwise_insertionSort r l') hp
  intro a b ha hb hab hba
  have ha' : a ∈ l := (List.mem_insertionSort r).1 ha
  have hb' : b ∈ l := h.mem_iff.2 ((List.mem_insertionSort r).1 hb)
  exact hinj a ha' b hb' (le_antisymm hab hba)

/-- Anything computed from the ordered list is independent of the iteration order of the set. -/
theorem computed_from_ordered {β : Type} (key : α → κ) (f : List α → β)
    (l l' : List α) (h : l.Perm l') (hinj : ∀ a ∈ l, ∀ b ∈ l, key a = key b → a = b) :
    f (ordered key l) = f (ordered key l') := by
  rw [order_independent key l l' h hinj]

/-- `ordered` returns exactly the elements of the set. -/
theorem ordered_perm (key : α → κ) (l : List α) : (ordered key l).Perm l :=
  List.perm_insertionSort _ l

/-! ### Non-vacuity: three references, two enumeration orders -/
example : ordered (fun (p : Nat × Nat) => p.1 * 100 + p.2) [(2, 1), (1, 2), (1, 1)]
        = ordered (fun (p : Nat × Nat) => p.1 * 100 + p.2) [(1, 1), (2, 1), (1, 2)] := by decide

end Hdl21.Props.C12
