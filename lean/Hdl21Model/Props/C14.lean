/-
# C14 — Prefixed numbers are exact, totally ordered and hash-consistent

`Prefixed.val : ℚ` is the exact value `c · 10^e · 10^prefix`.  All statements hold for
every mantissa (any number of digits), every exponent and every pair of prefixes —
including exponents that are not among the 21 legal ones.
`float()` ("the nearest float") is **not** provable here — Lean's `Float` is opaque to the
kernel — and is decided by the correspondence only (harness/props/c14.py, against
`float(Fraction)`).
-/
import Hdl21Model.Lemmas.Prefix
import Hdl21Model.Lemmas.PrefixHash
namespace Hdl21.Props.C14
open Hdl21 Prefixed

/-- Rescaling to any prefix keeps the exact value. -/
theorem scale_exact (p : Prefixed) (t : ℤ) : (p.scale t).val = p.val := scale_val p t

theorem scale_lands (p : Prefixed) (t : ℤ) : (p.scale t).pre = t := rfl

/-- `scale()` without argument (closest prefix) keeps the exact value. -/
theorem scale_auto_exact (p : Prefixed) : p.scaleAuto.val = p.val := scaleAuto_val p

theorem neg_exact (p : Prefixed) : p.neg.val = -p.val := by
  unfold Prefixed.neg Prefixed.val; simp only []; rw [Dec.neg_val]; ring

theorem abs_exact (p : Prefixed) : p.abs.val = |p.val| := by
  unfold Prefixed.abs Prefixed.val; simp only []
  rw [Dec.abs_val, abs_mul, abs_of_pos (ten_pos p.pre)]

theorem add_exact (a b : Prefixed) : (a.add b).val = a.val + b.val := by
  unfold Prefixed.add
  rw [scaleAuto_val]
  unfold Prefixed.addRaw
  split
  · rename_i h
    unfold Prefixed.val; simp only []
    rw [Dec.add_val, h]; ring
  · simp only []
    generalize (if a.pre < b.pre then a.pre else b.pre) = s
    have ha := scale_val a s
    have hb := scale_val b s
    unfold Prefixed.val at *
    simp only [] at *
    rw [Dec.add_val, add_mul]
    have e1 : (a.scale s).pre = s := rfl
    have e2 : (b.scale s).pre = s := rfl
    rw [e1] at ha; rw [e2] at hb
    rw [ha, hb]

theorem sub_exact (a b : Prefixed) : (a.sub b).val = a.val - b.val := by
  unfold Prefixed.sub
  rw [scaleAuto_val]
  unfold Prefixed.subRaw
  split
  · rename_i h
    unfold Prefixed.val; simp only []
    rw [Dec.sub_val, h]; ring
  · simp only []
    generalize (if a.pre < b.pre then a.pre else b.pre) = s
    have ha := scale_val a s
    have hb := scale_val b s
    unfold Prefixed.val at *
    simp only [] at *
    rw [Dec.sub_val, sub_mul]
    have e1 : (a.scale s).pre = s := rfl
    have e2 : (b.scale s).pre = s := rfl
    rw [e1] at ha; rw [e2] at hb
    rw [ha, hb]

theorem mul_exact (a b : Prefixed) : (a.mul b).val = a.val * b.val := by
  unfold Prefixed.mul
  simp only []
  rw [scaleAuto_val]
  unfold Prefixed.val
  simp only []
  rw [Dec.mulPow10_val, Dec.mul_val, mul_assoc, ← zpow_add₀ ten_ne]
  have : a.pre + b.pre - closestInt (a.pre + b.pre) + closestInt (a.pre + b.pre) = a.pre + b.pre := by ring
  rw [this, zpow_add₀ ten_ne]; ring

/-! ### Ordering -/

/-- Comparisons never fail (the model functions are total) and exactly one of `<`, `==`, `>` holds. -/
theorem trichotomy (a b : Prefixed) :
    (a.lt b = true ∧ a.eq b = false ∧ a.gt b = false) ∨
    (a.lt b = false ∧ a.eq b = true ∧ a.gt b = false) ∨
    (a.lt b = false ∧ a.eq b = false ∧ a.gt b = true) := by
  unfold Prefixed.lt Prefixed.eq Prefixed.gt
  generalize (comparable a b).1 = x
  generalize (comparable a b).2 = y
  rcases lt_trichotomy x y with h | h | h
  · left; simp [h, ne_of_lt h, not_lt_of_gt h]
  · right; left; simp [h]
  · right; right; simp [h, ne_of_gt h, not_lt_of_gt h]

/-- The usual relations between the six operators. -/
theorem relations (a b : Prefixed) :
    a.le b = (a.lt b || a.eq b) ∧ a.ge b = (a.gt b || a.eq b) ∧ a.ne b = !(a.eq b) ∧
    a.ge b = !(a.lt b) ∧ a.gt b = !(a.le b) := by
  unfold Prefixed.lt Prefixed.le Prefixed.eq Prefixed.ne Prefixed.gt Prefixed.ge
  generalize (comparable a b).1 = x
  generalize (comparable a b).2 = y
  refine ⟨?_, ?_, ?_, ?_, ?_⟩ <;> rcases lt_trichotomy x y with h | h | h <;>
    simp [h, ne_of_lt, ne_of_gt, le_of_lt, not_lt_of_gt, not_le_of_gt]

/-- Symmetry: `a < b` is `b > a`, `a == b` is `b == a`. -/
theorem symmetric (a b : Prefixed) : a.lt b = b.gt a ∧ a.eq b = b.eq a := by
  unfold Prefixed.lt Prefixed.gt Prefixed.eq comparable
  simp only []
  have hs : (if a.pre < b.pre then a.pre else b.pre) = (if b.pre < a.pre then b.pre else a.pre) := by
    split <;> split <;> omega
  rw [hs]
  constructor
  · simp [gt_iff_lt]
  · simp [eq_comm]

/-- The scaled, un-rounded comparison values, in units of `10^(s-20)`. -/
theorem comparable_spec (a b : Prefixed) :
    let s := if a.pre < b.pre then a.pre else b.pre
    IsRoundHalfEven (a.val * (10 : ℚ) ^ (20 - s)) (comparable a b).1 ∧
    IsRoundHalfEven (b.val * (10 : ℚ) ^ (20 - s)) (comparable a b).2 := by
  intro s
  unfold comparable
  simp only []
  have key : ∀ p : Prefixed, IsRoundHalfEven (p.val * (10 : ℚ) ^ (20 - s)) ((p.scale s).number.roundTo epsilon) := by
    intro p
    have h := roundTo_spec (p.scale s).number epsilon
    have hv := scale_val p s
    unfold Prefixed.val at hv
    have e1 : (p.scale s).pre = s := rfl
    rw [e1] at hv
    have : (p.scale s).number.val * (10 : ℚ) ^ ((epsilon : ℕ) : ℤ) = p.number.val * (10 : ℚ) ^ p.pre * (10 : ℚ) ^ (20 - s) := by
      rw [← hv, mul_assoc, ← zpow_add₀ ten_ne]
      congr 2
      unfold epsilon; push_cast; ring
    rw [this] at h
    exact h
  exact ⟨key a, key b⟩

/-- Two numbers denoting the same value are equal. -/
theorem eq_of_same_value (a b : Prefixed) (h : a.val = b.val) :
    a.eq b = true ∧ a.lt b = false ∧ a.gt b = false ∧ a.le b = true ∧ a.ge b = true ∧ a.ne b = false := by
  have hs := comparable_spec a b
  simp only [] at hs
  rw [h] at hs
  have := hs.1.unique hs.2
  unfold Prefixed.eq Prefixed.lt Prefixed.gt Prefixed.le Prefixed.ge Prefixed.ne
  simp [this]

/-- … and hash equally (the model's hash is CPython's `hash(Decimal)` of the exact value). -/
theorem hash_of_same_value (a b : Prefixed) (h : a.val = b.val) : a.hash = b.hash := by
  unfold Prefixed.hash
  apply hash_congr
  unfold Prefixed.value
  rw [Dec.scaleb_val, Dec.scaleb_val]
  exact h

/-- Beyond the tolerance — a difference of more than `10^-20` in units of the smaller
    prefix — every comparison agrees with the comparison of the exact values. -/
theorem cmp_agrees (a b : Prefixed)
    (htol : (10 : ℚ) ^ ((if a.pre < b.pre then a.pre else b.pre) - 20) < |a.val - b.val|) :
    (a.lt b = decide (a.val < b.val)) ∧ (a.gt b = decide (a.val > b.val)) ∧ a.eq b = false := by
  have hs := comparable_spec a b
  simp only [] at hs
  generalize hsdef : (if a.pre < b.pre then a.pre else b.pre) = s at *
  obtain ⟨h1, h2⟩ := hs
  have d1 := h1.dist_le
  have d2 := h2.dist_le
  have hscale : (10 : ℚ) ^ (20 - s) * (10 : ℚ) ^ (s - 20) = 1 := by
    rw [← zpow_add₀ ten_ne]; simp
  have hpos := ten_pos (20 - s)
  -- in units: |xa - xb| > 1
  have hunits : 1 < |a.val * (10 : ℚ) ^ (20 - s) - b.val * (10 : ℚ) ^ (20 - s)| := by
    have : a.val * (10 : ℚ) ^ (20 - s) - b.val * (10 : ℚ) ^ (20 - s) = (a.val - b.val) * (10 : ℚ) ^ (20 - s) := by ring
    rw [this, abs_mul, abs_of_pos hpos]
    calc (1 : ℚ) = (10 : ℚ) ^ (s - 20) * (10 : ℚ) ^ (20 - s) := by rw [mul_comm]; exact hscale.symm
      _ < |a.val - b.val| * (10 : ℚ) ^ (20 - s) := mul_lt_mul_of_pos_right htol hpos
  generalize hxa : a.val * (10 : ℚ) ^ (20 - s) = xa at *
  generalize hxb : b.val * (10 : ℚ) ^ (20 - s) = xb at *
  generalize hra : (comparable a b).1 = ra at *
  generalize hrb : (comparable a b).2 = rb at *
  rw [abs_le] at d1 d2
  have hval : (a.val < b.val ↔ xa < xb) := by
    rw [← hxa, ← hxb]; exact (mul_lt_mul_iff_of_pos_right hpos).symm
  unfold Prefixed.lt Prefixed.gt Prefixed.eq
  rw [hra, hrb]
  rcases lt_or_gt_of_ne (show xa - xb ≠ 0 by intro h; rw [h] at hunits; norm_num at hunits) with hneg | hpos'
  · -- xa < xb - 1
    rw [abs_of_neg hneg] at hunits
    have hlt : (ra : ℚ) < rb := by linarith
    have hlt' : ra < rb := by exact_mod_cast hlt
    have hv : a.val < b.val := hval.2 (by linarith)
    simp [hlt', hv, not_lt_of_gt hv, ne_of_lt hlt', not_lt_of_gt hlt']
  · rw [abs_of_pos hpos'] at hunits
    have hgt : (rb : ℚ) < ra := by linarith
    have hgt' : rb < ra := by exact_mod_cast hgt
    have hv : b.val < a.val := by
      have : xb < xa := by linarith
      rw [← hxa, ← hxb] at this
      exact (mul_lt_mul_iff_of_pos_right hpos).1 this
    simp [hgt', hv, not_lt_of_gt hv, ne_of_gt hgt', not_lt_of_gt hgt']

/-- `int()` is the integer part (truncation toward zero) of the exact value. -/
theorem int_is_trunc (p : Prefixed) :
    |(p.toInt : ℚ)| ≤ |p.val| ∧ |p.val| < |(p.toInt : ℚ)| + 1 ∧ 0 ≤ (p.toInt : ℚ) * p.val :=
  toInt_spec p

/-! ### Non-vacuity -/
example : (⟨⟨1000, 0⟩, -3⟩ : Prefixed).eq ⟨⟨1, 0⟩, 0⟩ = true := by decide
example : (⟨⟨1000, 0⟩, -3⟩ : Prefixed).hash = (⟨⟨1, 0⟩, 0⟩ : Prefixed).hash := by decide
example : (⟨⟨1, 0⟩, 0⟩ : Prefixed).gt ⟨⟨1, 0⟩, -9⟩ = true := by decide
example : (⟨⟨1500, 0⟩, -3⟩ : Prefixed).toInt = 1 := by decide

end Hdl21.Props.C14
