/-
# C18 — Module and bundle namespaces stay coherent under any edit sequence

`Coh s`: every name denotes at most one object and all views agree on it —
the per-kind views are exactly the namespace filtered by kind (so a signal is listed as a
port exactly when it has port visibility), the object bound to a name carries that name
and reports this container as its parent (hence no object is bound under two names).
Proved invariant of every operation and lifted to every finite operation sequence, for the
Module and the Bundle configuration alike (any `Cfg`).
-/
import Hdl21Model.Namespace
namespace Hdl21.Props.C18
open Hdl21.NS

structure Coh (names : List String) (s : State) : Prop where
  views : ∀ n k, s.view k n = (match s.ns n with
                               | some o => if k = o.kind then some o else none
                               | none => none)
  owned : ∀ n o, s.ns n = some o → s.parented o.id = true ∧ s.nameOf o.id = some n
  dom : ∀ n o, s.ns n = some o → n ∈ names
  named : ∀ i n, s.nameOf i = some n → n ∈ names

theorem coh_init (names : List String) (nm : Nat → Option String)
    (hnm : ∀ i n, nm i = some n → n ∈ names) : Coh names (State.init nm) :=
  ⟨fun _ _ => rfl, fun _ _ h => by simp [State.init] at h, fun _ _ h => by simp [State.init] at h, hnm⟩

/-- No object is bound under two names (a consequence of `owned`). -/
theorem Coh.injective {names s} (h : Coh names s) {n m : String} {o p : Obj}
    (hn : s.ns n = some o) (hm : s.ns m = some p) (hid : o.id = p.id) : n = m := by
  have a := (h.owned n o hn).2
  have b := (h.owned m p hm).2
  rw [hid] at a; rw [a] at b; exact Option.some.inj b

theorem not_aliased {names s o n} (h : aliased names s o n = false) :
    ∀ m p, m ∈ names → m ≠ n → s.ns m = some p → p.id ≠ o.id := by
  intro m p hm hne hp hid
  unfold aliased at h
  rw [List.any_eq_false] at h
  have := h m hm
  simp [hne, hp, hid] at this

theorem coh_addCore {names s o n} (h : Coh names s) (hn : n ∈ names)
    (hal : aliased names s o n = false) : Coh names (addCore s o n) := by
  have hna := not_aliased hal
  refine ⟨?_, ?_, ?_, ?_⟩
  · intro m k
    unfold addCore
    simp only []
    by_cases hm : m = n
    · simp [hm]
    · simp only [hm, if_false]; exact h.views m k
  · intro m p hp
    unfold addCore at hp ⊢
    simp only [] at hp ⊢
    by_cases hm : m = n
    · simp only [hm, if_true] at hp
      have : p = o := (Option.some.inj hp).symm
      subst this
      simp [hm]
    · simp only [hm, if_false] at hp
      have hpid : p.id ≠ o.id := hna m p (h.dom m p hp) hm hp
      obtain ⟨hpar, hname⟩ := h.owned m p hp
      simp only [hpid, if_false]
      refine ⟨?_, hname⟩
      cases hq : s.ns n with
      | none => simp only []; exact hpar
      | some q =>
        simp only []
        by_cases hqo : q.id = o.id
        · simp only [hqo, if_true]; exact hpar
        · simp only [hqo, if_false]
          have hne : p.id ≠ q.id := by
            intro hid
            exact hm (h.injective hp hq hid)
          simp only [hne, if_false]; exact hpar
  · intro m p hp
    unfold addCore at hp
    simp only [] at hp
    by_cases hm : m = n
    · rw [hm]; exact hn
    · simp only [hm, if_false] at hp; exact h.dom m p hp
  · intro i m hi
    unfold addCore at hi
    simp only [] at hi
    by_cases hio : i = o.id
    · simp only [hio, if_true] at hi
      rw [← Option.some.inj hi]; exact hn
    · simp only [hio, if_false] at hi; exact h.named i m hi

theorem coh_tryAdd {cfg names s o n} (h : Coh names s) (hn : n ∈ names) :
    Coh names (tryAdd cfg names s o n).1 := by
  unfold tryAdd
  split
  · exact h
  · split
    · exact h
    · split
      · exact h
      · split
        · exact h
        · split
          · exact h
          · rename_i hal
            exact coh_addCore h hn (by simpa using hal)

/-- One step preserves coherence. -/
theorem coh_step (cfg : Cfg) (names : List String) (s : State) (op : Op)
    (h : Coh names s) (hop : ∀ n ∈ op.names, n ∈ names) (hloc : op.local = true) :
    Coh names (step cfg names s op).1 := by
  cases op with
  | steal v k => simp [Op.local] at hloc
  | setattr key v =>
    by_cases hk : key ∈ cfg.priv
    · simp only [step, hk, if_true]; exact h
    · cases v with
      | other => simp only [step, hk, if_false]; exact h
      | hdl o => simp only [step, hk, if_false]; exact coh_tryAdd h (hop key (by simp [Op.names]))
  | add v name =>
    cases v with
    | other => exact h
    | hdl o =>
      unfold step
      simp only []
      cases name with
      | none =>
        cases hnm : s.nameOf o.id with
        | none => simp only []; exact h
        | some n =>
          simp only []
          exact coh_tryAdd h (h.named _ _ hnm)
      | some n =>
        cases hnm : s.nameOf o.id with
        | none => simp only []; exact coh_tryAdd h (hop n (by simp [Op.names]))
        | some _ => simp only []; exact h
  | get n => exact h
  | getattr n =>
    unfold step; simp only []
    split
    · exact h
    · split <;> exact h
  | delattr n => exact h
  | elaborate =>
    exact ⟨h.views, h.owned, h.dom, h.named⟩

/-- Coherence holds after every finite operation sequence. -/
theorem coh_run (cfg : Cfg) (names : List String) (ops : List Op) (s : State)
    (h : Coh names s) (hops : ∀ op ∈ ops, ∀ n ∈ op.names, n ∈ names)
    (hloc : ∀ op ∈ ops, op.local = true) :
    Coh names (run cfg names s ops).1 := by
  induction ops generalizing s with
  | nil => exact h
  | cons op ops ih =>
    unfold run
    simp only []
    apply ih
    · exact coh_step cfg names s op h (hops op (by simp)) (hloc op (by simp))
    · intro op' hop'; exact hops op' (by simp [hop'])
    · intro op' hop'; exact hloc op' (by simp [hop'])

/-- The part of coherence that survives adoption of objects by *other* containers
    (which rewrites their name and parent reference behind this container's back):
    the views still agree with the namespace and no object is bound under two names. -/
structure Coh' (names : List String) (s : State) : Prop where
  views : ∀ n k, s.view k n = (match s.ns n with
                               | some o => if k = o.kind then some o else none
                               | none => none)
  inj : ∀ n m o p, s.ns n = some o → s.ns m = some p → o.id = p.id → n = m
  dom : ∀ n o, s.ns n = some o → n ∈ names

theorem Coh.weaken {names s} (h : Coh names s) : Coh' names s :=
  ⟨h.views, fun _ _ _ _ hn hm hid => h.injective hn hm hid, h.dom⟩

theorem coh'_addCore {names s o n} (h : Coh' names s) (hn : n ∈ names)
    (hal : aliased names s o n = false) : Coh' names (addCore s o n) := by
  have hna := not_aliased hal
  refine ⟨?_, ?_, ?_⟩
  · intro m k
    unfold addCore; simp only []
    by_cases hm : m = n
    · simp [hm]
    · simp only [hm, if_false]; exact h.views m k
  · intro a b x y ha hb hid
    unfold addCore at ha hb; simp only [] at ha hb
    by_cases h1 : a = n <;> by_cases h2 : b = n
    · rw [h1, h2]
    · simp only [h1, if_true] at ha; simp only [h2, if_false] at hb
      have := hna b y (h.dom b y hb) h2 hb
      rw [← Option.some.inj ha] at hid
      exact absurd hid.symm this
    · simp only [h1, if_false] at ha; simp only [h2, if_true] at hb
      have := hna a x (h.dom a x ha) h1 ha
      rw [← Option.some.inj hb] at hid
      exact absurd hid this
    · simp only [h1, if_false] at ha; simp only [h2, if_false] at hb
      exact h.inj a b x y ha hb hid
  · intro m p hp
    unfold addCore at hp; simp only [] at hp
    by_cases hm : m = n
    · rw [hm]; exact hn
    · simp only [hm, if_false] at hp; exact h.dom m p hp

/-- Views/namespace agreement and one-name-per-object hold after **every** operation,
    including adoption of held objects by other containers in between. -/
theorem coh'_step (cfg : Cfg) (names : List String) (s : State) (op : Op)
    (h : Coh' names s) (hop : ∀ n ∈ op.names, n ∈ names)
    (hnamed : ∀ i n, s.nameOf i = some n → n ∈ names) : Coh' names (step cfg names s op).1 := by
  have tryAdd' : ∀ o n, n ∈ names → Coh' names (tryAdd cfg names s o n).1 := by
    intro o n hn
    unfold tryAdd
    split
    · exact h
    · split
      · exact h
      · split
        · exact h
        · split
          · exact h
          · split
            · exact h
            · rename_i hal; exact coh'_addCore h hn (by simpa using hal)
  cases op with
  | setattr key v =>
    by_cases hk : key ∈ cfg.priv
    · simp only [step, hk, if_true]; exact h
    · cases v with
      | other => simp only [step, hk, if_false]; exact h
      | hdl o => simp only [step, hk, if_false]; exact tryAdd' o key (hop key (by simp [Op.names]))
  | add v name =>
    cases v with
    | other => exact h
    | hdl o =>
      unfold step; simp only []
      cases name with
      | none =>
        cases hnm : s.nameOf o.id with
        | none => simp only []; exact h
        | some n => simp only []; exact tryAdd' o n (hnamed _ _ hnm)
      | some n =>
        cases hnm : s.nameOf o.id with
        | none => simp only []; exact tryAdd' o n (hop n (by simp [Op.names]))
        | some _ => simp only []; exact h
  | get n => exact h
  | getattr n =>
    unfold step; simp only []
    split
    · exact h
    · split <;> exact h
  | delattr n => exact h
  | elaborate => exact ⟨h.views, h.inj, h.dom⟩
  | steal v k =>
    cases v with
    | other => exact h
    | hdl o => exact ⟨h.views, h.inj, h.dom⟩

/-- Refinement to a plain map: `get` returns the namespace entry, a successful
    `setattr`/`add` binds exactly that name to exactly that object and changes no other
    binding; a rejected operation changes nothing at all. -/
theorem refines_map (cfg : Cfg) (names : List String) (s : State) (o : Obj) (n : String) :
    ((tryAdd cfg names s o n).2 = .ok →
        ∀ m, (tryAdd cfg names s o n).1.ns m = if m = n then some o else s.ns m) ∧
    ((tryAdd cfg names s o n).2 = .reject → (tryAdd cfg names s o n).1 = s) := by
  unfold tryAdd
  split
  · exact ⟨fun h => (by cases h), fun _ => rfl⟩
  · split
    · exact ⟨fun h => (by cases h), fun _ => rfl⟩
    · split
      · exact ⟨fun h => (by cases h), fun _ => rfl⟩
      · split
        · exact ⟨fun h => (by cases h), fun _ => rfl⟩
        · split
          · exact ⟨fun h => (by cases h), fun _ => rfl⟩
          · exact ⟨fun _ m => rfl, fun h => (by cases h)⟩

/-- Attribute access agrees with `get` for every non-native name. -/
theorem getattr_agrees (cfg : Cfg) (names : List String) (s : State) (n : String)
    (hn : n ∉ cfg.native) :
    (step cfg names s (.getattr n)).2 = (match s.ns n with | some o => .value (some o) | none => .reject) ∧
    (step cfg names s (.get n)).2 = .value (s.ns n) := by
  unfold step
  simp only [hn, if_false]
  constructor
  · split <;> simp_all
  · trivial

/-- Rejections: reserved names, non-HDL values, deletion, additions after elaboration,
    and a second name for an object that is already held. None of them changes the state. -/
theorem rejections (cfg : Cfg) (names : List String) (s : State) :
    (∀ o n, n ∈ cfg.banned → tryAdd cfg names s o n = (s, .reject)) ∧
    (∀ k, k ∉ cfg.priv → step cfg names s (.setattr k .other) = (s, .reject)) ∧
    (∀ nm, step cfg names s (.add .other nm) = (s, .reject)) ∧
    (∀ n, step cfg names s (.delattr n) = (s, .reject)) ∧
    (s.frozen = true → ∀ o n, tryAdd cfg names s o n = (s, .reject)) ∧
    (∀ o n, aliased names s o n = true → tryAdd cfg names s o n = (s, .reject)) := by
  refine ⟨?_, ?_, fun _ => rfl, fun _ => rfl, ?_, ?_⟩
  · intro o n hb; unfold tryAdd; simp [hb]
  · intro k hk; unfold step; simp [hk]
  · intro hf o n; unfold tryAdd; simp only [hf]; split <;> (try rfl); split <;> (try rfl); split <;> rfl
  · intro o n ha; unfold tryAdd; simp only [ha]; split <;> (try rfl); split <;> (try rfl); split <;> (try rfl); split <;> rfl

/-- **Names with a leading underscore are never HDL names**: `add` refuses them whatever is added, and an assignment to one stores a plain
    Python attribute — nothing is filed and the namespace is as it was (so that `get`, attribute access and the views cannot come to
    disagree about such a name). -/
theorem underscore_names (cfg : Cfg) (names : List String) (s : State) (n : String) (hn : n ∈ cfg.priv) :
    (∀ o, tryAdd cfg names s o n = (s, .reject)) ∧ (∀ v, step cfg names s (.setattr n v) = (s, .ok)) := by
  refine ⟨?_, ?_⟩
  · intro o; unfold tryAdd; simp only [hn]; split <;> rfl
  · intro v; unfold step; simp [hn]

/-- After `elaborate` every further addition is rejected. -/
theorem frozen_after_elab (cfg : Cfg) (names : List String) (s : State) (o : Obj) (n : String) :
    tryAdd cfg names (step cfg names s .elaborate).1 o n = ((step cfg names s .elaborate).1, .reject) :=
  (rejections cfg names _).2.2.2.2.1 rfl o n

/-! ### Table theorems over the regenerated name lists (G) -/

/-- Every name a Module answers natively is reserved (cannot be shadowed by an HDL attribute). -/
theorem module_native_reserved : ∀ n ∈ nativeAttrs, n ∈ banned := by decide
theorem bundle_native_reserved : ∀ n ∈ bundleNativeAttrs, n ∈ bundleBanned := by decide

/-! ### Non-vacuity: a kind-changing re-use of a name -/
example :
    let sig : Obj := ⟨0, .signal⟩
    let inst : Obj := ⟨1, .instance⟩
    let r := run moduleCfg ["q"] (State.init fun _ => none) [.setattr "q" (.hdl sig), .setattr "q" (.hdl inst)]
    r.1.view .signal "q" = none ∧ r.1.view .instance "q" = some inst ∧ r.1.ns "q" = some inst ∧
    r.1.parented 0 = false := by decide

end Hdl21.Props.C18
