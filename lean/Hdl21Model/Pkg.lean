/-
# vlsir.circuit.Package mirror, its netlister reading (`Sem.pkg`) and well-formedness (`WFpkg`)  — C01, C06

The reading is positional and most-significant first, as vlsirtools' spice / spectre / verilog
netlisters print: a signal as `w-1 … 0`, a slice as `top … bot` (inclusive), a concatenation as its
parts in order.  `readTarget` returns the *reverse* of that print order, i.e. the bits LSB first.
vlsirtools is outside the repository: this reading is modelled, and validated on every run against the
spice text `h.netlist` actually produced (harness/observe.py).
-/
import Hdl21Model.Nets
import Hdl21Model.Generated.PrimitivePorts
namespace Hdl21.Pkg
open Hdl21.Nets

inductive PTarget where
  | sig (n : String)
  | slice (n : String) (top bot : Nat)
  | concat (parts : List PTarget)
  deriving Repr, Inhabited

inductive PRef where
  | loc (name : String)
  | ext (domain name : String)
  deriving Repr, DecidableEq, Inhabited

structure PInst where
  name : String
  ref : PRef
  params : List (String × String)          -- (name, canonical value text)
  conns : List (String × PTarget)
  deriving Repr, Inhabited

structure PModule where
  name : String
  signals : List (String × Nat)
  ports : List (String × String)           -- (signal, direction)
  instances : List PInst
  deriving Repr, Inhabited

structure PExt where
  domain : String
  name : String
  signals : List (String × Nat)
  ports : List (String × String)
  deriving Repr, Inhabited

structure Package where
  modules : List PModule
  exts : List PExt
  deriving Repr, Inhabited

def lookup (k : String) : List (String × Nat) → Option Nat
  | [] => none
  | (a, b) :: rest => if a = k then some b else lookup k rest

mutual
/-- Bits of a connection target, least significant first. -/
def readTarget (ws : List (String × Nat)) : PTarget → List (String × Nat)
  | .sig n => (List.range ((lookup n ws).getD 0)).map (fun i => (n, i))
  | .slice n top bot => (List.range (top + 1 - bot)).map (fun i => (n, bot + i))
  | .concat parts => readParts ws parts
/-- The parts are listed most significant first: the last part holds the lowest bits. -/
def readParts (ws : List (String × Nat)) : List PTarget → List (String × Nat)
  | [] => []
  | p :: rest => readParts ws rest ++ readTarget ws p
end

def atomOf (b : String × Nat) : Atom := ⟨"s:" ++ b.1, [], b.2⟩

/-- Front-end: one package module as a flat module. -/
def toFMod (m : PModule) : FMod :=
  let portBits := m.ports.flatMap (fun (p, _) =>
    (List.range ((lookup p m.signals).getD 0)).map (fun i => (⟨p, i⟩, atomOf (p, i))))
  let leaf := m.instances.flatMap (fun inst => match inst.ref with
    | .ext _ _ => inst.conns.flatMap (fun (port, t) =>
        (readTarget m.signals t).zipIdx.map (fun (b, i) => ((⟨[inst.name], port, i⟩ : Term), atomOf b)))
    | .loc _ => [])
  let children := m.instances.filterMap (fun inst => match inst.ref with
    | .loc name => some (⟨inst.name, name, inst.conns.flatMap (fun (port, t) =>
          (readTarget m.signals t).zipIdx.map (fun (b, i) => ((⟨port, i⟩ : PortBit), atomOf b)))⟩ : Child)
    | .ext _ _ => none)
  { name := m.name, portBits := portBits, joins := [], leafTerms := leaf, children := children }

/-- `Sem.pkg`: the partition of observable bits of module `top` as the netlisters read the package. -/
def semPkg (p : Package) (top : String) : Except String (List (List String)) :=
  partition (p.modules.map toFMod) top

/-- Leaf devices below `top`: (instance path, "domain.name", parameters). -/
partial def devices (p : Package) (top : String) (pre : List String) : List (String × String × List (String × String)) :=
  match p.modules.find? (fun m => m.name == top) with
  | none => []
  | some m => m.instances.flatMap (fun inst => match inst.ref with
    | .ext d n => [("/".intercalate (pre ++ [inst.name]), d ++ "." ++ n, inst.params)]
    | .loc name => devices p name (pre ++ [inst.name]))

/-! ### Well-formedness (C06) -/

def dups (l : List String) : List String :=
  match l with
  | [] => []
  | x :: xs => if xs.contains x then x :: dups xs else dups xs

mutual
/-- Problems of one connection target: undeclared signals, slices outside their signal. -/
def targetProblems (ws : List (String × Nat)) : PTarget → List String
  | .sig n => if (lookup n ws).isSome then [] else [s!"undeclared signal {n}"]
  | .slice n top bot =>
    match lookup n ws with
    | none => [s!"undeclared signal {n}"]
    | some w => if bot ≤ top ∧ top < w then [] else [s!"slice {n}[{top}:{bot}] outside width {w}"]
  | .concat parts => partsProblems ws parts
def partsProblems (ws : List (String × Nat)) : List PTarget → List String
  | [] => []
  | p :: rest => targetProblems ws p ++ partsProblems ws rest
end

/-- Ports (name, width) of an instance target, if it resolves. -/
def targetPorts (p : Package) (earlier : List PModule) : PRef → Option (List (String × Nat))
  | .loc name => (earlier.find? (fun m => m.name == name)).map (fun m =>
      m.ports.map (fun (s, _) => (s, (lookup s m.signals).getD 0)))
  | .ext d n =>
    match p.exts.find? (fun e => e.domain == d && e.name == n) with
    | some e => some (e.ports.map (fun (s, _) => (s, (lookup s e.signals).getD 0)))
    | none => (primitivePorts.find? (fun r => r.1 == d && r.2.1 == n)).map (·.2.2)

def instProblems (p : Package) (earlier : List PModule) (m : PModule) (inst : PInst) : List String :=
  match targetPorts p earlier inst.ref with
  | none => [s!"{m.name}.{inst.name}: unresolved reference {repr inst.ref}"]
  | some ports =>
    let names := inst.conns.map (·.1)
    (dups names).map (fun n => s!"{m.name}.{inst.name}: port {n} connected twice") ++
    (names.filter (fun n => !(ports.map (·.1)).contains n)).map (fun n => s!"{m.name}.{inst.name}: no port {n}") ++
    ((ports.map (·.1)).filter (fun n => !names.contains n)).map (fun n => s!"{m.name}.{inst.name}: port {n} unconnected") ++
    inst.conns.flatMap (fun (port, t) =>
      (targetProblems m.signals t).map (fun e => s!"{m.name}.{inst.name}.{port}: {e}") ++
      (match lookup port ports with
       | some w => if (readTarget m.signals t).length = w then [] else
           [s!"{m.name}.{inst.name}.{port}: width {(readTarget m.signals t).length} on port of width {w}"]
       | none => []))

def moduleProblems (p : Package) (earlier : List PModule) (m : PModule) : List String :=
  (dups (m.signals.map (·.1))).map (fun n => s!"{m.name}: duplicate signal {n}") ++
  (dups (m.ports.map (·.1))).map (fun n => s!"{m.name}: duplicate port {n}") ++
  ((m.ports.map (·.1)).filter (fun n => (lookup n m.signals).isNone)).map (fun n => s!"{m.name}: port {n} has no signal") ++
  (dups (m.instances.map (·.name))).map (fun n => s!"{m.name}: duplicate instance {n}") ++
  (m.signals.filter (fun s => s.2 = 0)).map (fun s => s!"{m.name}: zero-width signal {s.1}") ++
  m.instances.flatMap (instProblems p earlier m)

def problemsFrom (p : Package) : List PModule → List PModule → List String
  | _, [] => []
  | earlier, m :: rest => moduleProblems p earlier m ++ problemsFrom p (earlier ++ [m]) rest

/-- All violations of the C06 clauses; the package is well-formed iff the list is empty. -/
def problems (p : Package) : List String :=
  (dups (p.modules.map (·.name))).map (fun n => s!"duplicate module {n}") ++
  (dups (p.exts.map (fun e => e.domain ++ "." ++ e.name))).map (fun n => s!"duplicate external module {n}") ++
  problemsFrom p [] p.modules

def WFpkg (p : Package) : Bool := (problems p).isEmpty

end Hdl21.Pkg
