/-
# Built-in generators (hdl21/generators.py: Series, MosStack, Wrapper)                        — C19

`Series(unit, nser = n, conns = (first, second))`, n ≥ 2, builds
    i      = Signal(width = n-1)
    units  = n * unit(first  = Concat(first_port, i),      -- LSB first: bit 0 is the module's port
                      second = Concat(i, second_port),     --            bit n-1 is the module's port
                      every other port p = module port p)
An array connection as wide as n scalar ports is wired element by element (element k gets bit k), one as
wide as the port itself is broadcast.  `n = 1` returns `Wrapper(unit)`.  `MosStack` is `Series` over
("d", "s").  The model gives, for unit `k` and unit port `p`, the net it is on.
-/
namespace Hdl21.Builtin

inductive Net (α : Type)
  | port (p : α)          -- the module's port of that name
  | chain (j : Nat)       -- bit j of the internal signal `i`
  deriving DecidableEq, Repr

variable {α : Type} [DecidableEq α]

/-- `Concat(first_port, i)`, bit by bit, LSB first -/
def firstBits (n : Nat) (first : α) : List (Net α) := Net.port first :: (List.range (n - 1)).map Net.chain

/-- `Concat(i, second_port)` -/
def secondBits (n : Nat) (second : α) : List (Net α) := (List.range (n - 1)).map Net.chain ++ [Net.port second]

/-- The net of port `p` of unit `k`. `none`: there is no unit `k`. -/
def seriesNet (n : Nat) (first second : α) (k : Nat) (p : α) : Option (Net α) :=
  if n ≤ k then none
  else if n = 1 then some (.port p)                       -- `Wrapper(unit)`
  else if p = first then (firstBits n first)[k]?
  else if p = second then (secondBits n second)[k]?
  else some (.port p)

/-- `Wrapper(m)`: one instance `inner`, every port on the same-named port of the wrapper. -/
def wrapperNet (p : α) : Net α := .port p

/-- `Series` refuses `nser < 1`; a series port must be a scalar signal port of the unit for `n ≥ 2`
    (a wider one makes both concatenations too wide or too narrow for the array, which elaboration refuses). -/
def seriesAccepts (n : Nat) (widthFirst widthSecond : Option Nat) : Bool :=
  decide (1 ≤ n) && (n == 1 && widthFirst.isSome && widthSecond.isSome || widthFirst == some 1 && widthSecond == some 1)

end Hdl21.Builtin
