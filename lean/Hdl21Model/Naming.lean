/-
# Generator naming and memoisation (hdl21/params.py:_unique_name/_scalar_name,
#                                    hdl21/generator.py:run)                         — C09

Strings are `List Char` so that the parsing argument is by structural induction.
-/
namespace Hdl21.Naming

/-- A scalar parameter value as it enters the readable name: a string (quoted), or an atom —
    the `str()` of an int / float / None, which contains no space and does not start with `"`. -/
inductive Value where
  | str (s : List Char)
  | atom (text : List Char)
  deriving Repr, DecidableEq

/-- `_scalar_name` on a string: backslash and double quote are escaped, the result is wrapped in
    double quotes. -/
def escape : List Char → List Char
  | [] => []
  | c :: cs => if c = '\\' then '\\' :: '\\' :: escape cs
               else if c = '"' then '\\' :: '"' :: escape cs
               else c :: escape cs

def quote (s : List Char) : List Char := '"' :: (escape s ++ ['"'])

def encode : Value → List Char
  | .str s => quote s
  | .atom t => t

/-- What `str()` of a number or None looks like, as far as the name format cares. -/
def wfAtom (t : List Char) : Prop := t ≠ [] ∧ ' ' ∉ t ∧ t.head? ≠ some '"'

def Value.wf : Value → Prop
  | .str _ => True
  | .atom t => wfAtom t

/-- `" ".join(f"{k}={_scalar_name(v)}" …)` -/
def readable : List (List Char × Value) → List Char
  | [] => []
  | [(k, v)] => k ++ '=' :: encode v
  | (k, v) :: rest => k ++ '=' :: encode v ++ ' ' :: readable rest

/-- Parse an escaped body up to the closing quote: returns (content, remainder after the quote). -/
def unescape : List Char → Option (List Char × List Char)
  | [] => none
  | [c] => if c = '"' then some ([], []) else none
  | c :: d :: rest =>
    if c = '"' then some ([], d :: rest)
    else if c = '\\' then
      match unescape rest with
      | some (s, r) => some (d :: s, r)
      | none => none
    else
      match unescape (d :: rest) with
      | some (s, r) => some (c :: s, r)
      | none => none

/-! ## Generator cache -/

/-- A generator call key: generator identity and parameter value (abstract ids; key equality is
    `GeneratorCall.__eq__`). -/
structure Call where
  gen : Nat
  params : Nat
  deriving Repr, DecidableEq

/-- What a generator body does: runs nested calls, then returns a fresh module, or hands on the
    module returned by its `k`-th nested call (as `MosStack` does with `Series`). -/
inductive Body where
  | fresh (nested : List Call)
  | forward (nested : List Call) (k : Nat)
  deriving Repr

structure St where
  done : List (Call × Nat)        -- Generator.Cache.done: call ↦ module id
  next : Nat                      -- next fresh module id
  nameOf : List (Nat × Call)      -- module id ↦ the call whose name it carries (set once)
  genBy : List (Nat × Call)       -- module._generated_by (last generator that returned it)
  runs : List Call                -- log of body executions
  deriving Repr

def St.init : St := ⟨[], 0, [], [], []⟩

def lookup {α β} [DecidableEq α] (k : α) : List (α × β) → Option β
  | [] => none
  | (a, b) :: rest => if a = k then some b else lookup k rest

mutual
/-- `generator.run(call)` with fuel for the nesting depth. Returns the module id. -/
def run (prog : Call → Body) : Nat → St → Call → Option (St × Nat)
  | 0, _, _ => none
  | fuel + 1, s, c =>
    match lookup c s.done with
    | some m => some (s, m)
    | none =>
      let s1 := { s with runs := c :: s.runs }
      match prog c with
      | .fresh nested =>
        match runAll prog fuel s1 nested with
        | none => none
        | some (s2, _) =>
          let m := s2.next
          some ({ s2 with next := m + 1, nameOf := (m, c) :: s2.nameOf, genBy := (m, c) :: s2.genBy,
                          done := (c, m) :: s2.done }, m)
      | .forward nested k =>
        match runAll prog fuel s1 nested with
        | none => none
        | some (s2, ms) =>
          match ms[k]? with
          | none => none
          | some m =>
            -- already named by the generator that built it: keep the name, update `_generated_by`
            some ({ s2 with genBy := (m, c) :: s2.genBy, done := (c, m) :: s2.done }, m)
def runAll (prog : Call → Body) : Nat → St → List Call → Option (St × List Nat)
  | _, s, [] => some (s, [])
  | fuel, s, c :: cs =>
    match run prog fuel s c with
    | none => none
    | some (s1, m) =>
      match runAll prog fuel s1 cs with
      | none => none
      | some (s2, ms) => some (s2, m :: ms)
end

/-- `GeneratorCache.reset()`: the memo is emptied; modules made so far stay what they are, new ones get new identities -/
def St.reset (s : St) : St := { s with done := [] }

end Hdl21.Naming
