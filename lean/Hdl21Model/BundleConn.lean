/-
# Re-connection of bundle-valued ports (hdl21/elab/passes/flatten_bundles.py:
#   replace_bundle_inst, replace_bundle_conn, flatten_anonymous_bundle, resolve_bundleref, resolve_path)           — C01, C10

After `BundleFlattener` a bundle-valued port `p` of an instance is a set of scalar ports `p_π`, one per leaf path `π` of the
port's bundle type, and whatever was connected to `p` — a bundle instance, a reference to a sub-bundle of one, an anonymous
bundle whose members are scalar connectables, references to leaves, bundle instances, references to sub-bundles, further
anonymous bundles — has been turned into a *scope*: a tree of scalar connectables by member name (`BundleScope`).  The flattened
port `p_π` is connected to what the scope holds at path `π`.

The scalar signals a bundle instance `b` flattens to are named by `nm b π` (`flatname([b, π.to_name()], avoid=namespace)`: which
name is invented is C05's business; here `nm` is a parameter).
-/
import Hdl21Model.Conn
import Hdl21Model.Bundles
namespace Hdl21.BundleConn
open Hdl21 Hdl21.Bundles

/-- `BundleScope`: scalar connectables and sub-scopes by member name -/
inductive Scope where
  | leaf (c : SConn)
  | node (members : List (String × Scope))
  deriving Repr, Inhabited

/-- what may be connected to a bundle-valued port, and what a member of an anonymous bundle may be -/
inductive BConn where
  | inst (name : String)                         -- a BundleInstance of the module
  | ref (root : String) (path : List String)     -- a BundleRef `root.a.b` (to a sub-bundle, or to a leaf signal)
  | scalar (c : SConn)                           -- a Signal / Slice / Concat (members of anonymous bundles only)
  | anon (fields : List (String × BConn))        -- an AnonymousBundle
  deriving Repr, Inhabited

/-- the bundle instances of the module: name ↦ definition tree -/
abbrev Env := List (String × BTree)

def lookupEnv (b : String) : Env → Option BTree
  | [] => none
  | (n, t) :: rest => if n = b then some t else lookupEnv b rest

mutual
/-- `flatten_bundle_inst_helper` as far as connections care: every leaf of the tree, by path, as the signal `nm b path` -/
def scopeOf (nm : String → List String → String) (b : String) (pre : List String) : BTree → Scope
  | .node sigs subs => .node (sigs.map (fun l => (l.name, Scope.leaf (.sig (nm b (pre ++ [l.name])) l.width))) ++ scopeSubs nm b pre subs)
def scopeSubs (nm : String → List String → String) (b : String) (pre : List String) :
    List (String × Bool × Option String × BTree) → List (String × Scope)
  | [] => []
  | (n, _, _, t) :: rest => (n, scopeOf nm b (pre ++ [n]) t) :: scopeSubs nm b pre rest
end

def lookupMember (k : String) : List (String × Scope) → Option Scope
  | [] => none
  | (n, s) :: rest => if n = k then some s else lookupMember k rest

/-- `resolve_path` -/
def Scope.at : Scope → List String → Option Scope
  | s, [] => some s
  | .leaf _, _ :: _ => none
  | .node ms, k :: rest => match lookupMember k ms with
    | some s => s.at rest
    | none => none

mutual
/-- `replace_bundle_inst` / `resolve_bundleref` / `flatten_anonymous_bundle`: the scope of a connection -/
def resolve (nm : String → List String → String) (env : Env) : BConn → Except String Scope
  | .inst b => match lookupEnv b env with
    | some t => .ok (scopeOf nm b [] t)
    | none => .error s!"no bundle instance {b}"
  | .ref root path => match lookupEnv root env with
    | some t => match (scopeOf nm root [] t).at path with
      | some s => .ok s
      | none => .error s!"cannot resolve path {path} in {root}"
    | none => .error s!"no bundle instance {root}"
  | .scalar c => .ok (.leaf c)
  | .anon fields => match resolveFields nm env fields with
    | .ok ms => .ok (.node ms)
    | .error e => .error e
def resolveFields (nm : String → List String → String) (env : Env) : List (String × BConn) → Except String (List (String × Scope))
  | [] => .ok []
  | (f, c) :: rest => match resolve nm env c, resolveFields nm env rest with
    | .ok s, .ok ms => .ok ((f, s) :: ms)
    | .error e, _ => .error e
    | _, .error e => .error e
end

/-- `replace_bundle_conn`: every leaf path of the *port's* bundle type, in order, with what the scope holds there; a path the
    scope does not hold (or holds a sub-scope at) is a refusal ("Missing connection to `path`") -/
def connect (port : String) : List (List String) → Scope → Except String (List (String × SConn))
  | [], _ => .ok []
  | π :: rest, s =>
    match s.at π with
    | some (.leaf c) => match connect port rest s with
      | .ok cs => .ok ((flatName port π, c) :: cs)
      | .error e => .error e
    | _ => .error s!"missing connection to {π}"

/-- the whole step for one connection of one instance -/
def reconnect (nm : String → List String → String) (env : Env) (port : String) (portTree : BTree) (c : BConn) :
    Except String (List (String × SConn)) :=
  match resolve nm env c with
  | .ok s => connect port ((flatten false false none portTree).map (·.path)) s
  | .error e => .error e

/-! ## the declarative reading: which scalar connectable is member `π` of a connection -/

mutual
/-- the width of the leaf at `π`, if the tree has one there -/
def leafWidth : BTree → List String → Option Nat
  | .node sigs _, [n] => (sigs.find? (fun l => l.name = n)).map (·.width)
  | .node _ subs, n :: rest => leafWidthSubs subs n rest
  | _, [] => none
def leafWidthSubs : List (String × Bool × Option String × BTree) → String → List String → Option Nat
  | [], _, _ => none
  | (m, _, _, t) :: more, n, rest => if m = n then leafWidth t rest else leafWidthSubs more n rest
end

end Hdl21.BundleConn
