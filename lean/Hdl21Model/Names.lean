/-
# Invented names (hdl21/elab/passes/base.py:ElabPass.flatname)                          — C05

`flatname(segments, avoid=module.namespace, maxlen=511)`: join the segments with `_`, then append
underscores until the name is not a key of `avoid`; fail once the name is longer than `maxlen`.
Names are `List Char` (the argument is about lengths).
-/
namespace Hdl21.Names

abbrev Name := List Char

def join : List Name → Name
  | [] => []
  | [s] => s
  | s :: rest => s ++ '_' :: join rest

/-- The `while True` loop, with the number of remaining iterations as fuel. -/
def flatLoop (avoid : List Name) (maxlen : Nat) : Nat → Name → Option Name
  | 0, _ => none
  | fuel + 1, name =>
    if name.length > maxlen then none
    else if name ∉ avoid then some name
    else flatLoop avoid maxlen fuel (name ++ ['_'])

def flatname (segments : List Name) (avoid : List Name) (maxlen : Nat := 511) : Option Name :=
  flatLoop avoid maxlen (maxlen + 2) (join segments)

/-- Adding an attribute under a name (`module.add`, after the C18 repair: one object per name). -/
def insertName (ns : List Name) (n : Name) : List Name := n :: ns

end Hdl21.Names

namespace Hdl21.Names

/-- What a rewriting pass does with a batch of things to name (the flattened members of a bundle instance, the elements of an
    array, the instances of an instance bundle): name the first against the *live* namespace, insert it, go on.
    Returns the namespace afterwards and the invented names in order; fails as soon as one `flatname` does. -/
def inventAll (ns : List Name) (maxlen : Nat) : List (List Name) → Option (List Name × List Name)
  | [] => some (ns, [])
  | segs :: rest =>
    match flatname segs ns maxlen with
    | none => none
    | some r =>
      match inventAll (insertName ns r) maxlen rest with
      | none => none
      | some (ns', rs) => some (ns', r :: rs)

end Hdl21.Names

namespace Hdl21.Names

/-- The same batch step for *any* way of choosing a name: `choose ns segs` is whatever the code at hand does to find a name for
    `segs` next to the names `ns` (append underscores, count up, give up). -/
def inventAllWith (choose : List Name → List Name → Option Name) (ns : List Name) : List (List Name) → Option (List Name × List Name)
  | [] => some (ns, [])
  | segs :: rest =>
    match choose ns segs with
    | none => none
    | some r =>
      match inventAllWith choose (insertName ns r) rest with
      | none => none
      | some (ns', rs) => some (ns', r :: rs)

end Hdl21.Names
