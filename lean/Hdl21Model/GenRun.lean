/-
# Generator calls that fail (hdl21/generator.py: run, GeneratorCache)                                   — C08 (and C09)

`run(call)`: return the cached module if there is one; refuse a call that is already pending (circular); mark it
pending, run the body, and — whether the body returned or raised — take the mark off again; cache the result only
if the body returned.  What the body does is given from outside, per call (`Outcome`): the same call may fail once
and succeed later.
-/
namespace Hdl21.GenRun

abbrev Call := Nat
abbrev Mod := Nat

inductive Outcome
  | ok (m : Mod)       -- the body returns module `m`
  | raises             -- the body (or the result check / naming) raises
  deriving DecidableEq, Repr

structure Cache where
  done : List (Call × Mod)
  pending : List Call
  stack : List Call
  deriving DecidableEq, Repr

def Cache.init : Cache := ⟨[], [], []⟩

def lookup (c : Call) : List (Call × Mod) → Option Mod
  | [] => none
  | (k, v) :: r => if k = c then some v else lookup c r

inductive Result
  | module (m : Mod)
  | circular
  | failed
  deriving DecidableEq, Repr

/-- `run(call)` with the body's behaviour this time -/
def run (s : Cache) (c : Call) (body : Outcome) : Cache × Result :=
  match lookup c s.done with
  | some m => (s, .module m)
  | none =>
    if c ∈ s.pending then (s, .circular)      -- stack pushed and popped again
    else
      match body with
      | .raises => (s, .failed)               -- pending.discard(call); stack.pop()
      | .ok m => ({ s with done := (c, m) :: s.done }, .module m)

def runAll (s : Cache) : List (Call × Outcome) → Cache
  | [] => s
  | (c, o) :: r => runAll (run s c o).1 r

end Hdl21.GenRun
