/-
# Generator calls that fail (hdl21/generator.py: run, GeneratorCache)                                   — C08 (and C09)

`run(call)`: return the cached module if there is one; refuse a call that is already pending (circular); mark it
pending, run the body, and — whether the body returned or raised — take the mark off again; cache the result only
if the body returned.  What the body does is given from outside, per call (`Outcome`): the same call may fail once
and succeed later.
-/
namespace Hdl21.GenRun

abbrev Call := Nat
abbrev Mod := Nat

inductive Outcome
  | ok (m : Mod)       -- the body returns module `m`
  | raises             -- the body (or the result check / naming) raises
  deriving DecidableEq, Repr

structure Cache where
  done : List (Call × Mod)
  pending : List Call
  stack : List Call
  deriving DecidableEq, Repr

def Cache.init : Cache := ⟨[], [], []⟩

def lookup (c : Call) : List (Call × Mod) → Option Mod
  | [] => none
  | (k, v) :: r => if k = c then some v else lookup c r

inductive Result
  | module (m : Mod)
  | circular
  | failed
  deriving DecidableEq, Repr

/-- `run(call)` with the body's behaviour this time -/
def run (s : Cache) (c : Call) (body : Outcome) : Cache × Result :=
  match lookup c s.done with
  | some m => (s, .module m)
  | none =>
    if c ∈ s.pending then (s, .circular)      -- stack pushed and popped again
    else
      match body with
      | .raises => (s, .failed)               -- pending.discard(call); stack.pop()
      | .ok m => ({ s with done := (c, m) :: s.done }, .module m)

def runAll (s : Cache) : List (Call × Outcome) → Cache
  | [] => s
  | (c, o) :: r => runAll (run s c o).1 r

end Hdl21.GenRun

/-! ## Generators that call generators

A body, this time it runs, makes some generator calls of its own — each with the body *that* call would run — and either
lets a failure among them propagate or catches it (`try: Inner(bad) except: fallback`), then returns or raises. -/
namespace Hdl21.GenRun

inductive Ev
  | call (c : Call) (nested : List Ev) (catches : Bool) (out : Outcome)

mutual
def runEv (s : Cache) : Ev → Cache × Result
  | .call c nested catches out =>
    match lookup c s.done with
    | some m => (s, .module m)                                   -- cached: the body does not run
    | none =>
      if c ∈ s.pending then (s, .circular)
      else
        let r := runBody { s with pending := c :: s.pending, stack := c :: s.stack } catches nested
        let s₃ : Cache := { r.1 with pending := r.1.pending.erase c, stack := r.1.stack.tail }
        match r.2 with
        | some f => (s₃, f)                                      -- a nested failure propagates, as the exception it is
        | none =>
          match out with
          | .raises => (s₃, .failed)
          | .ok m => ({ s₃ with done := (c, m) :: s₃.done }, .module m)
/-- the nested calls of a body, in order: `some f` when one of them failed with `f` and the body did not catch it -/
def runBody (s : Cache) (catches : Bool) : List Ev → Cache × Option Result
  | [] => (s, none)
  | e :: r =>
    let q := runEv s e
    match q.2 with
    | .module _ => runBody q.1 catches r
    | .circular => if catches then runBody q.1 catches r else (q.1, some .circular)
    | .failed => if catches then runBody q.1 catches r else (q.1, some .failed)
end

/-! `cyc anc e`: the event tree itself asks for a call from inside a call with the same key (or one of `anc`) -/
mutual
def cyc (anc : List Call) : Ev → Bool
  | .call c nested _ _ => decide (c ∈ anc) || cycL (c :: anc) nested
def cycL (anc : List Call) : List Ev → Bool
  | [] => false
  | e :: r => cyc anc e || cycL anc r
end

def runEvs (s : Cache) : List Ev → Cache
  | [] => s
  | e :: r => runEvs (runEv s e).1 r

end Hdl21.GenRun
