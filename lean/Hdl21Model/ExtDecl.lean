/-
# External-module declarations of a package (hdl21/proto/exporting.py: ProtoExporter.export_external_module)          — C06

Each `ExternalModule` object met by the exporter is written out; if the package already holds a declaration of that qualified
name it must be *the same* declaration (then it is shared), a different one is an error.  A declaration is everything the
package says about it: qualified name, spice type, signals with widths, ports with directions.
-/
namespace Hdl21.ExtDecl

structure Decl where
  domain : String
  name : String
  spicetype : String
  signals : List (String × Nat)
  ports : List (String × String)
  deriving DecidableEq, Repr

def Decl.key (d : Decl) : String × String := (d.domain, d.name)

/-- `export_external_module` against the declarations written so far: the list afterwards, or `none` for the conflict error -/
def declare (pkg : List Decl) (d : Decl) : Option (List Decl) :=
  match pkg.find? (fun o => o.key = d.key) with
  | some o => if o = d then some pkg else none
  | none => some (pkg ++ [d])

/-- all the external modules a design uses, in the order the exporter meets them -/
def declareAll (pkg : List Decl) : List Decl → Option (List Decl)
  | [] => some pkg
  | d :: ds => match declare pkg d with
    | some pkg' => declareAll pkg' ds
    | none => none

end Hdl21.ExtDecl
