/-
# hdl21.flatten (hdl21/flatten.py: walk, flatten, _find_signal_or_port, is_flat)                    — C16

Input: an *elaborated* hierarchy in which every connection is a whole signal of the instantiating
module (slices and concatenations are refused by the code with `NotImplementedError`, before anything
is built).  A net of the hierarchy is identified by the path of instances leading to the module that
declares it and its name there (`NetId`); `walk` hands each child the nets its ports are bound to.
`flatten` then re-creates signals and instances **by name**: a net is called `":".join(path + [name])`,
a leaf instance `":".join(path)`.  That is sound exactly when those joined names are distinct for
distinct nets and distinct leaves; otherwise the code raises (`collision`).
-/
namespace Hdl21.Flatten

/-- names are character lists, so that joined names compute inside the kernel -/
abbrev Name := List Char
abbrev NetId := List Name × Name

inductive Target
  | leaf (kind : String)      -- PrimitiveCall / ExternalModuleCall
  | mod (idx : Nat)
  deriving Repr, DecidableEq

structure FInst where
  name : Name
  target : Target
  conns : List (Name × Name)      -- port ↦ name of a signal or port of the instantiating module
  deriving Repr

structure FMod where
  name : Name
  ports : List Name
  signals : List Name             -- internal signals
  insts : List FInst
  deriving Repr

/-- a leaf of the hierarchy, as `walk` yields it (`FlattenedInstance`) -/
structure FNode where
  path : List Name                -- instance names from the top down, the leaf's own name last
  kind : String
  conns : List (Name × NetId)
  deriving Repr, DecidableEq

abbrev Env := List (Name × NetId)

def envGet (env : Env) (k : Name) : Option NetId := (env.find? (·.1 == k)).map (·.2)

/-- the net a connection `key` of an instance inside module `m` (reached by `parents`) lands on -/
def bindKey (m : FMod) (parents : List Name) (env : Env) (key : Name) : Option NetId :=
  match envGet env key with
  | some id => some id
  | none => if key ∈ m.signals ∨ key ∈ m.ports then some (parents, key) else none   -- else: ValueError

def bindConns (m : FMod) (parents : List Name) (env : Env) : List (Name × Name) → Option (List (Name × NetId))
  | [] => some []
  | (p, key) :: rest =>
    match bindKey m parents env key, bindConns m parents env rest with
    | some id, some r => some ((p, id) :: r)
    | _, _ => none

/-- what one instance contributes, given what the recursive call does for child modules -/
def walkInst (mods : Nat → Option FMod) (rec : FMod → List Name → Env → Option (List FNode))
    (m : FMod) (parents : List Name) (env : Env) (i : FInst) : Option (List FNode) :=
  match bindConns m parents env i.conns with
  | none => none
  | some nc =>
    match i.target with
    | .leaf k => some [{ path := parents ++ [i.name], kind := k, conns := nc }]
    | .mod idx =>
      match mods idx with
      | none => none
      | some child => rec child (parents ++ [i.name]) nc

def walkList (f : FInst → Option (List FNode)) : List FInst → Option (List FNode)
  | [] => some []
  | i :: rest =>
    match f i, walkList f rest with
    | some a, some b => some (a ++ b)
    | _, _ => none

/-- `walk`. `none` = the code raises (unknown signal, or — with the fuel exhausted — circular hierarchy). -/
def walk (mods : Nat → Option FMod) : Nat → FMod → List Name → Env → Option (List FNode)
  | 0, _, _, _ => none
  | fuel + 1, m, parents, env => walkList (walkInst mods (walk mods fuel) m parents env) m.insts

def joinNames (l : List Name) : Name := [':'].intercalate l
def netName (id : NetId) : Name := joinNames (id.1 ++ [id.2])
def leafName (n : FNode) : Name := joinNames n.path

/-- every net the flat module will hold: the top's ports, then what the leaves are connected to -/
def usedIds (ports : List Name) (nodes : List FNode) : List NetId :=
  ports.map (fun p => ([], p)) ++ nodes.flatMap (fun n => n.conns.map (·.2))

/-- two different nets under one name -/
def netClash (ids : List NetId) : Bool :=
  ids.any fun a => ids.any fun b => a != b && netName a == netName b

def leafClash (nodes : List FNode) : Bool :=
  !(decide (nodes.map leafName).Nodup)

/-- a leaf that would be named like a net of the flat module (`module.add` would put the instance in the net's place) -/
def crossClash (ids : List NetId) (nodes : List FNode) : Bool :=
  nodes.any fun n => ids.any fun id => leafName n == netName id

structure FlatInst where
  name : Name
  kind : String
  conns : List (Name × Name)
  deriving Repr, DecidableEq

structure Flat where
  name : Name
  ports : List Name
  signals : List Name             -- names of internal signals, in order of first use
  insts : List FlatInst
  deriving Repr

inductive Err | walkFailed | collision
  deriving Repr, DecidableEq

def dedup (l : List Name) : List Name := l.foldl (fun acc x => if x ∈ acc then acc else acc ++ [x]) []

def isFlat (m : FMod) : Bool := m.insts.all fun i => match i.target with | .leaf _ => true | .mod _ => false

/-- `flatten(m)` for a module that is not flat already (a flat one is returned as it is). -/
def flatten (mods : Nat → Option FMod) (fuel : Nat) (top : FMod) : Except Err Flat :=
  match walk mods fuel top [] (top.signals.map (fun s => (s, ([], s))) ++ top.ports.map (fun s => (s, ([], s)))) with
  | none => .error .walkFailed
  | some nodes =>
    if netClash (usedIds top.ports nodes) || leafClash nodes || crossClash (usedIds top.ports nodes) nodes then .error .collision
    else .ok {
      name := top.name ++ "_flat".toList
      ports := top.ports
      signals := dedup ((nodes.flatMap (fun n => n.conns.map (fun c => netName c.2))).filter (fun s => s ∉ top.ports))
      insts := nodes.map fun n => { name := leafName n, kind := n.kind, conns := n.conns.map fun c => (c.1, netName c.2) } }

def countInst (mods : Nat → Option FMod) (rec : FMod → Nat) (i : FInst) : Nat :=
  match i.target with
  | .leaf _ => 1
  | .mod idx => match mods idx with
    | none => 0
    | some child => rec child

/-- number of leaves below a module -/
def leafCount (mods : Nat → Option FMod) : Nat → FMod → Nat
  | 0, _ => 0
  | fuel + 1, m => (m.insts.map (countInst mods (leafCount mods fuel))).sum

end Hdl21.Flatten
