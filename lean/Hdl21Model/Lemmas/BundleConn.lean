/-
# Lemmas about the re-connection of bundle-valued ports (BundleConn.lean)
-/
import Hdl21Model.BundleConn
namespace Hdl21.BundleConn
open Hdl21 Hdl21.Bundles

/-- looking a path up in two steps -/
theorem Scope.at_append : ∀ (s : Scope) (p q : List String) (s' : Scope), s.at p = some s' → s.at (p ++ q) = s'.at q
  | s, [], q, s', h => by
    simp only [Scope.at, Option.some.injEq] at h; subst h; rfl
  | .leaf _, _ :: _, _, _, h => by simp [Scope.at] at h
  | .node ms, k :: rest, q, s', h => by
    simp only [Scope.at, List.cons_append] at h ⊢
    cases hl : lookupMember k ms with
    | none => simp [hl] at h
    | some s1 =>
      simp only [hl] at h ⊢
      exact Scope.at_append s1 rest q s' h

/-- the members of the scope of an anonymous bundle are the scopes of its fields, under their names, first field first -/
theorem resolveFields_lookup (nm : String → List String → String) (env : Env) :
    ∀ (fs : List (String × BConn)) (ms : List (String × Scope)), resolveFields nm env fs = .ok ms →
      ∀ (f : String) (c : BConn), (fs.find? (fun x => x.1 = f)) = some (f, c) →
        ∃ s, resolve nm env c = .ok s ∧ lookupMember f ms = some s
  | [], ms, _, f, c, hf => by simp at hf
  | (g, d) :: rest, ms, h, f, c, hf => by
    rw [resolveFields] at h
    cases h1 : resolve nm env d with
    | error e => simp [h1] at h
    | ok s1 =>
      cases h2 : resolveFields nm env rest with
      | error e => simp [h1, h2] at h
      | ok ms' =>
        simp only [h1, h2, Except.ok.injEq] at h
        subst h
        by_cases hg : g = f
        · subst hg
          simp only [List.find?_cons_of_pos, decide_true, Option.some.injEq, Prod.mk.injEq, true_and] at hf
          subst hf
          exact ⟨s1, h1, by simp [lookupMember]⟩
        · have : ¬ ((g, d).1 = f) := hg
          rw [List.find?_cons_of_neg (by simpa using this)] at hf
          obtain ⟨s, hs, hl⟩ := resolveFields_lookup nm env rest ms' h2 f c hf
          exact ⟨s, hs, by simp [lookupMember, hg, hl]⟩

/-- `connect` answers with one entry per leaf path of the port, in the port's order, each holding what the scope has at that path -/
theorem connect_spec (port : String) (s : Scope) :
    ∀ (paths : List (List String)) (cs : List (String × SConn)), connect port paths s = .ok cs →
      cs.map (·.1) = paths.map (flatName port) ∧
      ∀ k (hk : k < paths.length), ∃ c, s.at paths[k] = some (.leaf c) ∧ cs[k]? = some (flatName port paths[k], c)
  | [], cs, h => by
    simp only [connect, Except.ok.injEq] at h; subst h; simp
  | π :: rest, cs, h => by
    rw [connect] at h
    cases ha : s.at π with
    | none => simp [ha] at h
    | some sc =>
      cases sc with
      | node ms => simp [ha] at h
      | leaf c =>
        simp only [ha] at h
        cases hr : connect port rest s with
        | error e => simp [hr] at h
        | ok cs' =>
          simp only [hr, Except.ok.injEq] at h
          subst h
          obtain ⟨hn, hall⟩ := connect_spec port s rest cs' hr
          refine ⟨by simp [hn], ?_⟩
          intro k hk
          cases k with
          | zero => exact ⟨c, by simpa using ha, by simp⟩
          | succ j =>
            obtain ⟨c', h1, h2⟩ := hall j (by simpa using hk)
            exact ⟨c', by simpa using h1, by simpa using h2⟩

/-- … and refuses as soon as the scope holds no scalar connectable at one of the port's leaf paths -/
theorem connect_refuses (port : String) (s : Scope) (paths : List (List String)) (π : List String) (hm : π ∈ paths)
    (hno : ∀ c, s.at π ≠ some (.leaf c)) : ∃ e, connect port paths s = .error e := by
  cases h : connect port paths s with
  | error e => exact ⟨e, rfl⟩
  | ok cs =>
    obtain ⟨_, hall⟩ := connect_spec port s paths cs h
    obtain ⟨k, hk, hπ⟩ := List.getElem_of_mem hm
    obtain ⟨c, hc, _⟩ := hall k hk
    rw [hπ] at hc
    exact absurd hc (hno c)

end Hdl21.BundleConn

/-! ## the scope of a bundle instance holds, at every leaf path of its type, the signal named after instance and path -/
namespace Hdl21.BundleConn
open Hdl21 Hdl21.Bundles

mutual
/-- member names are dictionary keys: distinct within one definition, at every level -/
inductive WFT : BTree → Prop
  | node (sigs subs) : (sigs.map (·.name) ++ subs.map (·.1)).Nodup → WFSubsT subs → WFT (.node sigs subs)
inductive WFSubsT : List (String × Bool × Option String × BTree) → Prop
  | nil : WFSubsT []
  | cons (n f r t rest) : WFT t → WFSubsT rest → WFSubsT ((n, f, r, t) :: rest)
end

theorem lookupMember_append_of_not_mem (k : String) : ∀ (xs ys : List (String × Scope)), k ∉ xs.map (·.1) →
    lookupMember k (xs ++ ys) = lookupMember k ys
  | [], ys, _ => rfl
  | (n, s) :: xs, ys, h => by
    simp only [List.map_cons, List.mem_cons, not_or] at h
    have hne : ¬ n = k := fun e => h.1 e.symm
    simp only [List.cons_append, lookupMember, hne, if_false]
    exact lookupMember_append_of_not_mem k xs ys h.2

theorem lookupMember_sigs (g : Leaf → Scope) : ∀ (sigs : List Leaf) (ys : List (String × Scope)) (l : Leaf), l ∈ sigs →
    (sigs.map (·.name)).Nodup → lookupMember l.name (sigs.map (fun x => (x.name, g x)) ++ ys) = some (g l)
  | [], _, _, hm, _ => by cases hm
  | a :: rest, ys, l, hm, hnd => by
    simp only [List.map_cons, List.nodup_cons] at hnd
    rcases List.mem_cons.mp hm with rfl | hr
    · simp [lookupMember]
    · have hne : ¬ a.name = l.name := by
        intro e; exact hnd.1 (e ▸ List.mem_map.mpr ⟨l, hr, rfl⟩)
      simp only [List.map_cons, List.cons_append, lookupMember, hne, if_false]
      exact lookupMember_sigs g rest ys l hr hnd.2

theorem scopeSubs_names (nm : String → List String → String) (b : String) (pre : List String) :
    ∀ subs : List (String × Bool × Option String × BTree), (scopeSubs nm b pre subs).map (·.1) = subs.map (·.1)
  | [] => rfl
  | (n, _, _, t) :: rest => by simp [scopeSubs, scopeSubs_names nm b pre rest]

theorem flattenSubs_path_head (p fl : Bool) : ∀ (subs : List (String × Bool × Option String × BTree)) (f : Flat),
    f ∈ flattenSubs p fl subs → ∃ m ∈ subs.map (·.1), ∃ q, f.path = m :: q
  | [], f, h => by simp [flattenSubs] at h
  | (n, fl', r, t) :: rest, f, h => by
    rw [flattenSubs] at h
    rcases List.mem_append.mp h with h1 | h2
    · obtain ⟨y, _, rfl⟩ := List.mem_map.mp h1
      exact ⟨n, by simp, y.path, rfl⟩
    · obtain ⟨m, hm, q, hq⟩ := flattenSubs_path_head p fl rest f h2
      exact ⟨m, by simp [hm], q, hq⟩

mutual
theorem scopeOf_at (nm : String → List String → String) (b : String) :
    (t : BTree) → WFT t → ∀ (pre : List String) (fl : Bool) (r : Option String) (f : Flat), f ∈ flatten false fl r t →
      (scopeOf nm b pre t).at f.path = some (.leaf (.sig (nm b (pre ++ f.path)) f.width))
  | .node sigs subs, hwf, pre, fl, r, f, hf => by
    cases hwf with
    | node _ _ hnd hsubs =>
    rw [flatten] at hf
    rw [scopeOf]
    have hnd' := List.nodup_append.mp hnd
    rcases List.mem_append.mp hf with h1 | h2
    · obtain ⟨l, hl, rfl⟩ := List.mem_map.mp h1
      simp only [leafOut, Bool.false_eq_true, if_false, Scope.at]
      rw [lookupMember_sigs (fun x => Scope.leaf (.sig (nm b (pre ++ [x.name])) x.width)) sigs _ l hl hnd'.1]
    · obtain ⟨m, hm, q, hq⟩ := flattenSubs_path_head false fl subs f h2
      have hnot : m ∉ (sigs.map (fun l => (l.name, Scope.leaf (.sig (nm b (pre ++ [l.name])) l.width)))).map (·.1) := by
        simp only [List.map_map]
        intro hmem
        have : m ∈ sigs.map (·.name) := by simpa [Function.comp] using hmem
        exact hnd'.2.2 m this m hm rfl
      have := scopeSubs_at nm b subs hsubs hnd'.2.1 pre fl f h2
      rw [hq] at this ⊢
      simp only [Scope.at] at this ⊢
      rw [lookupMember_append_of_not_mem m _ _ hnot]
      exact this
theorem scopeSubs_at (nm : String → List String → String) (b : String) :
    (subs : List (String × Bool × Option String × BTree)) → WFSubsT subs → (subs.map (·.1)).Nodup →
      ∀ (pre : List String) (fl : Bool) (f : Flat), f ∈ flattenSubs false fl subs →
        (Scope.node (scopeSubs nm b pre subs)).at f.path = some (.leaf (.sig (nm b (pre ++ f.path)) f.width))
  | [], _, _, _, _, f, hf => by simp [flattenSubs] at hf
  | (n, fl', r, t) :: rest, hwf, hnd, pre, fl, f, hf => by
    cases hwf with
    | cons _ _ _ _ _ ht hrest =>
    simp only [List.map_cons, List.nodup_cons] at hnd
    rw [flattenSubs] at hf
    rcases List.mem_append.mp hf with h1 | h2
    · obtain ⟨y, hy, rfl⟩ := List.mem_map.mp h1
      have ih := scopeOf_at nm b t ht (pre ++ [n]) (if fl' then !fl else fl) r y hy
      simp only [scopeSubs, Scope.at, lookupMember, if_true]
      rw [ih]
      simp [List.append_assoc]
    · obtain ⟨m, hm, q, hq⟩ := flattenSubs_path_head false fl rest f h2
      have hne : ¬ n = m := fun e => hnd.1 (e ▸ hm)
      have ih := scopeSubs_at nm b rest hrest hnd.2 pre fl f h2
      rw [hq] at ih ⊢
      simp only [scopeSubs, Scope.at, lookupMember, hne, if_false] at ih ⊢
      exact ih
end

end Hdl21.BundleConn
