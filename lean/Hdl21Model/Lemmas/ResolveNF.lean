/-
# What the SliceResolver returns is a fixed point of the SliceResolver                                        — C11 (C03)

`from_proto` hands the elaborator connections in the very form the exporter wrote; for `to_proto(from_proto(P)) = P` the
resolver must leave that form alone.  The form (`NF`): a signal, a slice taken directly from a signal that is *not* the whole of
it, or a non-empty concatenation of those.  `resolve_nf`: everything the resolver returns has it; `nf_fixed`: everything that has
it is returned unchanged.
-/
import Hdl21Model.Lemmas.Resolve
namespace Hdl21

/-- a signal, or a slice of a signal that `_list_slice` would leave standing (in range, not "all of it, forwards") -/
def NFLeaf : SConn → Prop
  | .sig _ _ => True
  | .slice (.sig _ w) idx => ∃ inner, sliceInner w idx = .ok inner ∧ ¬ (inner.step > 0 ∧ inner.width.toNat = w)
  | _ => False

def NF (r : SConn) : Prop := NFLeaf r ∨ ∃ ps, r = .concat ps ∧ ps ≠ [] ∧ ∀ x ∈ ps, NFLeaf x

theorem nfLeaf_not_concat {ps : List SConn} : ¬ NFLeaf (.concat ps) := by simp [NFLeaf]

/-- splicing a list of normal forms gives leaves -/
theorem splice_nf : ∀ (ls : List SConn), (∀ x ∈ ls, NF x) → ∀ x ∈ splice ls, NFLeaf x
  | [], _ => by intro x hx; simp [splice] at hx
  | .concat ps :: rest, h => by
    intro x hx
    rw [splice] at hx
    rcases List.mem_append.mp hx with hx | hx
    · rcases h (.concat ps) (by simp) with hl | ⟨qs, he, _, hq⟩
      · exact absurd hl nfLeaf_not_concat
      · injection he with he; subst he; exact hq x hx
    · exact splice_nf rest (fun y hy => h y (by simp [hy])) x hx
  | .sig n w :: rest, h => by
    intro x hx
    rw [splice] at hx
    rcases List.mem_cons.mp hx with rfl | hx
    · trivial
    · exact splice_nf rest (fun y hy => h y (by simp [hy])) x hx
  | .slice p i :: rest, h => by
    intro x hx
    rw [splice] at hx
    rcases List.mem_cons.mp hx with rfl | hx
    · rcases h (.slice p i) (by simp) with hl | ⟨qs, he, _, _⟩
      · exact hl
      · cases he
    · exact splice_nf rest (fun y hy => h y (by simp [hy])) x hx

theorem splice_ne_nil : ∀ (ls : List SConn), (∀ x ∈ ls, NF x) → ls ≠ [] → splice ls ≠ []
  | [], _, hne => absurd rfl hne
  | .concat ps :: rest, h, _ => by
    rw [splice]
    rcases h (.concat ps) (by simp) with hl | ⟨qs, he, hq, _⟩
    · exact absurd hl nfLeaf_not_concat
    · injection he with he; subst he
      intro hnil
      exact hq (List.append_eq_nil_iff.mp hnil).1
  | .sig n w :: rest, _, _ => by rw [splice]; simp
  | .slice p i :: rest, _, _ => by rw [splice]; simp

def ResolveNF (fuel : Nat) : Prop :=
  (∀ parent idx ls, listSlice fuel parent idx = .ok ls → ∀ x ∈ ls, NF x) ∧
  (∀ parent inner ls, consSlice fuel parent inner = .ok ls → ∀ x ∈ ls, NF x) ∧
  (∀ c r, resolveSliceable fuel c = .ok r → NF r) ∧
  (∀ ps rs, resolveParts fuel ps = .ok rs → (∀ x ∈ rs, NFLeaf x) ∧ (ps ≠ [] → rs ≠ []))

theorem resolve_nf : ∀ fuel, ResolveNF fuel
  | 0 => by
    refine ⟨?_, ?_, ?_, ?_⟩
    · intro parent idx ls h; rw [listSlice] at h; cases h
    · intro parent inner ls h; rw [consSlice] at h; cases h
    · intro c r h; rw [resolveSliceable] at h; cases h
    · intro ps rs h; rw [resolveParts] at h; cases h
  | fuel + 1 => by
    obtain ⟨ihL, ihC, ihR, ihP⟩ := resolve_nf fuel
    refine ⟨?_, ?_, ?_, ?_⟩
    · intro parent idx ls h
      rw [listSlice] at h
      simp only [bind, Except.bind] at h
      cases hw : parent.width with
      | error e => simp [hw] at h
      | ok pw =>
        simp only [hw] at h
        cases hi : sliceInner pw idx with
        | error e => simp [hi] at h
        | ok inner =>
          simp only [hi] at h
          split at h
          · cases hr : resolveSliceable fuel parent with
            | error e => simp [hr] at h
            | ok r =>
              simp only [hr] at h
              injection h with h; subst h
              intro x hx; simp at hx; rw [hx]; exact ihR parent r hr
          · rename_i hfull
            cases parent with
            | sig n w =>
              simp only [] at h
              injection h with h; subst h
              intro x hx; simp at hx; rw [hx]
              rw [width_sig] at hw; injection hw with hw; subst hw
              exact Or.inl ⟨inner, hi, hfull⟩
            | slice pp pidx =>
              simp only [] at h
              split at h
              · cases hpw : pp.width with
                | error e => simp [hpw] at h
                | ok ppw =>
                  simp only [hpw] at h
                  cases hpin : sliceInner ppw pidx with
                  | error e => simp [hpin] at h
                  | ok pin =>
                    simp only [hpin] at h
                    exact ihL pp _ ls h
              · exact ihC _ inner ls h
            | concat parts =>
              simp only [] at h
              split at h
              · cases hf : findPart parts 0 inner.bot.toNat with
                | error e => simp [hf] at h
                | ok res =>
                  obtain ⟨part, off⟩ := res
                  simp only [hf] at h
                  exact ihL _ _ ls h
              · exact ihC _ inner ls h
    · intro parent inner ls h
      rw [consSlice] at h
      split at h <;> simp only [bind, Except.bind] at h
      · cases hfirst : listSlice fuel parent (.int (inner.top - 1)) with
        | error e => simp [hfirst] at h
        | ok first =>
          simp only [hfirst] at h
          cases hrest : listSlice fuel parent (.range (some (inner.top - 1 + inner.step))
              (if inner.bot > 0 then some (inner.bot - 1) else none) (some inner.step)) with
          | error e => simp [hrest] at h
          | ok rest =>
            simp only [hrest] at h
            injection h with h; subst h
            intro x hx
            rcases List.mem_append.1 hx with hx | hx
            · exact ihL _ _ first hfirst x hx
            · exact ihL _ _ rest hrest x hx
      · cases hfirst : listSlice fuel parent (.int inner.bot) with
        | error e => simp [hfirst] at h
        | ok first =>
          simp only [hfirst] at h
          cases hrest : listSlice fuel parent (.range (some (inner.bot + inner.step)) (some inner.top) (some inner.step)) with
          | error e => simp [hrest] at h
          | ok rest =>
            simp only [hrest] at h
            injection h with h; subst h
            intro x hx
            rcases List.mem_append.1 hx with hx | hx
            · exact ihL _ _ first hfirst x hx
            · exact ihL _ _ rest hrest x hx
    · intro c r h
      cases c with
      | sig n w =>
        rw [resolveSliceable] at h
        injection h with h; subst h; exact Or.inl trivial
      | slice p idx =>
        rw [resolveSliceable] at h
        simp only [bind, Except.bind] at h
        cases hl : listSlice fuel p idx with
        | error e => simp [hl] at h
        | ok ls =>
          simp only [hl] at h
          have fl := ihL p idx ls hl
          match ls, h, fl with
          | [], h, _ => cases h
          | [x], h, fl => injection h with h; rw [← h]; exact fl x (by simp)
          | x :: y :: rest, h, fl =>
            injection h with h; subst h
            exact Or.inr ⟨_, rfl, splice_ne_nil _ fl (by simp), splice_nf _ fl⟩
      | concat ps =>
        rw [resolveSliceable] at h
        split at h
        · cases h
        · rename_i hne
          simp only [bind, Except.bind] at h
          cases hp : resolveParts fuel ps with
          | error e => simp [hp] at h
          | ok parts =>
            simp only [hp] at h
            injection h with h; subst h
            obtain ⟨hleaf, hnn⟩ := ihP ps parts hp
            exact Or.inr ⟨parts, rfl, hnn (by intro hnil; subst hnil; simp at hne), hleaf⟩
    · intro ps rs h
      cases ps with
      | nil => rw [resolveParts] at h; injection h with h; subst h; exact ⟨(fun x hx => by cases hx), fun hne => absurd rfl hne⟩
      | cons p ps =>
        rw [resolveParts] at h
        simp only [bind, Except.bind] at h
        cases hr : resolveSliceable fuel p with
        | error e => simp [hr] at h
        | ok r =>
          simp only [hr] at h
          cases hrest : resolveParts fuel ps with
          | error e => simp [hrest] at h
          | ok rest =>
            simp only [hrest] at h
            have fr := ihR p r hr
            have frest := (ihP ps rest hrest).1
            cases r with
            | concat rsub =>
              simp only [] at h
              injection h with h; subst h
              rcases fr with hl | ⟨qs, he, hq, hqs⟩
              · exact absurd hl nfLeaf_not_concat
              · injection he with he; subst he
                refine ⟨?_, fun _ hnil => hq (List.append_eq_nil_iff.mp hnil).1⟩
                intro x hx
                rcases List.mem_append.1 hx with hx | hx
                · exact hqs x hx
                · exact frest x hx
            | sig n w =>
              simp only [] at h
              injection h with h; subst h
              refine ⟨?_, fun _ => by simp⟩
              intro x hx
              rcases List.mem_cons.1 hx with hx | hx
              · rw [hx]; trivial
              · exact frest x hx
            | slice q qi =>
              simp only [] at h
              injection h with h; subst h
              refine ⟨?_, fun _ => by simp⟩
              intro x hx
              rcases List.mem_cons.1 hx with hx | hx
              · rw [hx]
                rcases fr with hl | ⟨qs, he, _, _⟩
                · exact hl
                · cases he
              · exact frest x hx

/-! ### a normal form is left alone -/

theorem nfLeaf_fixed (f : Nat) : ∀ (r : SConn), NFLeaf r → resolveSliceable (f + 2) r = .ok r
  | .sig n w, _ => by rw [resolveSliceable]
  | .slice (.sig n w) idx, ⟨inner, hi, hfull⟩ => by
    rw [resolveSliceable]
    simp only [bind, Except.bind]
    rw [listSlice]
    simp only [bind, Except.bind, width_sig, hi, if_neg hfull]
  | .slice (.slice _ _) _, h => by simp [NFLeaf] at h
  | .slice (.concat _) _, h => by simp [NFLeaf] at h
  | .concat _, h => by simp [NFLeaf] at h

theorem nfLeaf_fixed_parts (k : Nat) : ∀ (ps : List SConn), (∀ x ∈ ps, NFLeaf x) → resolveParts (ps.length + k + 3) ps = .ok ps
  | [], _ => by rw [resolveParts]
  | p :: ps, h => by
    have e1 : (p :: ps).length + k + 3 = (ps.length + k + 3) + 1 := by simp; omega
    rw [e1, resolveParts]
    have e2 : ps.length + k + 3 = (ps.length + k + 1) + 2 := by omega
    have hp := nfLeaf_fixed (ps.length + k + 1) p (h p (by simp))
    rw [← e2] at hp
    simp only [bind, Except.bind, hp, nfLeaf_fixed_parts k ps (fun x hx => h x (List.mem_cons_of_mem _ hx))]
    cases p with
    | concat qs => exact absurd (h (.concat qs) (by simp)) nfLeaf_not_concat
    | sig n w => rfl
    | slice q i => rfl

/-- **What the resolver returns, the resolver returns unchanged** (with a fuel read off the expression) -/
theorem nf_fixed (r : SConn) (h : NF r) : ∃ f, resolveSliceable f r = .ok r := by
  rcases h with hl | ⟨ps, rfl, hne, hps⟩
  · exact ⟨2, nfLeaf_fixed 0 r hl⟩
  · refine ⟨ps.length + 0 + 3 + 1, ?_⟩
    rw [resolveSliceable]
    have hemp : ps.isEmpty = false := by cases ps with | nil => exact absurd rfl hne | cons _ _ => rfl
    simp only [hemp, bind, Except.bind]
    rw [nfLeaf_fixed_parts 0 ps hps]
    rfl

/-! ### the executable form -/

theorem nfLeafB_iff : ∀ (r : SConn), r.nfLeafB = true ↔ NFLeaf r
  | .sig _ _ => by simp [SConn.nfLeafB, NFLeaf]
  | .slice (.sig n w) idx => by
    simp only [SConn.nfLeafB, NFLeaf]
    cases hi : sliceInner w idx with
    | error e => simp
    | ok inner =>
      simp only [Except.ok.injEq, exists_eq_left', Bool.not_eq_true', Bool.and_eq_false_imp, decide_eq_true_eq, beq_eq_false_iff_ne, ne_eq]
      constructor
      · intro h ⟨h1, h2⟩; exact h h1 h2
      · intro h h1 h2; exact h ⟨h1, h2⟩
  | .slice (.slice _ _) _ => by simp [SConn.nfLeafB, NFLeaf]
  | .slice (.concat _) _ => by simp [SConn.nfLeafB, NFLeaf]
  | .concat _ => by simp [SConn.nfLeafB, NFLeaf]

/-- the Boolean the driver evaluates on what the real elaborator leaves is the `NF` of the theorems -/
theorem nfB_iff (r : SConn) : r.nfB = true ↔ NF r := by
  cases r with
  | sig n w => simp [SConn.nfB, SConn.nfLeafB, NF, NFLeaf]
  | slice p idx =>
    have : (SConn.slice p idx).nfB = (SConn.slice p idx).nfLeafB := by simp [SConn.nfB]
    rw [this, nfLeafB_iff]
    constructor
    · intro h; exact Or.inl h
    · rintro (h | ⟨ps, he, _⟩)
      · exact h
      · cases he
  | concat ps =>
    simp only [SConn.nfB, Bool.and_eq_true, Bool.not_eq_true', List.all_eq_true]
    constructor
    · rintro ⟨h1, h2⟩
      refine Or.inr ⟨ps, rfl, ?_, fun x hx => (nfLeafB_iff x).mp (h2 x hx)⟩
      intro hnil; subst hnil; simp at h1
    · rintro (h | ⟨qs, he, hne, hq⟩)
      · exact absurd h nfLeaf_not_concat
      · injection he with he; subst he
        refine ⟨?_, fun x hx => (nfLeafB_iff x).mpr (hq x hx)⟩
        cases ps with
        | nil => exact absurd rfl hne
        | cons _ _ => rfl

end Hdl21
