import Hdl21Model.Export
import Hdl21Model.Lemmas.Conn
namespace Hdl21
open Hdl21.Pkg

def bitNat (b : Bit) : String × Nat := (b.1, b.2.toNat)

theorem readParts_snoc (ws : List (String × Nat)) (xs : List PTarget) (y : PTarget) :
    readParts ws (xs ++ [y]) = readTarget ws y ++ readParts ws xs := by
  induction xs with
  | nil => simp [readParts]
  | cons x xs ih => rw [List.cons_append, readParts, ih, readParts]; simp

theorem pick_allBits_arith (n : String) (w : Nat) (f : Int) (m : Nat) (bs : List Bit)
    (h : pick (allBits n w) (arith f 1 m) = .ok bs) (hf : 0 ≤ f) :
    bs.map bitNat = (List.range m).map (fun i => (n, f.toNat + i)) := by
  induction m generalizing f bs with
  | zero => rw [arith_zero, pick_nil] at h; injection h with h; subst h; simp
  | succ m ih =>
    rw [arith_succ] at h
    obtain ⟨b, r', _, hb, hr, rfl⟩ := pick_cons_ok _ _ _ _ h
    have := ih (f + 1) r' hr (by omega)
    rw [List.map_cons, this, List.range_succ_eq_map, List.map_cons, List.map_map]
    congr 1
    · unfold allBits at hb
      rw [List.getElem?_map] at hb
      cases hg : (List.range w)[f.toNat]? with
      | none => simp [hg] at hb
      | some k =>
        simp only [hg, Option.map_some, Option.some.injEq] at hb
        have hk : k = f.toNat := by
          have := List.getElem?_range (n := w) (i := f.toNat)
          rcases Nat.lt_or_ge f.toNat w with hlt | hge
          · rw [List.getElem?_range hlt] at hg; injection hg with hg; exact hg.symm
          · rw [List.getElem?_eq_none (by simpa using hge)] at hg; cases hg
        subst hb; unfold bitNat; simp [hk]; omega
    · apply List.map_congr_left
      intro a _
      simp only [Function.comp]
      have : (f + 1).toNat = f.toNat + 1 := by omega
      rw [this]; congr 1; omega

mutual
/-- **Reading what was exported gives the denoted bits**: the positional, most-significant-first
    reading of an exported connection target (reversed to LSB-first) is the bit list the connectable
    denotes — including the inclusive `top` of slices and the order of concatenation parts. -/
theorem export_read (ws : List (String × Nat)) : (c : SConn) → ∀ t bs, sigsOK ws c = true →
    exportTarget c = .ok t → c.denote = .ok bs → readTarget ws t = bs.map bitNat
  | .sig n w, t, bs, hok, he, hd => by
    rw [exportTarget] at he; injection he with he; subst he
    rw [denote_sig] at hd; injection hd with hd; subst hd
    rw [sigsOK] at hok
    have hl : lookup n ws = some w := by simpa using hok
    rw [readTarget, hl]
    simp [allBits, bitNat]
  | .slice (.sig n w) idx, t, bs, hok, he, hd => by
    rw [exportTarget] at he
    simp only [bind, Except.bind] at he
    rw [denote_slice, denote_sig] at hd
    simp only [allBits_length] at hd
    cases hi : sliceInner w idx with
    | error e => simp [hi] at he
    | ok inner =>
      simp only [hi] at he hd
      split at he
      · cases he
      · rename_i hstep
        have h1 : inner.step = 1 := by
          by_cases hh : inner.step = 1
          · exact hh
          · exact absurd hh (by simpa using hstep)
        injection he with he; subst he
        have wf := sliceInner_wf w idx inner hi
        have hpos := wf.pos (by omega)
        have hb := wf.bot_ge
        have hn := wf.n_pos
        rw [h1] at hpos
        have hwid : inner.width = inner.top - inner.bot := by omega
        rw [bits_eq_arith] at hd
        unfold Inner.first at hd
        simp only [h1, show ¬ ((1 : Int) < 0) by omega, if_false] at hd
        have := pick_allBits_arith n w inner.bot inner.width.toNat bs hd hb
        rw [this, readTarget]
        have hcount : (inner.top - 1).toNat + 1 - inner.bot.toNat = inner.width.toNat := by omega
        rw [hcount]
  | .slice (.slice _ _) _, t, bs, _, he, _ => by rw [exportTarget] at he; cases he
  | .slice (.concat _) _, t, bs, _, he, _ => by rw [exportTarget] at he; cases he
  | .concat ps, t, bs, hok, he, hd => by
    rw [exportTarget] at he
    simp only [bind, Except.bind] at he
    cases hp : exportParts ps with
    | error e => simp [hp] at he
    | ok ts =>
      simp only [hp] at he
      injection he with he; subst he
      rw [denote_concat] at hd
      rw [sigsOK] at hok
      rw [readTarget]
      exact export_read_parts ws ps ts bs hok hp hd
theorem export_read_parts (ws : List (String × Nat)) : (ps : List SConn) → ∀ ts bs, sigsOKList ws ps = true →
    exportParts ps = .ok ts → denoteList ps = .ok bs → readParts ws ts = bs.map bitNat
  | [], ts, bs, _, he, hd => by
    rw [exportParts] at he; injection he with he; subst he
    rw [denoteList_nil] at hd; injection hd with hd; subst hd
    simp [readParts]
  | p :: ps, ts, bs, hok, he, hd => by
    rw [exportParts] at he
    simp only [bind, Except.bind] at he
    rw [sigsOKList, Bool.and_eq_true] at hok
    cases ht : exportTarget p with
    | error e => simp [ht] at he
    | ok t =>
      simp only [ht] at he
      cases hts : exportParts ps with
      | error e => simp [hts] at he
      | ok ts' =>
        simp only [hts] at he
        injection he with he; subst he
        rw [denoteList_cons] at hd
        cases hpd : p.denote with
        | error e => simp [hpd] at hd
        | ok a =>
          simp only [hpd] at hd
          cases hpsd : denoteList ps with
          | error e => simp [hpsd] at hd
          | ok b =>
            simp only [hpsd] at hd
            injection hd with hd; subst hd
            rw [readParts_snoc, export_read ws p t a hok.1 ht hpd, export_read_parts ws ps ts' b hok.2 hts hpsd]
            simp
end

end Hdl21
