/-
# Unit-step expressions stay unit-step through the SliceResolver, and are exported                          — C03 (C02, C06)

The exporter refuses one thing the resolver hands it: a stepped slice taken directly from a Signal (VLSIR slices have no step).
For an expression whose every index is an integer or a unit-step range — what the property demands be accepted — the resolver
only ever makes unit-step slices (`resolve_unit`), so the exporter accepts what it returns (`export_total`).
-/
import Hdl21Model.Lemmas.ResolveTotal
import Hdl21Model.Lemmas.Export
namespace Hdl21
open Hdl21.Pkg

theorem unitList_iff : ∀ (ps : List SConn), unitList ps = true ↔ ∀ x ∈ ps, x.unit = true
  | [] => by simp [unitList]
  | p :: ps => by simp [unitList, unitList_iff ps]

theorem unit_concat (ps : List SConn) : (SConn.concat ps).unit = true ↔ ∀ x ∈ ps, x.unit = true := by
  rw [SConn.unit]; exact unitList_iff ps

theorem unit_slice (p : SConn) (idx : Index) : (SConn.slice p idx).unit = true ↔ p.unit = true ∧ idx.unit = true := by
  rw [SConn.unit]; simp

theorem sliceInner_unit_step (w : Nat) (idx : Index) (inner : Inner) (hu : idx.unit = true) (h : sliceInner w idx = .ok inner) :
    inner.step = 1 := by
  cases idx with
  | int i =>
    simp only [sliceInner] at h
    split at h
    · cases h
    · injection h with h; rw [← h]
  | range a b st =>
    have hst : st.getD 1 = 1 := by
      simp only [Index.unit, Bool.or_eq_true, beq_iff_eq] at hu
      rcases hu with hu | hu <;> simp [hu]
    simp only [sliceInner, hst] at h
    split at h
    · omega
    · split at h
      · cases h
      · split at h
        · injection h with h; rw [← h]
        · omega

def ResolveUnit (fuel : Nat) : Prop :=
  (∀ parent idx ls, listSlice fuel parent idx = .ok ls → parent.unit = true → idx.unit = true → ∀ x ∈ ls, x.unit = true) ∧
  (∀ parent inner ls, consSlice fuel parent inner = .ok ls → parent.unit = true → inner.step = 1 → ∀ x ∈ ls, x.unit = true) ∧
  (∀ c r, resolveSliceable fuel c = .ok r → c.unit = true → r.unit = true) ∧
  (∀ ps rs, resolveParts fuel ps = .ok rs → (∀ x ∈ ps, x.unit = true) → ∀ x ∈ rs, x.unit = true)

theorem resolve_unit : ∀ fuel, ResolveUnit fuel
  | 0 => by
    refine ⟨?_, ?_, ?_, ?_⟩
    · intro parent idx ls h; rw [listSlice] at h; cases h
    · intro parent inner ls h; rw [consSlice] at h; cases h
    · intro c r h; rw [resolveSliceable] at h; cases h
    · intro ps rs h; rw [resolveParts] at h; cases h
  | fuel + 1 => by
    obtain ⟨ihL, ihC, ihR, ihP⟩ := resolve_unit fuel
    refine ⟨?_, ?_, ?_, ?_⟩
    · intro parent idx ls h hP hI
      rw [listSlice] at h
      simp only [bind, Except.bind] at h
      cases hw : parent.width with
      | error e => simp [hw] at h
      | ok pw =>
        simp only [hw] at h
        cases hi : sliceInner pw idx with
        | error e => simp [hi] at h
        | ok inner =>
          simp only [hi] at h
          have hstep := sliceInner_unit_step pw idx inner hI hi
          split at h
          · cases hr : resolveSliceable fuel parent with
            | error e => simp [hr] at h
            | ok r =>
              simp only [hr] at h
              injection h with h; subst h
              intro x hx; simp at hx; rw [hx]; exact ihR parent r hr hP
          · cases parent with
            | sig n w =>
              simp only [] at h
              injection h with h; subst h
              intro x hx; simp at hx; rw [hx]; exact (unit_slice _ _).2 ⟨hP, hI⟩
            | slice pp pidx =>
              have hPP : pp.unit = true := ((unit_slice pp pidx).1 hP).1
              simp only [] at h
              split at h
              · cases hpw : pp.width with
                | error e => simp [hpw] at h
                | ok ppw =>
                  simp only [hpw] at h
                  cases hpin : sliceInner ppw pidx with
                  | error e => simp [hpin] at h
                  | ok pin =>
                    simp only [hpin] at h
                    exact ihL pp _ ls h hPP rfl
              · exact ihC _ inner ls h hP hstep
            | concat parts =>
              simp only [] at h
              split at h
              · cases hf : findPart parts 0 inner.bot.toNat with
                | error e => simp [hf] at h
                | ok res =>
                  obtain ⟨part, off⟩ := res
                  simp only [hf] at h
                  have hm := findPart_mem parts 0 _ part off hf
                  exact ihL _ _ ls h ((unit_concat parts).1 hP part hm) rfl
              · exact ihC _ inner ls h hP hstep
    · intro parent inner ls h hP hstep
      rw [consSlice] at h
      split at h <;> simp only [bind, Except.bind] at h
      · omega
      · cases hfirst : listSlice fuel parent (.int inner.bot) with
        | error e => simp [hfirst] at h
        | ok first =>
          simp only [hfirst] at h
          cases hrest : listSlice fuel parent (.range (some (inner.bot + inner.step)) (some inner.top) (some inner.step)) with
          | error e => simp [hrest] at h
          | ok rest =>
            simp only [hrest] at h
            injection h with h; subst h
            intro x hx
            rcases List.mem_append.1 hx with hx | hx
            · exact ihL _ _ first hfirst hP rfl x hx
            · exact ihL _ _ rest hrest hP (by simp [Index.unit, hstep]) x hx
    · intro c r h hP
      cases c with
      | sig n w =>
        rw [resolveSliceable] at h
        injection h with h; subst h; exact hP
      | slice p idx =>
        rw [resolveSliceable] at h
        simp only [bind, Except.bind] at h
        cases hl : listSlice fuel p idx with
        | error e => simp [hl] at h
        | ok ls =>
          simp only [hl] at h
          obtain ⟨hp, hidx⟩ := (unit_slice p idx).1 hP
          have fl := ihL p idx ls hl hp hidx
          match ls, h, fl with
          | [], h, _ => cases h
          | [x], h, fl => injection h with h; rw [← h]; exact fl x (by simp)
          | x :: y :: rest, h, fl =>
            injection h with h; subst h
            exact (unit_concat _).2 (splice_all (fun c => c.unit = true) unit_concat _ fl)
      | concat ps =>
        rw [resolveSliceable] at h
        split at h
        · cases h
        · simp only [bind, Except.bind] at h
          cases hp : resolveParts fuel ps with
          | error e => simp [hp] at h
          | ok parts =>
            simp only [hp] at h
            injection h with h; subst h
            exact (unit_concat _).2 (ihP ps parts hp ((unit_concat ps).1 hP))
    · intro ps rs h hP
      cases ps with
      | nil => rw [resolveParts] at h; injection h with h; subst h; intro x hx; cases hx
      | cons p ps =>
        rw [resolveParts] at h
        simp only [bind, Except.bind] at h
        cases hr : resolveSliceable fuel p with
        | error e => simp [hr] at h
        | ok r =>
          simp only [hr] at h
          cases hrest : resolveParts fuel ps with
          | error e => simp [hrest] at h
          | ok rest =>
            simp only [hrest] at h
            have fr := ihR p r hr (hP p (by simp))
            have frest := ihP ps rest hrest (fun x hx => hP x (List.mem_cons_of_mem _ hx))
            cases r with
            | concat rsub =>
              simp only [] at h
              injection h with h; subst h
              intro x hx
              rcases List.mem_append.1 hx with hx | hx
              · exact (unit_concat rsub).1 fr x hx
              · exact frest x hx
            | sig n w =>
              simp only [] at h
              injection h with h; subst h
              intro x hx
              rcases List.mem_cons.1 hx with hx | hx
              · rw [hx]; exact fr
              · exact frest x hx
            | slice q qi =>
              simp only [] at h
              injection h with h; subst h
              intro x hx
              rcases List.mem_cons.1 hx with hx | hx
              · rw [hx]; exact fr
              · exact frest x hx

mutual
/-- the exporter accepts every exportable unit-step connectable that denotes something -/
theorem export_total : (r : SConn) → r.exportable = true → r.unit = true → (∃ bs, r.denote = .ok bs) → ∃ t, exportTarget r = .ok t
  | .sig n w, _, _, _ => ⟨_, by rw [exportTarget]⟩
  | .slice (.sig n w) idx, _, hu, ⟨bs, hd⟩ => by
    obtain ⟨pbs, inner, hpd, hi, _⟩ := slice_denote_inv hd
    rw [denote_sig] at hpd; injection hpd with hpd; subst hpd
    rw [allBits_length] at hi
    have hstep := sliceInner_unit_step w idx inner ((unit_slice _ _).1 hu).2 hi
    rw [exportTarget]
    simp only [bind, Except.bind, hi, hstep]
    exact ⟨_, rfl⟩
  | .slice (.slice _ _) _, he, _, _ => by simp [SConn.exportable] at he
  | .slice (.concat _) _, he, _, _ => by simp [SConn.exportable] at he
  | .concat ps, he, hu, ⟨bs, hd⟩ => by
    rw [denote_concat] at hd
    obtain ⟨ts, hts⟩ := export_total_parts ps ((exportable_concat ps).1 he) ((unit_concat ps).1 hu) ⟨bs, hd⟩
    rw [exportTarget]
    simp only [bind, Except.bind, hts]
    exact ⟨_, rfl⟩
theorem export_total_parts : (ps : List SConn) → (∀ x ∈ ps, x.exportable = true) → (∀ x ∈ ps, x.unit = true) →
    (∃ bs, denoteList ps = .ok bs) → ∃ ts, exportParts ps = .ok ts
  | [], _, _, _ => ⟨[], by rw [exportParts]⟩
  | p :: ps, he, hu, ⟨bs, hd⟩ => by
    rw [denoteList_cons] at hd
    cases hp : p.denote with
    | error e => simp [hp] at hd
    | ok a =>
      simp only [hp] at hd
      cases hps : denoteList ps with
      | error e => simp [hps] at hd
      | ok b =>
        obtain ⟨t, ht⟩ := export_total p (he p (by simp)) (hu p (by simp)) ⟨a, hp⟩
        obtain ⟨ts, hts⟩ := export_total_parts ps (fun x hx => he x (List.mem_cons_of_mem _ hx)) (fun x hx => hu x (List.mem_cons_of_mem _ hx)) ⟨b, hps⟩
        rw [exportParts]
        simp only [bind, Except.bind, ht, hts]
        exact ⟨_, rfl⟩
end

end Hdl21
