/-
# Lemmas for the array pass (C01, C02)
-/
import Hdl21Model.ArrayPass
import Batteries.Data.List.Basic
namespace Hdl21.ArrayPass
open Hdl21

/-- the relation between a connection of the array and the connection of element `k` -/
def Rel (ports : List (String × Port)) (n k : Nat) (pc : String × AConn) (pe : String × AElem) : Prop :=
  pe.1 = pc.1 ∧ elem ports n k pc.1 pc.2 = .ok pe.2

theorem elemConns_iff (ports : List (String × Port)) (n k : Nat) :
    ∀ (conns : List (String × AConn)) (es : List (String × AElem)),
      elemConns ports n k conns = .ok es ↔ List.Forall₂ (Rel ports n k) conns es
  | [], es => by
    constructor
    · intro h; simp only [elemConns, Except.ok.injEq] at h; subst h; exact .nil
    · intro h; cases h; rfl
  | (p0, c0) :: rest, es => by
    have ih := elemConns_iff ports n k rest
    constructor
    · intro h
      unfold elemConns at h
      cases h1 : elem ports n k p0 c0 with
      | error e => simp [h1] at h
      | ok e0 =>
        cases h2 : elemConns ports n k rest with
        | error e => simp [h1, h2] at h
        | ok r =>
          simp only [h1, h2, Except.ok.injEq] at h
          subst h
          exact .cons ⟨rfl, h1⟩ ((ih r).mp h2)
    · intro h
      cases h with
      | cons hr ht =>
        rename_i pe r
        obtain ⟨pn, e⟩ := pe
        obtain ⟨e1, e2⟩ := hr
        simp only at e1 e2
        subst e1
        unfold elemConns
        simp only [e2, (ih r).mpr ht]

theorem elements_iff (ports : List (String × Port)) (n : Nat) (conns : List (String × AConn)) :
    ∀ (l : List Nat) (r : List (List (String × AElem))),
      elements ports n conns l = .ok r ↔ List.Forall₂ (fun k es => elemConns ports n k conns = .ok es) l r
  | [], r => by
    constructor
    · intro h; simp only [elements, Except.ok.injEq] at h; subst h; exact .nil
    · intro h; cases h; rfl
  | k0 :: rest, r => by
    have ih := elements_iff ports n conns rest
    constructor
    · intro h
      unfold elements at h
      cases h1 : elemConns ports n k0 conns with
      | error e => simp [h1] at h
      | ok e0 =>
        cases h2 : elements ports n conns rest with
        | error e => simp [h1, h2] at h
        | ok r' =>
          simp only [h1, h2, Except.ok.injEq] at h
          subst h
          exact .cons h1 ((ih r').mp h2)
    · intro h
      cases h with
      | cons hr ht =>
        rename_i es r'
        unfold elements
        simp only [hr, (ih r').mpr ht]

/-- whether a connection is accepted does not depend on the element -/
def accepted (ports : List (String × Port)) (n : Nat) (p : String) (c : AConn) : Prop :=
  ∃ e, elem ports n 0 p c = .ok e

theorem elem_ok_any (ports : List (String × Port)) (n k : Nat) (p : String) (c : AConn) (h : accepted ports n p c) :
    ∃ e, elem ports n k p c = .ok e := by
  obtain ⟨e, he⟩ := h
  cases c with
  | bundle b => exact ⟨_, rfl⟩
  | portref => simp [elem] at he
  | other => simp [elem] at he
  | sig c =>
    unfold elem at he ⊢
    cases hp : lookupP p ports with
    | none => simp [hp] at he
    | some pt =>
      cases pt with
      | bundle => simp [hp] at he
      | sig w =>
        cases hw : c.width with
        | error x => simp [hp, hw] at he
        | ok cw =>
          simp only [hp, hw] at he ⊢
          by_cases h1 : w = cw
          · simp [h1]
          · by_cases h2 : w * n = cw
            · simp [h1, h2]
            · simp [h1, h2] at he

theorem elemConns_ok_of_accepted (ports : List (String × Port)) (n k : Nat) :
    ∀ (conns : List (String × AConn)), (∀ pc ∈ conns, accepted ports n pc.1 pc.2) → ∃ es, elemConns ports n k conns = .ok es
  | [], _ => ⟨[], rfl⟩
  | (p0, c0) :: rest, h => by
    obtain ⟨e, he⟩ := elem_ok_any ports n k p0 c0 (h (p0, c0) (List.mem_cons_self ..))
    obtain ⟨r, hr⟩ := elemConns_ok_of_accepted ports n k rest (fun pc hpc => h pc (List.mem_cons_of_mem _ hpc))
    exact ⟨(p0, e) :: r, by unfold elemConns; simp only [he, hr]⟩

theorem elements_ok_of_accepted (ports : List (String × Port)) (n : Nat) (conns : List (String × AConn))
    (h : ∀ pc ∈ conns, accepted ports n pc.1 pc.2) : ∀ l : List Nat, ∃ r, elements ports n conns l = .ok r
  | [] => ⟨[], rfl⟩
  | k :: rest => by
    obtain ⟨e, he⟩ := elemConns_ok_of_accepted ports n k conns h
    obtain ⟨r, hr⟩ := elements_ok_of_accepted ports n conns h rest
    exact ⟨e :: r, by unfold elements; simp only [he, hr]⟩

theorem forall2_getElem {α β} {R : α → β → Prop} : ∀ {l : List α} {r : List β}, List.Forall₂ R l r →
    l.length = r.length ∧ ∀ (i : Nat) a, l[i]? = some a → ∃ b, r[i]? = some b ∧ R a b
  | _, _, .nil => ⟨rfl, fun i a h => by simp at h⟩
  | _, _, .cons hr ht => by
    obtain ⟨i1, i2⟩ := forall2_getElem ht
    refine ⟨by simp [i1], ?_⟩
    intro i a h
    cases i with
    | zero => simp only [List.getElem?_cons_zero, Option.some.injEq] at h; subst h; exact ⟨_, by simp, hr⟩
    | succ i => simp only [List.getElem?_cons_succ] at h ⊢; exact i2 i a h

end Hdl21.ArrayPass
