/-
# Renaming the signals of a connectable commutes with what it denotes (C01: references inside slices and concatenations)
-/
import Hdl21Model.Lemmas.Conn
namespace Hdl21

theorem allBits_rename (ρ : String → String) (n : String) (w : Nat) : (allBits n w).map (renameBit ρ) = allBits (ρ n) w := by
  simp [allBits, renameBit]

theorem mapM_map_except {ε α β κ} (f : α → β) (g : κ → Except ε α) : ∀ ks : List κ,
    List.mapM (fun k => (g k).map f) ks = (List.mapM g ks).map (List.map f)
  | [] => by simp [List.mapM_nil, pure, Except.pure, Except.map]
  | k :: ks => by
    simp only [List.mapM_cons, bind, Except.bind]
    rw [mapM_map_except f g ks]
    cases g k with
    | error e => rfl
    | ok a =>
      cases List.mapM g ks with
      | error e => rfl
      | ok r => rfl

theorem pick_map {α β} (f : α → β) (bs : List α) : ∀ (ks : List Int),
    pick (bs.map f) ks = (match pick bs ks with | .ok r => .ok (r.map f) | .error e => .error e)
  | [] => by simp [pick, List.mapM_nil, pure, Except.pure]
  | k :: ks => by
    have ih := pick_map f bs ks
    unfold pick at ih ⊢
    rw [List.mapM_cons, List.mapM_cons]
    simp only [ih, bind, Except.bind]
    by_cases hk : k < 0
    · simp [hk]
    · simp only [hk, ↓reduceIte, List.getElem?_map]
      cases bs[k.toNat]? with
      | none => rfl
      | some b =>
        simp only [Option.map_some]
        cases List.mapM (fun (k : Int) => if k < 0 then (Except.error (Err.reject "negative bit") : Except Err α) else
            match bs[k.toNat]? with
            | some b => Except.ok b
            | none => Except.error (Err.reject "bit out of range")) ks with
        | error e => rfl
        | ok r => rfl

mutual
theorem denote_rename (ρ : String → String) : ∀ (c : SConn),
    (c.rename ρ).denote = (match c.denote with | .ok bs => .ok (bs.map (renameBit ρ)) | .error e => .error e)
  | .sig n w => by
    rw [SConn.rename, denote_sig, denote_sig]
    simp only [allBits_rename]
  | .slice p idx => by
    rw [SConn.rename, denote_slice, denote_slice, denote_rename ρ p]
    cases p.denote with
    | error e => rfl
    | ok bs =>
      simp only [List.length_map]
      cases sliceInner bs.length idx with
      | error e => rfl
      | ok inner => simp only; rw [pick_map]; cases pick bs inner.bits <;> rfl
  | .concat ps => by
    rw [SConn.rename, denote_concat, denote_concat, denoteList_rename ρ ps]
theorem denoteList_rename (ρ : String → String) : ∀ (ps : List SConn),
    denoteList (renameList ρ ps) = (match denoteList ps with | .ok bs => .ok (bs.map (renameBit ρ)) | .error e => .error e)
  | [] => by rw [renameList, denoteList_nil]; rfl
  | p :: ps => by
    rw [renameList, denoteList_cons, denoteList_cons, denote_rename ρ p, denoteList_rename ρ ps]
    cases p.denote with
    | error e => rfl
    | ok a =>
      cases denoteList ps with
      | error e => rfl
      | ok b => simp
end

end Hdl21
