/-
# Lemmas for the hashed-name encoder (C09)
-/
import Hdl21Model.NameEnc
namespace Hdl21.NameEnc

theorem kind_mem : ∀ (t : Ty) (v : PV), has t v = true → (enc v).kind ∈ t.kinds
  | .none, v, h => by cases v <;> simp [has] at h <;> simp [enc, JV.kind, Ty.kinds]
  | .bool, v, h => by cases v <;> simp [has] at h <;> simp [enc, JV.kind, Ty.kinds]
  | .int, v, h => by cases v <;> simp [has] at h <;> simp [enc, JV.kind, Ty.kinds]
  | .float, v, h => by cases v <;> simp [has] at h <;> simp [enc, JV.kind, Ty.kinds]
  | .str, v, h => by cases v <;> simp [has] at h <;> simp [enc, JV.kind, Ty.kinds]
  | .prefixed, v, h => by cases v <;> simp [has] at h <;> simp [enc, JV.kind, Ty.kinds]
  | .named, v, h => by cases v <;> simp [has] at h <;> simp [enc, JV.kind, Ty.kinds]
  | .tuple t, v, h => by cases v <;> simp [has] at h <;> simp [enc, JV.kind, Ty.kinds]
  | .pc fs, v, h => by cases v <;> simp [has] at h <;> simp [enc, JV.kind, Ty.kinds]
  | .enum t, v, h => by
    cases v <;> simp only [has] at h <;> try (exact absurd h (by decide))
    rename_i x
    have := kind_mem t x h
    simpa [enc, Ty.kinds] using this
  | .union a b, v, h => by
    simp only [has, Bool.or_eq_true] at h
    simp only [Ty.kinds, List.mem_append]
    rcases h with h | h
    · exact Or.inl (kind_mem a v h)
    · exact Or.inr (kind_mem b v h)

theorem encList_inj (t : Ty) (ih : ∀ a b, has t a = true → has t b = true → enc a = enc b → a = b) :
    ∀ (xs ys : List PV), xs.all (fun x => has t x) = true → ys.all (fun x => has t x) = true → encList xs = encList ys → xs = ys
  | [], [], _, _, _ => rfl
  | [], _ :: _, _, _, h => by simp [encList] at h
  | _ :: _, [], _, _, h => by simp [encList] at h
  | x :: xs, y :: ys, hx, hy, h => by
    simp only [List.all_cons, Bool.and_eq_true] at hx hy
    simp only [encList, List.cons.injEq] at h
    rw [ih x y hx.1 hy.1 h.1, encList_inj t ih xs ys hx.2 hy.2 h.2]

mutual
theorem enc_inj : ∀ (t : Ty), t.wf = true → ∀ (a b : PV), has t a = true → has t b = true → enc a = enc b → a = b
  | .none, _, a, b, ha, hb, _ => by cases a <;> simp [has] at ha <;> cases b <;> simp [has] at hb <;> rfl
  | .bool, _, a, b, ha, hb, h => by
    cases a <;> simp [has] at ha <;> cases b <;> simp [has] at hb
    simp only [enc, JV.bool.injEq] at h; rw [h]
  | .int, _, a, b, ha, hb, h => by
    cases a <;> simp [has] at ha <;> cases b <;> simp [has] at hb
    simp only [enc, JV.int.injEq] at h; rw [h]
  | .float, _, a, b, ha, hb, h => by
    cases a <;> simp [has] at ha <;> cases b <;> simp [has] at hb
    simp only [enc, JV.float.injEq] at h; rw [h]
  | .str, _, a, b, ha, hb, h => by
    cases a <;> simp [has] at ha <;> cases b <;> simp [has] at hb
    simp only [enc, JV.str.injEq] at h; rw [h]
  | .prefixed, _, a, b, ha, hb, h => by
    cases a <;> simp [has] at ha <;> cases b <;> simp [has] at hb
    simp only [enc, JV.str.injEq] at h; rw [h]
  | .named, _, a, b, ha, hb, h => by
    cases a <;> simp [has] at ha <;> cases b <;> simp [has] at hb
    simp only [enc, JV.str.injEq] at h; rw [h]
  | .enum t, hw, a, b, ha, hb, h => by
    cases a <;> simp only [has] at ha <;> try (exact absurd ha (by decide))
    cases b <;> simp only [has] at hb <;> try (exact absurd hb (by decide))
    rename_i x y
    simp only [enc] at h
    simp only [Ty.wf] at hw
    rw [enc_inj t hw x y ha hb h]
  | .tuple t, hw, a, b, ha, hb, h => by
    cases a <;> simp only [has] at ha <;> try (exact absurd ha (by decide))
    cases b <;> simp only [has] at hb <;> try (exact absurd hb (by decide))
    rename_i xs ys
    simp only [enc, JV.arr.injEq] at h
    simp only [Ty.wf] at hw
    rw [encList_inj t (enc_inj t hw) xs ys ha hb h]
  | .pc fs, hw, a, b, ha, hb, h => by
    cases a <;> simp only [has] at ha <;> try (exact absurd ha (by decide))
    cases b <;> simp only [has] at hb <;> try (exact absurd hb (by decide))
    rename_i xs ys
    simp only [enc, JV.obj.injEq] at h
    simp only [Ty.wf] at hw
    rw [encFields_inj fs hw xs ys ha hb h]
  | .union t u, hw, a, b, ha, hb, h => by
    simp only [Ty.wf, Bool.and_eq_true] at hw
    obtain ⟨⟨wt, wu⟩, hd⟩ := hw
    simp only [has, Bool.or_eq_true] at ha hb
    have clash : ∀ x y, has t x = true → has u y = true → enc x = enc y → False := by
      intro x y hx hy hxy
      have k1 := kind_mem t x hx
      have k2 := kind_mem u y hy
      rw [hxy] at k1
      have := List.all_eq_true.mp hd _ k1
      simp only [Bool.not_eq_true', List.contains_eq_mem, decide_eq_false_iff_not] at this
      exact this k2
    rcases ha with ha | ha <;> rcases hb with hb | hb
    · exact enc_inj t wt a b ha hb h
    · exact (clash a b ha hb h).elim
    · exact (clash b a hb ha h.symm).elim
    · exact enc_inj u wu a b ha hb h
theorem encFields_inj : ∀ (fs : List (String × Ty)), wfFields fs = true → ∀ (xs ys : List (String × PV)),
    hasFields fs xs = true → hasFields fs ys = true → encFields xs = encFields ys → xs = ys
  | [], _, xs, ys, hx, hy, _ => by
    cases xs <;> simp [hasFields] at hx
    cases ys <;> simp [hasFields] at hy
    rfl
  | (k, t) :: fs, hw, xs, ys, hx, hy, h => by
    cases xs with
    | nil => simp [hasFields] at hx
    | cons x xs =>
      cases ys with
      | nil => simp [hasFields] at hy
      | cons y ys =>
        obtain ⟨kx, vx⟩ := x
        obtain ⟨ky, vy⟩ := y
        simp only [hasFields, Bool.and_eq_true, decide_eq_true_eq] at hx hy
        simp only [wfFields, Bool.and_eq_true] at hw
        simp only [encFields, List.cons.injEq, Prod.mk.injEq] at h
        obtain ⟨⟨hk, hv⟩, hrest⟩ := h
        rw [hk, enc_inj t hw.1 vx vy hx.1.2 hy.1.2 hv, encFields_inj fs hw.2 xs ys hx.2 hy.2 hrest]
end

end Hdl21.NameEnc
