/-
# Canonical states: what a module looks like after `l` passes, whatever the history                     — C07

`C l x` is the state of module `x` after passes `0 … l-1`.  The one hypothesis about the concrete passes is
`Stable`: pass `k` applied to `x` in its state `C k x` returns `C (k+1) x`, *whatever* later state (`C l y`,
`l ≥ k+1`) the modules below `x` are in, and whatever any other module looks like.  (This is what
`_pre_flattening_io` and friends are for: a pass reads of an already-processed child only what later passes do not
change.)  Under it, every sequence of `elaborate` calls over any lists of tops leaves every module it ever
completed in the same state `C n x`.
-/
import Hdl21Model.Lemmas.Runner
namespace Hdl21.Runner

variable {S : Type}

/-- `x` has had exactly the passes `0 … l-1`, and is in the canonical state for that -/
def Lev (C : Nat → Nat → S) (st : RState S) (x l : Nat) : Prop :=
  (∀ j, st.done j x = true ↔ j < l) ∧ st.σ x = C l x

/-- what pass `k` may assume of the design when it runs on `x` -/
def Compatible (sys : Sys S) (C : Nat → Nat → S) (k x : Nat) (σ : Nat → S) : Prop :=
  σ x = C k x ∧ ∀ y, Reach sys x y → y ≠ x → ∃ l, k + 1 ≤ l ∧ σ y = C l y

/-- the hypothesis on the passes -/
def Stable (sys : Sys S) (C : Nat → Nat → S) (n : Nat) : Prop :=
  ∀ k x σ, k < n → Compatible sys C k x σ → sys.apply k σ x = some (C (k + 1) x)

/-- the invariant of the persistent state -/
structure Inv (sys : Sys S) (C : Nat → Nat → S) (n : Nat) (st : RState S) : Prop where
  nofail : ∀ x, st.failed x = false
  closed : ∀ k, DoneClosed sys k st
  lev : ∀ x, ∃ l, l ≤ n ∧ Lev C st x l

/-- all passes before `k` have completed on everything below `m` -/
def Pre (sys : Sys S) (k : Nat) (st : RState S) (m : Nat) : Prop :=
  ∀ y, Reach sys m y → ∀ j, j < k → st.done j y = true

/-- what a visit of pass `k` changes, module by module -/
def Step (sys : Sys S) (C : Nat → Nat → S) (k m : Nat) (st st' : RState S) : Prop :=
  ∀ x, (st'.σ x = st.σ x ∧ ∀ j, st'.done j x = st.done j x) ∨
       (Reach sys m x ∧ st.done k x = false ∧ Lev C st' x (k + 1))

theorem reach_lt (sys : Sys S) (hdag : ∀ m c, c ∈ sys.children m → c < m) {m y : Nat} (h : Reach sys m y) : y ≤ m := by
  induction h with
  | refl _ => exact Nat.le_refl _
  | step m c x hc _ ih => exact Nat.le_trans ih (Nat.le_of_lt (hdag m c hc))

theorem reach_trans (sys : Sys S) {a b c : Nat} (h1 : Reach sys a b) (h2 : Reach sys b c) : Reach sys a c := by
  induction h1 with
  | refl _ => exact h2
  | step m c' x hc _ ih => exact .step m c' c hc (ih h2)

theorem reach_cases (sys : Sys S) {m y : Nat} (h : Reach sys m y) : y = m ∨ ∃ c ∈ sys.children m, Reach sys c y := by
  cases h with
  | refl _ => exact Or.inl rfl
  | step _ c _ hc hr => exact Or.inr ⟨c, hc, hr⟩

theorem Step.refl (sys : Sys S) (C : Nat → Nat → S) (k m : Nat) (st : RState S) : Step sys C k m st st :=
  fun _ => Or.inl ⟨rfl, fun _ => rfl⟩

/-- a step below `c` followed by a step below `c'`, both inside `m`, with pass-`k` marks only growing -/
theorem Step.trans {sys : Sys S} {C : Nat → Nat → S} {k m c c' : Nat} {a b d : RState S}
    (hcm : ∀ x, Reach sys c x → Reach sys m x) (hcm' : ∀ x, Reach sys c' x → Reach sys m x)
    (h1 : Step sys C k c a b) (h2 : Step sys C k c' b d) : Step sys C k m a d := by
  intro x
  rcases h2 x with ⟨hs, hd⟩ | ⟨hr, hnd, hl⟩
  · rcases h1 x with ⟨hs1, hd1⟩ | ⟨hr1, hnd1, hl1⟩
    · exact Or.inl ⟨by rw [hs, hs1], fun j => by rw [hd j, hd1 j]⟩
    · refine Or.inr ⟨hcm x hr1, hnd1, ?_⟩
      refine ⟨fun j => ?_, by rw [hs]; exact hl1.2⟩
      rw [hd j]; exact hl1.1 j
  · refine Or.inr ⟨hcm' x hr, ?_, hl⟩
    rcases h1 x with ⟨_, hd1⟩ | ⟨_, _, hl1⟩
    · rw [← hd1 k]; exact hnd
    · have := (hl1.1 k).mpr (Nat.lt_succ_self k)
      rw [this] at hnd; cases hnd

theorem inv_of_step {sys : Sys S} {C : Nat → Nat → S} {n k m : Nat} {st st' : RState S} (hk : k < n)
    (hi : Inv sys C n st) (hs : Step sys C k m st st') (hf : ∀ x, st'.failed x = false)
    (hc : ∀ j, DoneClosed sys j st') : Inv sys C n st' := by
  refine ⟨hf, hc, fun x => ?_⟩
  rcases hs x with ⟨hσ, hd⟩ | ⟨_, _, hl⟩
  · obtain ⟨l, hl, hlev⟩ := hi.lev x
    exact ⟨l, hl, fun j => by rw [hd j]; exact hlev.1 j, by rw [hσ]; exact hlev.2⟩
  · exact ⟨k + 1, hk, hl⟩

end Hdl21.Runner

namespace Hdl21.Runner
variable {S : Type}

theorem closed_reach' (sys : Sys S) (k : Nat) (s : RState S) (hc : DoneClosed sys k s) :
    ∀ m x, Reach sys m x → s.done k m = true → s.done k x = true := by
  intro m x h
  induction h with
  | refl m => exact id
  | step m c x hcm _ ih => intro hm; exact ih (hc m hm c hcm)

theorem foldVisit_above (sys : Sys S) (hdag : ∀ m c, c ∈ sys.children m → c < m) (k fuel m : Nat) :
    ∀ (cs : List Nat) (a : RState S) (b : Bool), (∀ c ∈ cs, c < m) → Above m a (foldVisit sys k fuel cs (a, b)).1 := by
  intro cs
  induction cs with
  | nil => intro a b _; exact Above.refl _ a
  | cons c cs ih =>
    intro a b hcs
    cases b with
    | false => rw [foldVisit_false]; exact Above.refl _ a
    | true =>
      rw [foldVisit_cons]
      have h1 := (visit_above sys hdag k fuel a c).mono (Nat.succ_le_of_lt (hcs c (by simp)))
      cases hv : visit sys k fuel a c with
      | mk a1 b1 =>
        rw [hv] at h1
        exact h1.trans (ih a1 b1 (fun x hx => hcs x (by simp [hx])))

/-- the closure invariants survive a visit of pass `k` (for `k` by `visit_spec`, for the others because their marks do not move) -/
theorem closed_after_visit (sys : Sys S) (hdag : ∀ m c, c ∈ sys.children m → c < m) (k fuel : Nat) (st : RState S) (m : Nat)
    (hc : ∀ j, DoneClosed sys j st) : ∀ j, DoneClosed sys j (visit sys k fuel st m).1 := by
  intro j
  by_cases hj : j = k
  · subst hj; exact (visit_spec sys hdag j fuel st m).1.closed (hc j)
  · intro x hx c hcx
    have ho := (visit_spec sys hdag k fuel st m).1.done_other
    rw [ho j x hj] at hx
    rw [ho j c hj]
    exact hc j x hx c hcx

/-- What a visit of pass `k` does to a state that satisfies the invariant, when all earlier passes are complete below `m`. -/
structure Canon (sys : Sys S) (C : Nat → Nat → S) (k m : Nat) (st : RState S) (r : RState S × Bool) : Prop where
  ok : r.2 = true
  step : Step sys C k m st r.1
  nofail : ∀ x, r.1.failed x = false
  below : ∀ y, Reach sys m y → r.1.done k y = true

theorem pre_after (sys : Sys S) (hdag : ∀ m c, c ∈ sys.children m → c < m) (k fuel : Nat) (st : RState S) (c t : Nat)
    (hp : Pre sys k st t) : Pre sys k (visit sys k fuel st c).1 t := by
  intro y hy j hj
  rw [(visit_spec sys hdag k fuel st c).1.done_other j y (Nat.ne_of_lt hj)]
  exact hp y hy j hj

theorem visit_canon (sys : Sys S) (hdag : ∀ m c, c ∈ sys.children m → c < m) (C : Nat → Nat → S) (n : Nat)
    (hst : Stable sys C n) (k : Nat) (hk : k < n) :
    ∀ (fuel : Nat) (st : RState S) (m : Nat), m < fuel → Inv sys C n st → Pre sys k st m →
      Canon sys C k m st (visit sys k fuel st m)
  | 0, _, m, hm, _, _ => by omega
  | fuel + 1, st, m, hm, hi, hp => by
    rw [visit]
    have hnf : st.failed m = false := hi.nofail m
    simp only [hnf, Bool.false_eq_true, if_false]
    split
    · rename_i hd
      exact ⟨rfl, Step.refl sys C k m st, hi.nofail, fun y hy => closed_reach' sys k st (hi.closed k) m y hy hd⟩
    · rename_i hnd
      have hnd' : st.done k m = false := by simpa using hnd
      -- the fold over the children
      have fold : ∀ (cs : List Nat) (a : RState S), (∀ c ∈ cs, c ∈ sys.children m) → Inv sys C n a → Pre sys k a m →
          (foldVisit sys k fuel cs (a, true)).2 = true ∧ Step sys C k m a (foldVisit sys k fuel cs (a, true)).1 ∧
          Inv sys C n (foldVisit sys k fuel cs (a, true)).1 ∧ Pre sys k (foldVisit sys k fuel cs (a, true)).1 m ∧
          (∀ c ∈ cs, ∀ y, Reach sys c y → (foldVisit sys k fuel cs (a, true)).1.done k y = true) := by
        intro cs
        induction cs with
        | nil => intro a _ hia hpa; exact ⟨rfl, Step.refl sys C k m a, hia, hpa, fun c hc => by cases hc⟩
        | cons c cs ih =>
          intro a hcs hia hpa
          rw [foldVisit_cons]
          have hcm : c ∈ sys.children m := hcs c (List.mem_cons_self ..)
          have hclt : c < m := hdag m c hcm
          have hpc : Pre sys k a c := fun y hy => hpa y (.step m c y hcm hy)
          have hv := visit_canon sys hdag C n hst k hk fuel a c (by omega) hia hpc
          have hcl := closed_after_visit sys hdag k fuel a c hia.closed
          have hpre := pre_after sys hdag k fuel a c m hpa
          have hmono := (visit_spec sys hdag k fuel a c).1.done_mono
          cases hvc : visit sys k fuel a c with
          | mk a1 b1 =>
            rw [hvc] at hv hcl hpre hmono
            have hb1 : b1 = true := hv.ok
            subst hb1
            have hia1 : Inv sys C n a1 := inv_of_step hk hia hv.step hv.nofail hcl
            obtain ⟨ok2, st2, inv2, pre2, below2⟩ := ih a1 (fun x hx => hcs x (List.mem_cons_of_mem _ hx)) hia1 hpre
            refine ⟨ok2, ?_, inv2, pre2, ?_⟩
            · -- compose the two steps, both inside `m`
              intro x
              rcases st2 x with ⟨hs, hd⟩ | ⟨hr, hnd2, hl⟩
              · rcases hv.step x with ⟨hs1, hd1⟩ | ⟨hr1, hnd1, hl1⟩
                · exact Or.inl ⟨by rw [hs, hs1], fun j => by rw [hd j, hd1 j]⟩
                · refine Or.inr ⟨.step m c x hcm hr1, hnd1, fun j => ?_, by rw [hs]; exact hl1.2⟩
                  rw [hd j]; exact hl1.1 j
              · refine Or.inr ⟨hr, ?_, hl⟩
                rcases hv.step x with ⟨_, hd1⟩ | ⟨_, _, hl1⟩
                · rw [← hd1 k]; exact hnd2
                · have := (hl1.1 k).mpr (Nat.lt_succ_self k)
                  rw [this] at hnd2; cases hnd2
            · intro c' hc' y hy
              rcases List.mem_cons.mp hc' with rfl | hc''
              · -- done by the first visit, kept by the rest
                have h1 := hv.below y hy
                have hm2 : ∀ (cs' : List Nat) (s : RState S), s.done k y = true → (foldVisit sys k fuel cs' (s, true)).1.done k y = true := by
                  intro cs'
                  induction cs' with
                  | nil => intro s hs; exact hs
                  | cons d ds ihd =>
                    intro s hs
                    rw [foldVisit_cons]
                    have := (visit_spec sys hdag k fuel s d).1.done_mono k y hs
                    cases hvd : visit sys k fuel s d with
                    | mk s1 bb =>
                      rw [hvd] at this
                      cases bb with
                      | false => rw [foldVisit_false]; exact this
                      | true => exact ihd s1 this
                exact hm2 cs a1 h1
              · exact below2 c' hc'' y hy
      obtain ⟨fok, fstep, finv, fpre, fbelow⟩ := fold (sys.children m) st (fun c hc => hc) hi hp
      have habove := foldVisit_above sys hdag k fuel m (sys.children m) st true (fun c hc => hdag m c hc)
      have hfold : (List.foldl (fun (acc : RState S × Bool) c => if acc.2 then visit sys k fuel acc.1 c else acc) (st, true) (sys.children m))
          = foldVisit sys k fuel (sys.children m) (st, true) := rfl
      simp only [hfold]
      generalize hr : foldVisit sys k fuel (sys.children m) (st, true) = r at *
      obtain ⟨r1, b1⟩ := r
      simp only [] at fok fstep finv fpre fbelow habove ⊢
      subst fok
      simp only [Bool.not_true, Bool.false_eq_true, if_false]
      obtain ⟨hσm, hdm, _⟩ := habove m (Nat.le_refl m)
      -- the state pass `k` sees is compatible
      have hcomp : Compatible sys C k m r1.σ := by
        constructor
        · obtain ⟨l, _, hl⟩ := hi.lev m
          have h1 : k ≤ l := by
            rcases Nat.lt_or_ge l k with h | h
            · have := (hl.1 l).mp (hp m (.refl m) l h); omega
            · exact h
          have h2 : l ≤ k := by
            rcases Nat.lt_or_ge k l with h | h
            · have := (hl.1 k).mpr h; rw [hnd'] at this; cases this
            · exact h
          have : l = k := by omega
          subst this
          rw [hσm]; exact hl.2
        · intro y hy hne
          rcases reach_cases sys hy with rfl | ⟨c, hc, hcy⟩
          · exact absurd rfl hne
          · have hdk := fbelow c hc y hcy
            obtain ⟨l, _, hl⟩ := finv.lev y
            exact ⟨l, (hl.1 k).mp hdk, hl.2⟩
      rw [hst k m r1.σ hk hcomp]
      simp only []
      refine ⟨rfl, ?_, fun x => finv.nofail x, ?_⟩
      · intro x
        by_cases hxm : x = m
        · subst hxm
          refine Or.inr ⟨.refl x, hnd', fun j => ?_, by simp⟩
          simp only []
          obtain ⟨l, _, hl⟩ := hi.lev x
          -- as above, l = k
          have h1 : k ≤ l := by
            rcases Nat.lt_or_ge l k with h | h
            · have := (hl.1 l).mp (hp x (.refl x) l h); omega
            · exact h
          have h2 : l ≤ k := by
            rcases Nat.lt_or_ge k l with h | h
            · have := (hl.1 k).mpr h; rw [hnd'] at this; cases this
            · exact h
          have : l = k := by omega
          subst this
          by_cases hjk : j = l
          · subst hjk; simp
          · simp only [hjk, false_and, if_false]
            rw [hdm j, hl.1 j]; omega
        · rcases fstep x with ⟨hs, hd⟩ | ⟨hrx, hndx, hlx⟩
          · left
            refine ⟨by simp only []; rw [if_neg hxm]; exact hs, fun j => ?_⟩
            simp only []; rw [if_neg (by intro h; exact hxm h.2)]; exact hd j
          · right
            refine ⟨hrx, hndx, fun j => ?_, by simp only []; rw [if_neg hxm]; exact hlx.2⟩
            simp only []; rw [if_neg (by intro h; exact hxm h.2)]; exact hlx.1 j
      · intro y hy
        simp only []
        rcases reach_cases sys hy with rfl | ⟨c, hc, hcy⟩
        · simp
        · have := fbelow c hc y hcy
          by_cases h : k = k ∧ y = m <;> simp [this]

end Hdl21.Runner

namespace Hdl21.Runner
variable {S : Type}

/-- one visit, packaged: invariant kept, completed modules stay completed, marks only grow -/
theorem visit_keeps (sys : Sys S) (hdag : ∀ m c, c ∈ sys.children m → c < m) (C : Nat → Nat → S) (n : Nat)
    (hst : Stable sys C n) (k : Nat) (hk : k < n) (fuel : Nat) (st : RState S) (m : Nat) (hm : m < fuel)
    (hi : Inv sys C n st) (hp : Pre sys k st m) :
    (visit sys k fuel st m).2 = true ∧ Inv sys C n (visit sys k fuel st m).1 ∧
    Pre sys (k + 1) (visit sys k fuel st m).1 m ∧
    (∀ x, Lev C st x n → Lev C (visit sys k fuel st m).1 x n) ∧
    (∀ j x, st.done j x = true → (visit sys k fuel st m).1.done j x = true) := by
  have hv := visit_canon sys hdag C n hst k hk fuel st m hm hi hp
  have hcl := closed_after_visit sys hdag k fuel st m hi.closed
  have hmono := (visit_spec sys hdag k fuel st m).1.done_mono
  refine ⟨hv.ok, inv_of_step hk hi hv.step hv.nofail hcl, ?_, ?_, hmono⟩
  · intro y hy j hj
    rcases Nat.lt_succ_iff_lt_or_eq.mp hj with h | h
    · exact hmono j y (hp y hy j h)
    · subst h; exact hv.below y hy
  · intro x hl
    rcases hv.step x with ⟨hs, hd⟩ | ⟨_, hnd, _⟩
    · exact ⟨fun j => by rw [hd j]; exact hl.1 j, by rw [hs]; exact hl.2⟩
    · have := (hl.1 k).mpr hk
      rw [this] at hnd; cases hnd

/-- pass `k` over a list of tops -/
def passOver (sys : Sys S) (k fuel : Nat) (tops : List Nat) (acc : RState S × Bool) : RState S × Bool :=
  tops.foldl (fun (a : RState S × Bool) t => if a.2 then visit sys k fuel a.1 t else a) acc

theorem passOver_cons (sys : Sys S) (k fuel t : Nat) (ts : List Nat) (a : RState S) :
    passOver sys k fuel (t :: ts) (a, true) = passOver sys k fuel ts (visit sys k fuel a t) := by
  unfold passOver; simp [List.foldl_cons]

theorem passOver_keeps (sys : Sys S) (hdag : ∀ m c, c ∈ sys.children m → c < m) (C : Nat → Nat → S) (n : Nat)
    (hst : Stable sys C n) (k : Nat) (hk : k < n) (fuel : Nat) :
    ∀ (ts : List Nat) (a : RState S), (∀ t ∈ ts, t < fuel) → Inv sys C n a → (∀ t ∈ ts, Pre sys k a t) →
      (passOver sys k fuel ts (a, true)).2 = true ∧ Inv sys C n (passOver sys k fuel ts (a, true)).1 ∧
      (∀ t ∈ ts, Pre sys (k + 1) (passOver sys k fuel ts (a, true)).1 t) ∧
      (∀ x, Lev C a x n → Lev C (passOver sys k fuel ts (a, true)).1 x n) ∧
      (∀ j x, a.done j x = true → (passOver sys k fuel ts (a, true)).1.done j x = true) := by
  intro ts
  induction ts with
  | nil => intro a _ hi _; exact ⟨rfl, hi, (fun t ht => by cases ht), (fun x h => h), (fun j x h => h)⟩
  | cons t ts ih =>
    intro a hf hi hp
    have hv := visit_keeps sys hdag C n hst k hk fuel a t (hf t (List.mem_cons_self ..)) hi (hp t (List.mem_cons_self ..))
    rw [passOver_cons]
    cases hvc : visit sys k fuel a t with
    | mk a1 b1 =>
      rw [hvc] at hv
      obtain ⟨hb, hi1, hp1, hl1, hm1⟩ := hv
      simp only at hb; subst hb
      have hp' : ∀ t' ∈ ts, Pre sys k a1 t' := fun t' ht' y hy j hj => hm1 j y (hp t' (List.mem_cons_of_mem _ ht') y hy j hj)
      obtain ⟨ok2, inv2, pre2, lev2, mono2⟩ := ih a1 (fun t' ht' => hf t' (List.mem_cons_of_mem _ ht')) hi1 hp'
      refine ⟨ok2, inv2, ?_, fun x h => lev2 x (hl1 x h), fun j x h => mono2 j x (hm1 j x h)⟩
      intro t' ht'
      rcases List.mem_cons.mp ht' with rfl | h
      · intro y hy j hj; exact mono2 j y (hp1 y hy j hj)
      · exact pre2 t' h

theorem elaborate_eq (sys : Sys S) (npasses fuel : Nat) (tops : List Nat) (st : RState S) :
    elaborate sys npasses fuel tops st =
      (List.range npasses).foldl (fun acc k => if acc.2 then passOver sys k fuel tops acc else acc) (st, true) := rfl

/-- all passes `0 … n'-1` over the tops, for any `n' ≤ n` -/
theorem passes_keep (sys : Sys S) (hdag : ∀ m c, c ∈ sys.children m → c < m) (C : Nat → Nat → S) (n : Nat)
    (hst : Stable sys C n) (fuel : Nat) (tops : List Nat) (hf : ∀ t ∈ tops, t < fuel) (st : RState S) (hi : Inv sys C n st) :
    ∀ n', n' ≤ n →
      let r := (List.range n').foldl (fun (acc : RState S × Bool) k => if acc.2 then passOver sys k fuel tops acc else acc) (st, true)
      r.2 = true ∧ Inv sys C n r.1 ∧ (∀ t ∈ tops, Pre sys n' r.1 t) ∧ (∀ x, Lev C st x n → Lev C r.1 x n) ∧
      (∀ j x, st.done j x = true → r.1.done j x = true) := by
  intro n'
  induction n' with
  | zero =>
    intro _
    exact ⟨rfl, hi, fun t _ y _ j hj => by omega, fun x h => h, fun j x h => h⟩
  | succ k ih =>
    intro hk
    obtain ⟨ok, inv, pre, lev, mono⟩ := ih (by omega)
    simp only [List.range_succ, List.foldl_append, List.foldl_cons, List.foldl_nil]
    generalize hr : (List.range k).foldl (fun (acc : RState S × Bool) k => if acc.2 then passOver sys k fuel tops acc else acc) (st, true) = r at *
    obtain ⟨r1, b1⟩ := r
    simp only at ok inv pre lev mono ⊢
    subst ok
    simp only [if_true]
    obtain ⟨ok2, inv2, pre2, lev2, mono2⟩ := passOver_keeps sys hdag C n hst k (by omega) fuel tops r1 hf inv pre
    exact ⟨ok2, inv2, pre2, fun x h => lev2 x (lev x h), fun j x h => mono2 j x (mono j x h)⟩

/-- the fresh state: nothing elaborated yet -/
def fresh (C : Nat → Nat → S) : RState S := { σ := C 0, done := fun _ _ => false, failed := fun _ => false }

theorem inv_fresh (sys : Sys S) (C : Nat → Nat → S) (n : Nat) : Inv sys C n (fresh C) :=
  ⟨fun _ => rfl, fun k m h => by simp [fresh] at h, fun x => ⟨0, Nat.zero_le n, fun j => by simp [fresh], rfl⟩⟩

/-- one `elaborate` call -/
theorem elaborate_keeps (sys : Sys S) (hdag : ∀ m c, c ∈ sys.children m → c < m) (C : Nat → Nat → S) (n : Nat)
    (hst : Stable sys C n) (fuel : Nat) (tops : List Nat) (hf : ∀ t ∈ tops, t < fuel) (st : RState S) (hi : Inv sys C n st) :
    (elaborate sys n fuel tops st).2 = true ∧ Inv sys C n (elaborate sys n fuel tops st).1 ∧
    (∀ t ∈ tops, ∀ y, Reach sys t y → Lev C (elaborate sys n fuel tops st).1 y n) ∧
    (∀ x, Lev C st x n → Lev C (elaborate sys n fuel tops st).1 x n) := by
  rw [elaborate_eq]
  obtain ⟨ok, inv, pre, lev, _⟩ := passes_keep sys hdag C n hst fuel tops hf st hi n (Nat.le_refl n)
  refine ⟨ok, inv, ?_, lev⟩
  intro t ht y hy
  obtain ⟨l, hl, hlev⟩ := inv.lev y
  have : l = n := by
    rcases Nat.lt_or_ge l n with h | h
    · have := (hlev.1 l).mp (pre t ht y hy l h); omega
    · omega
  subst this
  exact hlev

end Hdl21.Runner
