import Hdl21Model.Prefix
import Mathlib.Tactic.Ring
import Mathlib.Tactic.FieldSimp
import Mathlib.Tactic.Linarith
import Mathlib.Tactic.Positivity
import Mathlib.Tactic.NormNum
import Mathlib.Algebra.Order.Field.Power
import Mathlib.Data.Rat.Defs
import Mathlib.Algebra.Order.Ring.Int
import Mathlib.Algebra.Order.Ring.Cast

namespace Hdl21

/-- The exact value of a Decimal representation. -/
def Dec.val (d : Dec) : ℚ := (d.c : ℚ) * (10 : ℚ) ^ d.e

/-- The exact value of a prefixed number. -/
def Prefixed.val (p : Prefixed) : ℚ := p.number.val * (10 : ℚ) ^ p.pre

theorem ten_ne : (10 : ℚ) ≠ 0 := by norm_num
theorem ten_pos (k : ℤ) : (0 : ℚ) < (10 : ℚ) ^ k := zpow_pos (by norm_num) k

theorem Dec.mulPow10_val (d : Dec) (k : ℤ) : (d.mulPow10 k).val = d.val * (10 : ℚ) ^ k := by
  unfold Dec.mulPow10 Dec.val
  split
  · rename_i h
    have hk : (k.toNat : ℤ) = k := Int.toNat_of_nonneg h
    simp only []
    push_cast
    rw [← zpow_natCast, hk]
    ring
  · simp only []
    rw [zpow_add₀ ten_ne]
    ring

theorem Dec.neg_val (d : Dec) : d.neg.val = -d.val := by
  unfold Dec.neg Dec.val; push_cast; ring

theorem Dec.abs_val (d : Dec) : d.abs.val = |d.val| := by
  unfold Dec.abs Dec.val
  rw [abs_mul, abs_of_pos (ten_pos d.e)]
  simp only []
  rw [Int.cast_natCast, Nat.cast_natAbs, Int.cast_abs]

theorem Dec.mul_val (a b : Dec) : (a.mul b).val = a.val * b.val := by
  unfold Dec.mul Dec.val
  simp only []
  rw [zpow_add₀ ten_ne]; push_cast; ring

theorem shift_val (c e m : ℤ) (h : m ≤ e) :
    ((c * 10 ^ (e - m).toNat : ℤ) : ℚ) * (10 : ℚ) ^ m = (c : ℚ) * (10 : ℚ) ^ e := by
  have hk : ((e - m).toNat : ℤ) = e - m := Int.toNat_of_nonneg (by omega)
  push_cast
  rw [← zpow_natCast, hk, mul_assoc, ← zpow_add₀ ten_ne]
  congr 2; ring

theorem Dec.add_val (a b : Dec) : (a.add b).val = a.val + b.val := by
  unfold Dec.add Dec.val
  simp only []
  push_cast
  rw [add_mul]
  have h1 := shift_val a.c a.e (min a.e b.e) (min_le_left _ _)
  have h2 := shift_val b.c b.e (min a.e b.e) (min_le_right _ _)
  push_cast at h1 h2
  rw [h1, h2]

theorem Dec.sub_val (a b : Dec) : (a.sub b).val = a.val - b.val := by
  unfold Dec.sub; rw [Dec.add_val, Dec.neg_val]; ring

theorem Dec.scaleb_val (d : Dec) (k : ℤ) : (d.scaleb k).val = d.val * (10 : ℚ) ^ k := by
  unfold Dec.scaleb Dec.val
  simp only []
  rw [zpow_add₀ ten_ne]; ring

theorem Prefixed.scale_val (p : Prefixed) (t : ℤ) : (p.scale t).val = p.val := by
  unfold Prefixed.scale Prefixed.val
  simp only []
  rw [Dec.mulPow10_val, mul_assoc, ← zpow_add₀ ten_ne]
  congr 2; ring

theorem Prefixed.scaleAuto_val (p : Prefixed) : p.scaleAuto.val = p.val :=
  Prefixed.scale_val p _

end Hdl21

namespace Hdl21

/-- Nearest-integer-ties-to-even, as a relation between a rational and an integer. -/
def IsRoundHalfEven (x : ℚ) (r : ℤ) : Prop :=
  |(r : ℚ) - x| < 1 / 2 ∨ (|(r : ℚ) - x| = 1 / 2 ∧ r % 2 = 0)

theorem IsRoundHalfEven.dist_le {x : ℚ} {r : ℤ} (h : IsRoundHalfEven x r) : |(r : ℚ) - x| ≤ 1 / 2 := by
  rcases h with h | ⟨h, _⟩
  · exact le_of_lt h
  · exact le_of_eq h

theorem IsRoundHalfEven.unique {x : ℚ} {r s : ℤ} (hr : IsRoundHalfEven x r) (hs : IsRoundHalfEven x s) :
    r = s := by
  have h1 := hr.dist_le
  have h2 := hs.dist_le
  have hd : |(r : ℚ) - s| ≤ 1 := by
    have : (r : ℚ) - s = ((r : ℚ) - x) - ((s : ℚ) - x) := by ring
    rw [this]
    calc |((r : ℚ) - x) - ((s : ℚ) - x)| ≤ |(r : ℚ) - x| + |(s : ℚ) - x| := abs_sub _ _
      _ ≤ 1 := by linarith
  have hdz : |r - s| ≤ 1 := by
    have : ((|r - s| : ℤ) : ℚ) ≤ 1 := by rw [Int.cast_abs]; push_cast; exact hd
    exact_mod_cast this
  rcases abs_le.1 hdz with ⟨hlo, hhi⟩
  by_contra hne
  have hcase : r - s = 1 ∨ r - s = -1 := by omega
  -- then both distances are exactly 1/2, so both are even: impossible
  have hsum : (1 : ℚ) ≤ |(r : ℚ) - x| + |(s : ℚ) - x| := by
    have : |(r : ℚ) - s| = 1 := by
      rcases hcase with h | h
      · have : (r : ℚ) - s = 1 := by exact_mod_cast h
        rw [this]; norm_num
      · have : (r : ℚ) - s = -1 := by exact_mod_cast h
        rw [this]; norm_num
    have h3 : |(r : ℚ) - s| ≤ |(r : ℚ) - x| + |(s : ℚ) - x| := by
      have e : (r : ℚ) - s = ((r : ℚ) - x) - ((s : ℚ) - x) := by ring
      rw [e]; exact abs_sub _ _
    linarith
  have er : |(r : ℚ) - x| = 1 / 2 := by linarith
  have es : |(s : ℚ) - x| = 1 / 2 := by linarith
  have evr : r % 2 = 0 := by
    rcases hr with h | ⟨_, h⟩
    · rw [er] at h; exact absurd h (lt_irrefl _)
    · exact h
  have evs : s % 2 = 0 := by
    rcases hs with h | ⟨_, h⟩
    · rw [es] at h; exact absurd h (lt_irrefl _)
    · exact h
  omega

theorem divHalfEven_spec (n d : ℤ) (hd : 0 < d) :
    IsRoundHalfEven ((n : ℚ) / d) (Dec.divHalfEven n d) := by
  have hdq : (0 : ℚ) < d := by exact_mod_cast hd
  have hr0 : 0 ≤ n % d := Int.emod_nonneg n (by omega)
  have hr1 : n % d < d := Int.emod_lt_of_pos n hd
  have hdecomp : (n : ℚ) / d = (n / d : ℤ) + ((n % d : ℤ) : ℚ) / d := by
    have h := Int.mul_ediv_add_emod n d
    have h' : (n : ℚ) = (d : ℚ) * ((n / d : ℤ) : ℚ) + ((n % d : ℤ) : ℚ) := by exact_mod_cast h.symm
    rw [h']
    field_simp
  generalize hq : n / d = q at *
  generalize hr : n % d = r at *
  have hrq0 : (0 : ℚ) ≤ r := by exact_mod_cast hr0
  have hrq1 : (r : ℚ) < d := by exact_mod_cast hr1
  unfold Dec.divHalfEven IsRoundHalfEven
  simp only [hq, hr]
  rw [hdecomp]
  split
  · rename_i h
    left
    have h' : (2 : ℚ) * r < d := by exact_mod_cast h
    have : (q : ℚ) - (q + r / d) = -(r / d) := by ring
    rw [this, abs_neg, abs_of_nonneg (div_nonneg hrq0 hdq.le), div_lt_iff₀ hdq]
    linarith
  · split
    · rename_i h1 h
      left
      have h' : (d : ℚ) < 2 * r := by exact_mod_cast h
      have : ((q + 1 : ℤ) : ℚ) - (q + r / d) = 1 - r / d := by push_cast; ring
      rw [this, abs_of_nonneg (by rw [sub_nonneg, div_le_one hdq]; exact hrq1.le)]
      rw [sub_lt_comm, lt_div_iff₀ hdq]
      linarith
    · rename_i h1 h2
      have heq : 2 * r = d := by omega
      have heq' : (r : ℚ) / d = 1 / 2 := by
        have h2r : (d : ℚ) = 2 * r := by exact_mod_cast heq.symm
        rw [div_eq_iff (ne_of_gt hdq), h2r]; ring
      split
      · rename_i hev
        right
        refine ⟨?_, hev⟩
        have : (q : ℚ) - (q + r / d) = -(r / d) := by ring
        rw [this, abs_neg, heq']; norm_num
      · rename_i hodd
        right
        refine ⟨?_, by omega⟩
        have : ((q + 1 : ℤ) : ℚ) - (q + r / d) = 1 - r / d := by push_cast; ring
        rw [this, heq']; norm_num

/-- `round(d, places)` is the half-even rounding of `d · 10^places`. -/
theorem roundTo_spec (d : Dec) (places : ℕ) :
    IsRoundHalfEven (d.val * (10 : ℚ) ^ (places : ℤ)) (d.roundTo places) := by
  unfold Dec.roundTo
  simp only []
  split
  · rename_i h
    left
    have hk : ((d.e + places).toNat : ℤ) = d.e + places := Int.toNat_of_nonneg h
    have : ((d.c * 10 ^ (d.e + places).toNat : ℤ) : ℚ) = d.val * (10 : ℚ) ^ (places : ℤ) := by
      unfold Dec.val
      push_cast
      rw [← zpow_natCast, hk, zpow_add₀ ten_ne]; ring
    rw [this]; norm_num
  · rename_i h
    have hk : ((-(d.e + places)).toNat : ℤ) = -(d.e + places) := Int.toNat_of_nonneg (by omega)
    have hpos : (0 : ℤ) < 10 ^ (-(d.e + places)).toNat := by positivity
    have := divHalfEven_spec d.c (10 ^ (-(d.e + places)).toNat) hpos
    have hx : (d.c : ℚ) / ((10 ^ (-(d.e + places)).toNat : ℤ) : ℚ) = d.val * (10 : ℚ) ^ (places : ℤ) := by
      unfold Dec.val
      push_cast
      rw [← zpow_natCast, hk, zpow_neg, zpow_add₀ ten_ne]
      field_simp
    rw [hx] at this
    exact this

/-- Rounding is a function of the value, not of the representation. -/
theorem roundTo_congr (a b : Dec) (places : ℕ) (h : a.val = b.val) :
    a.roundTo places = b.roundTo places := by
  have ha := roundTo_spec a places
  have hb := roundTo_spec b places
  rw [h] at ha
  exact ha.unique hb

/-- Truncating division by a positive natural: the quotient towards zero. -/
theorem tdiv_spec (c : ℤ) (m : ℕ) (hm : 0 < m) :
    |c.tdiv m| * m ≤ |c| ∧ |c| < (|c.tdiv m| + 1) * m ∧ 0 ≤ c.tdiv m * c := by
  have key : ∀ n : ℕ, |(n : ℤ).tdiv m| * m ≤ |(n : ℤ)| ∧ |(n : ℤ)| < (|(n : ℤ).tdiv m| + 1) * m ∧
      0 ≤ (n : ℤ).tdiv m * n := by
    intro n
    rw [← Int.ofNat_tdiv]
    have h1 : (0 : ℤ) ≤ ((n / m : ℕ) : ℤ) := Int.natCast_nonneg _
    have h2 : (0 : ℤ) ≤ (n : ℤ) := Int.natCast_nonneg _
    rw [abs_of_nonneg h1, abs_of_nonneg h2]
    refine ⟨?_, ?_, mul_nonneg h1 h2⟩
    · exact_mod_cast Nat.div_mul_le_self n m
    · have := Nat.lt_div_mul_add hm (a := n)
      have h3 : n < (n / m + 1) * m := by rw [Nat.add_mul, Nat.one_mul]; exact this
      exact_mod_cast h3
  rcases Int.eq_nat_or_neg c with ⟨n, rfl | rfl⟩
  · exact key n
  · obtain ⟨k1, k2, k3⟩ := key n
    rw [Int.neg_tdiv, abs_neg, abs_neg]
    refine ⟨k1, k2, ?_⟩
    rw [neg_mul_neg]; exact k3

theorem toInt_spec (p : Prefixed) :
    |(p.toInt : ℚ)| ≤ |p.val| ∧ |p.val| < |(p.toInt : ℚ)| + 1 ∧ 0 ≤ (p.toInt : ℚ) * p.val := by
  have hv : p.val = (p.number.c : ℚ) * (10 : ℚ) ^ (p.number.e + p.pre) := by
    unfold Prefixed.val Dec.val; rw [mul_assoc, ← zpow_add₀ ten_ne]
  unfold Prefixed.toInt Prefixed.value Dec.scaleb Dec.toInt
  simp only []
  generalize p.number.c = c at *
  generalize p.number.e + p.pre = E at *
  rw [hv]
  split
  · rename_i h
    have hk : (E.toNat : ℤ) = E := Int.toNat_of_nonneg h
    have : ((c * 10 ^ E.toNat : ℤ) : ℚ) = (c : ℚ) * (10 : ℚ) ^ E := by
      push_cast; rw [← zpow_natCast, hk]
    rw [this]
    exact ⟨le_refl _, by linarith, mul_self_nonneg _⟩
  · rename_i h
    have hk : ((-E).toNat : ℤ) = -E := Int.toNat_of_nonneg (by omega)
    generalize hm : (-E).toNat = k at *
    have hmpos : 0 < 10 ^ k := by positivity
    have hcast : ((10 : ℤ) ^ k) = ((10 ^ k : ℕ) : ℤ) := by push_cast; rfl
    rw [hcast]
    obtain ⟨s1, s2, s3⟩ := tdiv_spec c (10 ^ k) hmpos
    generalize c.tdiv ((10 ^ k : ℕ) : ℤ) = t at *
    have hE : (10 : ℚ) ^ E = 1 / ((10 ^ k : ℕ) : ℚ) := by
      have : E = -(k : ℤ) := by omega
      rw [this, zpow_neg, zpow_natCast]; push_cast; ring
    rw [hE]
    have hmq : (0 : ℚ) < ((10 ^ k : ℕ) : ℚ) := by exact_mod_cast hmpos
    have q1 : |(t : ℚ)| * ((10 ^ k : ℕ) : ℚ) ≤ |(c : ℚ)| := by
      have : ((|t| * ((10 ^ k : ℕ) : ℤ) : ℤ) : ℚ) ≤ ((|c| : ℤ) : ℚ) := by exact_mod_cast s1
      simpa [Int.cast_abs] using this
    have q2 : |(c : ℚ)| < (|(t : ℚ)| + 1) * ((10 ^ k : ℕ) : ℚ) := by
      have : ((|c| : ℤ) : ℚ) < (((|t| + 1) * ((10 ^ k : ℕ) : ℤ) : ℤ) : ℚ) := by exact_mod_cast s2
      simpa [Int.cast_abs] using this
    have q3 : (0 : ℚ) ≤ (t : ℚ) * c := by exact_mod_cast s3
    rw [mul_one_div, abs_div, abs_of_pos hmq]
    refine ⟨?_, ?_, ?_⟩
    · rw [le_div_iff₀ hmq]; exact q1
    · rw [div_lt_iff₀ hmq]; exact q2
    · rw [mul_div_assoc']; exact div_nonneg q3 hmq.le

end Hdl21
