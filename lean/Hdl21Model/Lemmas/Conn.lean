import Hdl21Model.Conn
import Hdl21Model.Lemmas.Slice
namespace Hdl21
end Hdl21
