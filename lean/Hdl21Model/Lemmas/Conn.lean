import Hdl21Model.Conn
import Hdl21Model.Lemmas.Slice
namespace Hdl21

/-! ### `pick` -/

theorem pick_nil {α} (bs : List α) : pick bs [] = .ok [] := rfl

theorem pick_cons {α} (bs : List α) (k : Int) (ks : List Int) :
    pick bs (k :: ks) =
      (if k < 0 then .error (.reject "negative bit") else
        match bs[k.toNat]? with
        | some b => (match pick bs ks with | .ok r => .ok (b :: r) | .error e => .error e)
        | none => .error (.reject "bit out of range")) := by
  unfold pick
  rw [List.mapM_cons]
  split
  · rfl
  · split <;> rename_i h
    · simp only [h]
      cases hr : List.mapM (fun (k : Int) => if k < 0 then (Except.error (Err.reject "negative bit") : Except Err α) else
          match bs[k.toNat]? with
          | some b => Except.ok b
          | none => Except.error (Err.reject "bit out of range")) ks <;> rfl
    · simp only [h]; rfl

theorem pick_length {α} (bs : List α) (ks : List Int) (r : List α) (h : pick bs ks = .ok r) :
    r.length = ks.length := by
  induction ks generalizing r with
  | nil => simp [pick_nil] at h; subst h; rfl
  | cons k ks ih =>
    rw [pick_cons] at h
    split at h
    · cases h
    · split at h
      · cases hr : pick bs ks with
        | error e => simp [hr] at h
        | ok r' =>
          simp only [hr] at h
          injection h with h; subst h
          simp [ih r' hr]
      · cases h

/-- Picking in-range positions always succeeds. -/
theorem pick_ok {α} (bs : List α) (ks : List Int) (h : ∀ k ∈ ks, 0 ≤ k ∧ k < bs.length) :
    ∃ r, pick bs ks = .ok r := by
  induction ks with
  | nil => exact ⟨[], rfl⟩
  | cons k ks ih =>
    obtain ⟨r, hr⟩ := ih (fun x hx => h x (List.mem_cons_of_mem _ hx))
    obtain ⟨h0, h1⟩ := h k (by simp)
    rw [pick_cons, if_neg (by omega)]
    have : k.toNat < bs.length := by omega
    rw [List.getElem?_eq_getElem this]
    exact ⟨bs[k.toNat] :: r, by simp [hr]⟩

theorem pick_append {α} (bs : List α) (ks ls : List Int) (r s : List α)
    (h1 : pick bs ks = .ok r) (h2 : pick bs ls = .ok s) : pick bs (ks ++ ls) = .ok (r ++ s) := by
  induction ks generalizing r with
  | nil => simp [pick_nil] at h1; subst h1; simpa using h2
  | cons k ks ih =>
    rw [pick_cons] at h1
    rw [List.cons_append, pick_cons]
    split at h1
    · cases h1
    · rename_i hk
      rw [if_neg hk]
      split at h1
      · rename_i b hb
        cases hr : pick bs ks with
        | error e => simp [hr] at h1
        | ok r' =>
          simp only [hr] at h1
          injection h1 with h1; subst h1
          simp [ih r' hr]
      · cases h1

/-- Splitting a successful pick at the head. -/
theorem pick_cons_ok {α} (bs : List α) (k : Int) (ks : List Int) (r : List α)
    (h : pick bs (k :: ks) = .ok r) :
    ∃ b r', 0 ≤ k ∧ bs[k.toNat]? = some b ∧ pick bs ks = .ok r' ∧ r = b :: r' := by
  rw [pick_cons] at h
  split at h
  · cases h
  · rename_i hk
    split at h
    · rename_i b hb
      cases hr : pick bs ks with
      | error e => simp [hr] at h
      | ok r' =>
        simp only [hr] at h
        injection h with h
        exact ⟨b, r', by omega, hb, rfl, h.symm⟩
    · cases h

/-- The identity selection. -/
theorem pick_all {α} (bs : List α) : pick bs (arith 0 1 bs.length) = .ok bs := by
  have key : ∀ (pre post : List α), pick (pre ++ post) (arith pre.length 1 post.length) = .ok post := by
    intro pre post
    induction post generalizing pre with
    | nil => simp [arith, pick_nil]
    | cons x xs ih =>
      have harith : arith (pre.length : Int) 1 (x :: xs).length =
          (pre.length : Int) :: arith ((pre ++ [x]).length : Int) 1 xs.length := by
        rw [List.length_cons, arith_succ]
        simp
      rw [harith, pick_cons, if_neg (by omega)]
      have hget : (pre ++ x :: xs)[((pre.length : Int)).toNat]? = some x := by simp
      rw [hget]
      have := ih (pre ++ [x])
      rw [List.append_assoc, List.singleton_append] at this
      rw [this]
  simpa using key [] bs

/-! ### well-formed `Inner`s -/

/-- What every `SliceInner` computed by `sliceInner pw` satisfies. -/
structure InnerWF (pw : Nat) (s : Inner) : Prop where
  step_ne : s.step ≠ 0
  n_pos : 1 ≤ s.width
  bot_ge : 0 ≤ s.bot
  top_le : s.top ≤ pw
  pos : 0 < s.step → s.top = s.bot + (s.width - 1) * s.step + 1
  neg : s.step < 0 → s.bot = s.top - 1 + (s.width - 1) * s.step

theorem sliceInner_wf (pw : Nat) (idx : Index) (s : Inner) (h : sliceInner pw idx = .ok s) :
    InnerWF pw s := by
  cases idx with
  | int i =>
    simp only [sliceInner] at h
    split at h
    · cases h
    · rename_i hc
      injection h with h; subst h
      refine ⟨by simp, by simp, ?_, ?_, ?_, ?_⟩ <;> simp only [] <;> (try split) <;> (try intro _) <;> omega
  | range a b st =>
    simp only [sliceInner] at h
    split at h
    · cases h
    · rename_i hst
      generalize hstep : st.getD 1 = step at *
      generalize hadj : pyAdjust pw a b step = adj at *
      obtain ⟨start, stop⟩ := adj
      simp only [] at h
      split at h
      · cases h
      · rename_i hn
        have hb := pyAdjust_bounds pw a b step
        rw [hadj] at hb
        simp only [] at hb
        have hnpos : (1 : Int) ≤ (pyLen start stop step : Nat) := by omega
        split at h
        · rename_i hpos
          injection h with h; subst h
          have hlt : start < stop := by
            by_cases hc : start < stop
            · exact hc
            · exact absurd ((pyLen_zero_iff_pos hpos).2 hc) hn
          have hlen := pyLen_pos_step hpos hlt
          have hlast := last_lt_stop hpos hlt
          obtain ⟨hb1, hb2⟩ := hb.1 hpos
          refine ⟨hst, hnpos, hb1, ?_, fun _ => rfl, fun hneg => by simp only [] at hneg; omega⟩
          simp only []
          rw [hlen]
          have : (stop - start - 1) / step + 1 - 1 = (stop - start - 1) / step := by omega
          rw [this]; omega
        · rename_i hnpos'
          have hneg : step < 0 := by omega
          injection h with h; subst h
          have hlt : stop < start := by
            by_cases hc : stop < start
            · exact hc
            · exact absurd ((pyLen_zero_iff_neg hneg).2 hc) hn
          have hlen := pyLen_neg_step hneg hlt
          have hlast := last_gt_stop hneg hlt
          obtain ⟨hb1, hb2⟩ := hb.2 hneg
          have hmul : ∀ q : Int, q * step = -(q * (-step)) := by intro q; rw [Int.mul_neg]; omega
          refine ⟨hst, hnpos, ?_, by simp only []; omega, fun hp => by simp only [] at hp; omega, fun _ => by simp only []; omega⟩
          simp only []
          rw [hlen, hmul]
          have : (start - stop - 1) / (-step) + 1 - 1 = (start - stop - 1) / (-step) := by omega
          rw [this]; omega

/-- The bits of a well-formed inner, as an arithmetic progression from its first bit. -/
def Inner.first (s : Inner) : Int := if s.step < 0 then s.top - 1 else s.bot

theorem bits_eq_arith (s : Inner) : s.bits = arith s.first s.step s.width.toNat := by
  unfold Inner.bits Inner.first; split <;> rfl

theorem mul_le_of_le_nonneg {j q s : Int} (hj : j ≤ q) (hs : 0 ≤ s) : j * s ≤ q * s :=
  Int.mul_le_mul_of_nonneg_right hj hs

/-- Every bit of a well-formed inner lies inside the parent. -/
theorem InnerWF.inrange {pw : Nat} {s : Inner} (h : InnerWF pw s) : ∀ k ∈ s.bits, 0 ≤ k ∧ k < pw := by
  intro k hk
  rw [bits_eq_arith] at hk
  obtain ⟨j, hj, rfl⟩ := mem_arith.1 hk
  have hn := h.n_pos
  have hjw : (j : Int) ≤ s.width - 1 := by omega
  unfold Inner.first
  rcases Int.lt_trichotomy s.step 0 with hs | hs | hs
  · simp only [hs, if_true]
    have e := h.neg hs
    have h1 : (j : Int) * (-s.step) ≤ (s.width - 1) * (-s.step) := mul_le_of_le_nonneg hjw (by omega)
    have h0 : 0 ≤ (j : Int) * (-s.step) := Int.mul_nonneg (by omega) (by omega)
    have e1 : (j : Int) * s.step = -((j : Int) * (-s.step)) := by rw [Int.mul_neg]; omega
    have e2 : (s.width - 1) * s.step = -((s.width - 1) * (-s.step)) := by rw [Int.mul_neg]; omega
    have := h.bot_ge; have := h.top_le
    rw [e1]; rw [e2] at e
    constructor <;> omega
  · exact absurd hs h.step_ne
  · simp only [show ¬ s.step < 0 by omega, if_false]
    have e := h.pos hs
    have h1 : (j : Int) * s.step ≤ (s.width - 1) * s.step := mul_le_of_le_nonneg hjw (by omega)
    have h0 : 0 ≤ (j : Int) * s.step := Int.mul_nonneg (by omega) (by omega)
    have := h.bot_ge; have := h.top_le
    constructor <;> omega

/-! ### width vs denotation -/

theorem denote_sig (n : String) (w : Nat) : (SConn.sig n w).denote = .ok (allBits n w) := by
  unfold SConn.denote; rfl

theorem denote_slice (p : SConn) (idx : Index) :
    (SConn.slice p idx).denote =
      (match p.denote with
       | .ok bs => (match sliceInner bs.length idx with
                    | .ok inner => pick bs inner.bits
                    | .error e => .error e)
       | .error e => .error e) := by
  rw [SConn.denote]
  cases p.denote with
  | error e => rfl
  | ok bs =>
    simp only [bind, Except.bind]
    cases sliceInner bs.length idx <;> rfl

theorem denote_concat (ps : List SConn) : (SConn.concat ps).denote = denoteList ps := by
  rw [SConn.denote]

theorem denoteList_nil : denoteList [] = .ok [] := by rw [denoteList]

theorem denoteList_cons (p : SConn) (ps : List SConn) :
    denoteList (p :: ps) =
      (match p.denote with
       | .ok a => (match denoteList ps with | .ok b => .ok (a ++ b) | .error e => .error e)
       | .error e => .error e) := by
  rw [denoteList]
  cases p.denote with
  | error e => rfl
  | ok a =>
    simp only [bind, Except.bind]
    cases denoteList ps <;> rfl

theorem width_sig (n : String) (w : Nat) : (SConn.sig n w).width = .ok w := by rw [SConn.width]

theorem width_slice (p : SConn) (idx : Index) :
    (SConn.slice p idx).width =
      (match p.width with
       | .ok pw => (match sliceInner pw idx with
                    | .ok inner => .ok inner.width.toNat
                    | .error e => .error e)
       | .error e => .error e) := by
  rw [SConn.width]
  cases p.width with
  | error e => rfl
  | ok pw =>
    simp only [bind, Except.bind]
    cases sliceInner pw idx <;> rfl

theorem width_concat (ps : List SConn) : (SConn.concat ps).width = widthList ps := by rw [SConn.width]

theorem widthList_nil : widthList [] = .ok 0 := by rw [widthList]

theorem widthList_cons (p : SConn) (ps : List SConn) :
    widthList (p :: ps) =
      (match p.width with
       | .ok a => (match widthList ps with | .ok b => .ok (a + b) | .error e => .error e)
       | .error e => .error e) := by
  rw [widthList]
  cases p.width with
  | error e => rfl
  | ok a =>
    simp only [bind, Except.bind]
    cases widthList ps <;> rfl

theorem allBits_length (n : String) (w : Nat) : (allBits n w).length = w := by simp [allBits]

mutual
/-- A connectable with a width has a denotation of exactly that many bits. -/
theorem width_denote : (c : SConn) → ∀ w, c.width = .ok w → ∃ bs, c.denote = .ok bs ∧ bs.length = w
  | .sig n w0, w, h => by
    rw [width_sig] at h; injection h with h; subst h
    exact ⟨_, denote_sig n w0, allBits_length n w0⟩
  | .slice p idx, w, h => by
    rw [width_slice] at h
    cases hp : p.width with
    | error e => simp [hp] at h
    | ok pw =>
      simp only [hp] at h
      obtain ⟨pbs, hd, hl⟩ := width_denote p pw hp
      cases hi : sliceInner pw idx with
      | error e => simp [hi] at h
      | ok inner =>
        simp only [hi] at h
        injection h with h
        have wf := sliceInner_wf pw idx inner hi
        obtain ⟨r, hr⟩ := pick_ok pbs inner.bits (by rw [hl]; exact wf.inrange)
        refine ⟨r, ?_, ?_⟩
        · rw [denote_slice, hd]; simp only [hl, hi]; exact hr
        · rw [pick_length pbs inner.bits r hr, bits_eq_arith, arith_length]; exact h
  | .concat ps, w, h => by
    rw [width_concat] at h
    obtain ⟨bs, hd, hl⟩ := widthList_denote ps w h
    exact ⟨bs, by rw [denote_concat]; exact hd, hl⟩
theorem widthList_denote : (ps : List SConn) → ∀ w, widthList ps = .ok w →
    ∃ bs, denoteList ps = .ok bs ∧ bs.length = w
  | [], w, h => by
    rw [widthList_nil] at h; injection h with h; subst h
    exact ⟨[], denoteList_nil, rfl⟩
  | p :: ps, w, h => by
    rw [widthList_cons] at h
    cases hp : p.width with
    | error e => simp [hp] at h
    | ok a =>
      simp only [hp] at h
      cases hps : widthList ps with
      | error e => simp [hps] at h
      | ok b =>
        simp only [hps] at h
        injection h with h
        obtain ⟨as, hda, hla⟩ := width_denote p a hp
        obtain ⟨bs, hdb, hlb⟩ := widthList_denote ps b hps
        refine ⟨as ++ bs, ?_, by simp [hla, hlb, h]⟩
        rw [denoteList_cons, hda, hdb]
end

/-- If both exist, the width is the length of the denotation (the converse reading). -/
theorem denote_length_of_width {c : SConn} {w : Nat} {bs : List Bit}
    (hw : c.width = .ok w) (hd : c.denote = .ok bs) : bs.length = w := by
  obtain ⟨bs', hd', hl⟩ := width_denote c w hw
  rw [hd] at hd'; injection hd' with e; rw [e]; exact hl

/-! ### the decomposition steps of `_list_slice` -/

theorem sliceInner_int (pw : Nat) (k : Int) (h0 : 0 ≤ k) (h1 : k < pw) :
    sliceInner pw (.int k) = .ok ⟨k + 1, k, 1, 1⟩ := by
  simp only [sliceInner]
  rw [if_neg (by omega), if_neg (by omega)]

/-- A single in-range index denotes that one bit of the parent. -/
theorem slice_int_denote (p : SConn) (pbs : List Bit) (k : Int) (b : Bit)
    (hd : p.denote = .ok pbs) (h0 : 0 ≤ k) (hb : pbs[k.toNat]? = some b) :
    (SConn.slice p (.int k)).denote = .ok [b] := by
  have hlt : k.toNat < pbs.length := by
    rcases Nat.lt_or_ge k.toNat pbs.length with h | h
    · exact h
    · rw [List.getElem?_eq_none h] at hb; cases hb
  rw [denote_slice, hd]
  simp only []
  rw [sliceInner_int pbs.length k h0 (by omega)]
  simp only []
  have : Inner.bits ⟨k + 1, k, 1, 1⟩ = [k] := by
    simp [Inner.bits, arith]
  rw [this, pick_cons, if_neg (by omega), hb]
  simp [pick_nil]

theorem clamp_id {len step x : Int} (h0 : 0 ≤ x) (h1 : x < len) : pyClamp len step x = x := by
  unfold pyClamp; rw [if_neg (by omega), if_neg (by omega)]

theorem clamp_top_pos {len step x : Int} (hs : 0 < step) (h0 : 0 ≤ x) (h1 : x ≤ len) : pyClamp len step x = x := by
  unfold pyClamp
  rw [if_neg (by omega)]
  split
  · rw [if_neg (by omega)]; omega
  · rfl

/-- Positive step: the rest of the selection after its first bit is again a slice of the parent. -/
theorem tail_pos (pw : Nat) (s : Inner) (wf : InnerWF pw s) (hs : 0 < s.step) (m : Nat)
    (hw : s.width = (m : Int) + 2) :
    ∃ s', sliceInner pw (.range (some (s.bot + s.step)) (some s.top) (some s.step)) = .ok s' ∧
      s.bits = s.bot :: s'.bits ∧ 0 ≤ s.bot ∧ s.bot < pw := by
  have e := wf.pos hs
  have hb := wf.bot_ge
  have ht := wf.top_le
  rw [hw] at e
  have hm0 : 0 ≤ (m : Int) * s.step := Int.mul_nonneg (by omega) (by omega)
  have e' : s.top = s.bot + s.step + (m : Int) * s.step + 1 := by
    have : ((m : Int) + 2 - 1) * s.step = s.step + (m : Int) * s.step := by
      rw [show (m : Int) + 2 - 1 = (m : Int) + 1 by omega, Int.add_mul]; omega
    omega
  have hstart : pyClamp pw s.step (s.bot + s.step) = s.bot + s.step := clamp_id (by omega) (by omega)
  have hstop : pyClamp pw s.step s.top = s.top := clamp_top_pos hs (by omega) ht
  have hlen : pyLen (s.bot + s.step) s.top s.step = m + 1 := by
    unfold pyLen
    rw [if_neg (by omega), if_pos (by omega)]
    have : s.top - (s.bot + s.step) - 1 = (m : Int) * s.step := by omega
    rw [this, Int.mul_ediv_cancel _ (by omega : s.step ≠ 0)]
    omega
  refine ⟨⟨s.bot + s.step + ((m : Int) + 1 - 1) * s.step + 1, s.bot + s.step, s.step, ((m + 1 : Nat) : Int)⟩, ?_, ?_, hb, by omega⟩
  · simp only [sliceInner, Option.getD_some]
    rw [if_neg wf.step_ne]
    simp only [pyAdjust, hstart, hstop, hlen]
    rw [if_neg (by omega), if_pos hs]
    push_cast; rfl
  · rw [bits_eq_arith, bits_eq_arith]
    unfold Inner.first
    simp only [show ¬ s.step < 0 by omega, if_false, hw]
    have : ((m : Int) + 2).toNat = (m + 1) + 1 := by omega
    rw [this, arith_succ]
    simp

theorem clamp_id_neg {len step x : Int} (h0 : 0 ≤ x) (h1 : x < len) : pyClamp len step x = x := clamp_id h0 h1

/-- Negative step: likewise, starting from the top. -/
theorem tail_neg (pw : Nat) (s : Inner) (wf : InnerWF pw s) (hs : s.step < 0) (m : Nat)
    (hw : s.width = (m : Int) + 2) :
    ∃ s', sliceInner pw (.range (some (s.top - 1 + s.step))
              (if s.bot > 0 then some (s.bot - 1) else none) (some s.step)) = .ok s' ∧
      s.bits = (s.top - 1) :: s'.bits ∧ 0 ≤ s.top - 1 ∧ s.top - 1 < pw := by
  have e := wf.neg hs
  have hb := wf.bot_ge
  have ht := wf.top_le
  rw [hw] at e
  have hm0 : 0 ≤ (m : Int) * (-s.step) := Int.mul_nonneg (by omega) (by omega)
  have hmul : (m : Int) * s.step = -((m : Int) * (-s.step)) := by rw [Int.mul_neg]; omega
  have e' : s.bot = s.top - 1 + s.step + (m : Int) * s.step := by
    have : ((m : Int) + 2 - 1) * s.step = s.step + (m : Int) * s.step := by
      rw [show (m : Int) + 2 - 1 = (m : Int) + 1 by omega, Int.add_mul]; omega
    omega
  have hstart : pyClamp pw s.step (s.top - 1 + s.step) = s.top - 1 + s.step := clamp_id (by omega) (by omega)
  have hlen : pyLen (s.top - 1 + s.step) (s.bot - 1) s.step = m + 1 := by
    unfold pyLen
    rw [if_pos hs, if_pos (by omega)]
    have : s.top - 1 + s.step - (s.bot - 1) - 1 = (m : Int) * (-s.step) := by omega
    rw [this, Int.mul_ediv_cancel _ (by omega : -s.step ≠ 0)]
    omega
  refine ⟨⟨s.top - 1 + s.step + 1, s.top - 1 + s.step + ((m : Int) + 1 - 1) * s.step, s.step, ((m + 1 : Nat) : Int)⟩, ?_, ?_, by omega, by omega⟩
  · simp only [sliceInner, Option.getD_some]
    rw [if_neg wf.step_ne]
    by_cases hb0 : s.bot > 0
    · have hstop : pyClamp pw s.step (s.bot - 1) = s.bot - 1 := clamp_id (by omega) (by omega)
      simp only [hb0, if_true, pyAdjust, hstart, hstop, hlen]
      rw [if_neg (by omega), if_neg (by omega)]
      push_cast; rfl
    · have hb1 : s.bot = 0 := by omega
      simp only [hb0, if_false, pyAdjust, hstart, hs, if_true]
      have : (-1 : Int) = s.bot - 1 := by omega
      rw [this]
      simp only [hlen]
      rw [if_neg (by omega), if_neg (by omega)]
      push_cast; rfl
  · rw [bits_eq_arith, bits_eq_arith]
    unfold Inner.first
    simp only [hs, if_true, hw]
    have : ((m : Int) + 2).toNat = (m + 1) + 1 := by omega
    rw [this, arith_succ]
    simp

/-! ### more helpers for the resolver proof -/

theorem denoteList_singleton (c : SConn) (bs : List Bit) (h : c.denote = .ok bs) :
    denoteList [c] = .ok bs := by
  rw [denoteList_cons, h, denoteList_nil]; simp

theorem denoteList_append (xs ys : List SConn) (a b : List Bit)
    (hx : denoteList xs = .ok a) (hy : denoteList ys = .ok b) : denoteList (xs ++ ys) = .ok (a ++ b) := by
  induction xs generalizing a with
  | nil => rw [denoteList_nil] at hx; injection hx with hx; subst hx; simpa using hy
  | cons x xs ih =>
    rw [denoteList_cons] at hx
    rw [List.cons_append, denoteList_cons]
    cases hxd : x.denote with
    | error e => simp [hxd] at hx
    | ok xa =>
      simp only [hxd] at hx ⊢
      cases hxs : denoteList xs with
      | error e => simp [hxs] at hx
      | ok xb =>
        simp only [hxs] at hx
        injection hx with hx; subst hx
        rw [ih xb hxs]; simp

theorem arith_getElem (f st : Int) (n j : Nat) (h : j < n) : (arith f st n)[j]? = some (f + (j : Int) * st) := by
  unfold arith
  rw [List.getElem?_map, List.getElem?_range h]; rfl

theorem pick_getElem {α} (bs : List α) (ks : List Int) (r : List α) (h : pick bs ks = .ok r)
    (j : Nat) (k : Int) (hk : ks[j]? = some k) : 0 ≤ k ∧ r[j]? = bs[k.toNat]? ∧ (bs[k.toNat]?).isSome := by
  induction ks generalizing r j with
  | nil => simp at hk
  | cons k0 ks ih =>
    obtain ⟨b, r', h0, hb, hr, rfl⟩ := pick_cons_ok bs k0 ks r h
    cases j with
    | zero =>
      simp only [List.getElem?_cons_zero, Option.some.injEq] at hk
      subst hk
      exact ⟨h0, by simp [hb], by simp [hb]⟩
    | succ j =>
      simp only [List.getElem?_cons_succ] at hk ⊢
      exact ih r' hr j hk

/-- A width-one well-formed inner selects exactly its `bot` bit. -/
theorem bits_width_one (pw : Nat) (s : Inner) (wf : InnerWF pw s) (h1 : s.width = 1) : s.bits = [s.bot] := by
  rw [bits_eq_arith, h1]
  unfold Inner.first
  rcases Int.lt_trichotomy s.step 0 with hs | hs | hs
  · have := wf.neg hs; rw [h1] at this
    simp [hs, arith]; omega
  · exact absurd hs wf.step_ne
  · simp [show ¬ s.step < 0 by omega, arith]

/-- A positive-step selection of all `pw` bits is the identity selection. -/
theorem bits_full (pw : Nat) (s : Inner) (wf : InnerWF pw s) (hs : 0 < s.step) (hw : s.width.toNat = pw) :
    s.bits = arith 0 1 pw := by
  have hn := wf.n_pos
  have hwi : s.width = (pw : Int) := by omega
  have e := wf.pos hs
  have hb := wf.bot_ge
  have ht := wf.top_le
  rw [bits_eq_arith]
  unfold Inner.first
  simp only [show ¬ s.step < 0 by omega, if_false, hw]
  rw [hwi] at e
  have hmul : ((pw : Int) - 1) * 1 ≤ ((pw : Int) - 1) * s.step :=
    Int.mul_le_mul_of_nonneg_left (by omega) (by omega)
  have hb0 : s.bot = 0 := by omega
  rw [hb0]
  by_cases hp : pw = 1
  · subst hp; simp [arith]
  · have hz : ((pw : Int) - 1) * (s.step - 1) = 0 := by
      rw [Int.mul_sub]; omega
    rcases Int.mul_eq_zero.1 hz with h | h
    · omega
    · have : s.step = 1 := by omega
      rw [this]

/-- `bitAt` is the position of a bit of the inner in the grand-parent. -/
theorem bits_getElem (s : Inner) (j : Nat) (h : j < s.width.toNat) : s.bits[j]? = some (s.bitAt j) := by
  rw [bits_eq_arith, arith_getElem _ _ _ _ h]
  unfold Inner.first Inner.bitAt
  split <;> rfl

/-- `findPart` locates the part of a concatenation holding a given bit. -/
theorem findPart_sound : ∀ (ps : List SConn) (idx k : Nat) (part : SConn) (off : Nat) (bs : List Bit),
    findPart ps idx k = .ok (part, off) → idx ≤ k → denoteList ps = .ok bs →
    ∃ pb, part.denote = .ok pb ∧ pb[off]? = bs[k - idx]? ∧ off < pb.length
  | [], idx, k, part, off, bs, h, _, _ => by rw [findPart] at h; cases h
  | p :: ps, idx, k, part, off, bs, h, hle, hd => by
    rw [findPart] at h
    simp only [bind, Except.bind] at h
    cases hw : p.width with
    | error e => simp [hw] at h
    | ok w =>
      simp only [hw] at h
      rw [denoteList_cons] at hd
      obtain ⟨pb, hpd, hpl⟩ := width_denote p w hw
      simp only [hpd] at hd
      cases hrest : denoteList ps with
      | error e => simp [hrest] at hd
      | ok rb =>
        simp only [hrest] at hd
        injection hd with hd; subst hd
        split at h
        · rename_i hlt
          injection h with h
          injection h with h1 h2
          subst h1; subst h2
          refine ⟨pb, hpd, ?_, by omega⟩
          rw [List.getElem?_append_left (by omega)]
        · rename_i hge
          obtain ⟨pb', hd', hg, hl⟩ := findPart_sound ps (idx + w) k part off rb h (by omega) hrest
          refine ⟨pb', hd', ?_, hl⟩
          rw [hg, List.getElem?_append_right (by omega)]
          congr 1; omega

end Hdl21
