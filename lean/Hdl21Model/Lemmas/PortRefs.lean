import Hdl21Model.PortRefs
namespace Hdl21.PortRefs
open Hdl21.Dfs

theorem look_mem {m : Mod} {p : Port} {c : Conn} (h : look m p = some c) : (p, c) ∈ m.conns := by
  unfold look at h
  cases hf : m.conns.find? (·.1 == p) with
  | none => simp [hf] at h
  | some e =>
    simp only [hf, Option.map_some] at h
    injection h with h
    have hk := List.find?_some hf
    have hm := List.mem_of_find?_eq_some hf
    simp only [beq_iff_eq] at hk
    obtain ⟨a, b⟩ := e
    simp only at hk h
    subst hk; subst h
    exact hm

theorem mem_look {m : Mod} (wf : WF m) {p : Port} {c : Conn} (h : (p, c) ∈ m.conns) : look m p = some c := by
  unfold look
  have hn := wf.keys
  generalize m.conns = l at h hn
  induction l with
  | nil => cases h
  | cons e r ih =>
    simp only [List.map_cons, List.nodup_cons] at hn
    rcases List.mem_cons.mp h with rfl | h'
    · simp [List.find?_cons]
    · have hne : e.1 ≠ p := by
        intro heq
        exact hn.1 (List.mem_map.mpr ⟨(p, c), h', heq.symm⟩)
      have : (e.1 == p) = false := by simpa using hne
      simp only [List.find?_cons, this]
      exact ih h' hn.2

theorem mem_back {m : Mod} {p q : Port} : q ∈ back m p ↔ (q, Conn.pref p) ∈ m.conns := by
  unfold back
  simp only [List.mem_filterMap]
  constructor
  · rintro ⟨e, he, h⟩
    split at h
    · rename_i h2
      injection h with h
      obtain ⟨a, b⟩ := e
      simp only at h h2
      subst h; subst h2
      exact he
    · cases h
  · intro h
    exact ⟨(q, .pref p), h, by simp⟩

/-- the graph `follow` walks, read off the connections alone -/
theorem mem_nbrs {m : Mod} (wf : WF m) {p q : Port} :
    q ∈ nbrs m p ↔ look m p = some (.pref q) ∨ look m q = some (.pref p) := by
  unfold nbrs
  rw [List.mem_append, mem_back]
  constructor
  · rintro (h | h)
    · left
      cases hl : look m p with
      | none => simp [hl] at h
      | some c =>
        cases c with
        | sig s => simp [hl] at h
        | nc i => simp [hl] at h
        | pref q' => simp only [hl, List.mem_singleton] at h; subst h; rfl
    · right; exact mem_look wf h
  · rintro (h | h)
    · left; simp [h]
    · right; exact look_mem h

theorem nbrs_symm {m : Mod} (wf : WF m) {p q : Port} (h : q ∈ nbrs m p) : p ∈ nbrs m q := by
  rw [mem_nbrs wf] at h ⊢
  exact h.symm

theorem reach_symm {m : Mod} (wf : WF m) {a b : Port} (h : Reach (nbrs m) a b) : Reach (nbrs m) b a := by
  induction h with
  | refl _ => exact .refl _
  | step hb _ ih => exact ih.trans (Reach.single (nbrs_symm wf hb))

theorem group_iff {m : Mod} {p : Port} {g : List Port} (h : group m p = some g) :
    ∀ x, x ∈ g ↔ Reach (nbrs m) p x := dfs_component (nbrs m) (fuelOf m) p g h

theorem group_self {m : Mod} {p : Port} {g : List Port} (h : group m p = some g) : p ∈ g :=
  (group_iff h p).mpr (.refl p)

/-- two ports of one group have the same group (as sets) -/
theorem group_same {m : Mod} (wf : WF m) {p x : Port} {gp gx : List Port} (hp : group m p = some gp) (hx : group m x = some gx)
    (hm : x ∈ gp) : ∀ y, y ∈ gx ↔ y ∈ gp := by
  intro y
  rw [group_iff hp, group_iff hx]
  have hpx := (group_iff hp x).mp hm
  exact ⟨fun h => hpx.trans h, fun h => (reach_symm wf hpx).trans h⟩

/-- every step of `follow` runs along a connection the designer wrote -/
theorem reach_wired {m : Mod} (wf : WF m) {a b : Port} (h : Reach (nbrs m) a b) : Wired m (.port a) (.port b) := by
  induction h with
  | refl _ => exact .refl _
  | step hb _ ih =>
    rcases (mem_nbrs wf).mp hb with h1 | h1
    · exact .trans (.edge (.toPort h1)) ih
    · exact .trans (.symm (.edge (.toPort h1))) ih

/-! ### the quantities `resolvePort` reads of a group depend on its members only -/

theorem uniqueSource_none_iff (l : List Nat) : uniqueSource l = some none ↔ l = [] := by
  cases l with
  | nil => simp [uniqueSource]
  | cons s r => simp only [uniqueSource]; split <;> simp

theorem uniqueSource_some_iff (l : List Nat) (s : Nat) :
    uniqueSource l = some (some s) ↔ s ∈ l ∧ ∀ y ∈ l, y = s := by
  cases l with
  | nil => simp [uniqueSource]
  | cons a r =>
    simp only [uniqueSource]
    split
    · rename_i hall
      simp only [List.all_eq_true, beq_iff_eq] at hall
      constructor
      · intro h
        injection h with h; injection h with h; subst h
        exact ⟨List.mem_cons_self .., fun y hy => by
          rcases List.mem_cons.mp hy with rfl | hy'
          · rfl
          · exact hall y hy'⟩
      · rintro ⟨_, h2⟩
        have := h2 a (List.mem_cons_self ..)
        subst this; rfl
    · rename_i hall
      constructor
      · intro h; cases h
      · rintro ⟨_, h2⟩
        exfalso
        apply hall
        simp only [List.all_eq_true, beq_iff_eq]
        intro y hy
        rw [h2 y (List.mem_cons_of_mem _ hy), h2 a (List.mem_cons_self ..)]

theorem uniqueSource_congr {l₁ l₂ : List Nat} (h : ∀ y, y ∈ l₁ ↔ y ∈ l₂) : uniqueSource l₁ = uniqueSource l₂ := by
  cases h1 : uniqueSource l₁ with
  | none =>
    cases h2 : uniqueSource l₂ with
    | none => rfl
    | some o =>
      cases o with
      | none =>
        have := (uniqueSource_none_iff l₂).mp h2
        subst this
        have : l₁ = [] := List.eq_nil_iff_forall_not_mem.mpr (fun y hy => by simpa using (h y).mp hy)
        subst this
        simp [uniqueSource] at h1
      | some s =>
        obtain ⟨hs, hall⟩ := (uniqueSource_some_iff l₂ s).mp h2
        have : uniqueSource l₁ = some (some s) :=
          (uniqueSource_some_iff l₁ s).mpr ⟨(h s).mpr hs, fun y hy => hall y ((h y).mp hy)⟩
        rw [this] at h1; cases h1
  | some o =>
    cases o with
    | none =>
      have := (uniqueSource_none_iff l₁).mp h1
      subst this
      have : l₂ = [] := List.eq_nil_iff_forall_not_mem.mpr (fun y hy => by simpa using (h y).mpr hy)
      subst this; rfl
    | some s =>
      obtain ⟨hs, hall⟩ := (uniqueSource_some_iff l₁ s).mp h1
      exact ((uniqueSource_some_iff l₂ s).mpr ⟨(h s).mp hs, fun y hy => hall y ((h y).mpr hy)⟩).symm

theorem filterMap_mem_congr {α β : Type} (f : α → Option β) {l₁ l₂ : List α} (h : ∀ y, y ∈ l₁ ↔ y ∈ l₂) :
    ∀ z, z ∈ l₁.filterMap f ↔ z ∈ l₂.filterMap f := by
  intro z
  simp only [List.mem_filterMap]
  exact ⟨fun ⟨a, ha, hf⟩ => ⟨a, (h a).mp ha, hf⟩, fun ⟨a, ha, hf⟩ => ⟨a, (h a).mpr ha, hf⟩⟩

theorem any_congr {α : Type} (f : α → Bool) {l₁ l₂ : List α} (h : ∀ y, y ∈ l₁ ↔ y ∈ l₂) : l₁.any f = l₂.any f := by
  rw [Bool.eq_iff_iff]
  simp only [List.any_eq_true]
  exact ⟨fun ⟨a, ha, hf⟩ => ⟨a, (h a).mp ha, hf⟩, fun ⟨a, ha, hf⟩ => ⟨a, (h a).mpr ha, hf⟩⟩

theorem inventedFor_congr (m : Mod) {g₁ g₂ : List Port} (h : ∀ y, y ∈ g₁ ↔ y ∈ g₂) : inventedFor m g₁ = inventedFor m g₂ := by
  unfold inventedFor
  have : (fun y : Port => decide (y ∈ g₁)) = (fun y => decide (y ∈ g₂)) := by
    funext y; exact decide_eq_decide.mpr (h y)
  rw [this]

end Hdl21.PortRefs
