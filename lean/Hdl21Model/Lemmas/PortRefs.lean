import Hdl21Model.PortRefs
namespace Hdl21.PortRefs
open Hdl21.Dfs

theorem look_mem {m : Mod} {p : Port} {c : Conn} (h : look m p = some c) : (p, c) ∈ m.conns := by
  unfold look at h
  cases hf : m.conns.find? (·.1 == p) with
  | none => simp [hf] at h
  | some e =>
    simp only [hf, Option.map_some] at h
    injection h with h
    have hk := List.find?_some hf
    have hm := List.mem_of_find?_eq_some hf
    simp only [beq_iff_eq] at hk
    obtain ⟨a, b⟩ := e
    simp only at hk h
    subst hk; subst h
    exact hm

theorem mem_look {m : Mod} (wf : WF m) {p : Port} {c : Conn} (h : (p, c) ∈ m.conns) : look m p = some c := by
  unfold look
  have hn := wf.keys
  generalize m.conns = l at h hn
  induction l with
  | nil => cases h
  | cons e r ih =>
    simp only [List.map_cons, List.nodup_cons] at hn
    rcases List.mem_cons.mp h with rfl | h'
    · simp [List.find?_cons]
    · have hne : e.1 ≠ p := by
        intro heq
        exact hn.1 (List.mem_map.mpr ⟨(p, c), h', heq.symm⟩)
      have : (e.1 == p) = false := by simpa using hne
      simp only [List.find?_cons, this]
      exact ih h' hn.2

theorem mem_back {m : Mod} {p q : Port} : q ∈ back m p ↔ (q, Conn.pref p) ∈ m.conns := by
  unfold back
  simp only [List.mem_filterMap]
  constructor
  · rintro ⟨e, he, h⟩
    split at h
    · rename_i h2
      injection h with h
      obtain ⟨a, b⟩ := e
      simp only at h h2
      subst h; subst h2
      exact he
    · cases h
  · intro h
    exact ⟨(q, .pref p), h, by simp⟩

/-- the graph `follow` walks, read off the connections alone -/
theorem mem_nbrs {m : Mod} (wf : WF m) {p q : Port} :
    q ∈ nbrs m p ↔ look m p = some (.pref q) ∨ look m q = some (.pref p) := by
  unfold nbrs
  rw [List.mem_append, mem_back]
  constructor
  · rintro (h | h)
    · left
      cases hl : look m p with
      | none => simp [hl] at h
      | some c =>
        cases c with
        | sig s => simp [hl] at h
        | nc i => simp [hl] at h
        | pref q' => simp only [hl, List.mem_singleton] at h; subst h; rfl
    · right; exact mem_look wf h
  · rintro (h | h)
    · left; simp [h]
    · right; exact look_mem h

theorem nbrs_symm {m : Mod} (wf : WF m) {p q : Port} (h : q ∈ nbrs m p) : p ∈ nbrs m q := by
  rw [mem_nbrs wf] at h ⊢
  exact h.symm

theorem reach_symm {m : Mod} (wf : WF m) {a b : Port} (h : Reach (nbrs m) a b) : Reach (nbrs m) b a := by
  induction h with
  | refl _ => exact .refl _
  | step hb _ ih => exact ih.trans (Reach.single (nbrs_symm wf hb))

theorem group_iff {m : Mod} {p : Port} {g : List Port} (h : group m p = some g) :
    ∀ x, x ∈ g ↔ Reach (nbrs m) p x := dfs_component (nbrs m) (fuelOf m) p g h

theorem group_self {m : Mod} {p : Port} {g : List Port} (h : group m p = some g) : p ∈ g :=
  (group_iff h p).mpr (.refl p)

/-- two ports of one group have the same group (as sets) -/
theorem group_same {m : Mod} (wf : WF m) {p x : Port} {gp gx : List Port} (hp : group m p = some gp) (hx : group m x = some gx)
    (hm : x ∈ gp) : ∀ y, y ∈ gx ↔ y ∈ gp := by
  intro y
  rw [group_iff hp, group_iff hx]
  have hpx := (group_iff hp x).mp hm
  exact ⟨fun h => hpx.trans h, fun h => (reach_symm wf hpx).trans h⟩

/-- every step of `follow` runs along a connection the designer wrote -/
theorem reach_wired {m : Mod} (wf : WF m) {a b : Port} (h : Reach (nbrs m) a b) : Wired m (.port a) (.port b) := by
  induction h with
  | refl _ => exact .refl _
  | step hb _ ih =>
    rcases (mem_nbrs wf).mp hb with h1 | h1
    · exact .trans (.edge (.toPort h1)) ih
    · exact .trans (.symm (.edge (.toPort h1))) ih

/-! ### the quantities `resolvePort` reads of a group depend on its members only -/

theorem uniqueSource_none_iff (l : List Nat) : uniqueSource l = some none ↔ l = [] := by
  cases l with
  | nil => simp [uniqueSource]
  | cons s r => simp only [uniqueSource]; split <;> simp

theorem uniqueSource_some_iff (l : List Nat) (s : Nat) :
    uniqueSource l = some (some s) ↔ s ∈ l ∧ ∀ y ∈ l, y = s := by
  cases l with
  | nil => simp [uniqueSource]
  | cons a r =>
    simp only [uniqueSource]
    split
    · rename_i hall
      simp only [List.all_eq_true, beq_iff_eq] at hall
      constructor
      · intro h
        injection h with h; injection h with h; subst h
        exact ⟨List.mem_cons_self .., fun y hy => by
          rcases List.mem_cons.mp hy with rfl | hy'
          · rfl
          · exact hall y hy'⟩
      · rintro ⟨_, h2⟩
        have := h2 a (List.mem_cons_self ..)
        subst this; rfl
    · rename_i hall
      constructor
      · intro h; cases h
      · rintro ⟨_, h2⟩
        exfalso
        apply hall
        simp only [List.all_eq_true, beq_iff_eq]
        intro y hy
        rw [h2 y (List.mem_cons_of_mem _ hy), h2 a (List.mem_cons_self ..)]

theorem uniqueSource_congr {l₁ l₂ : List Nat} (h : ∀ y, y ∈ l₁ ↔ y ∈ l₂) : uniqueSource l₁ = uniqueSource l₂ := by
  cases h1 : uniqueSource l₁ with
  | none =>
    cases h2 : uniqueSource l₂ with
    | none => rfl
    | some o =>
      cases o with
      | none =>
        have := (uniqueSource_none_iff l₂).mp h2
        subst this
        have : l₁ = [] := List.eq_nil_iff_forall_not_mem.mpr (fun y hy => by simpa using (h y).mp hy)
        subst this
        simp [uniqueSource] at h1
      | some s =>
        obtain ⟨hs, hall⟩ := (uniqueSource_some_iff l₂ s).mp h2
        have : uniqueSource l₁ = some (some s) :=
          (uniqueSource_some_iff l₁ s).mpr ⟨(h s).mpr hs, fun y hy => hall y ((h y).mp hy)⟩
        rw [this] at h1; cases h1
  | some o =>
    cases o with
    | none =>
      have := (uniqueSource_none_iff l₁).mp h1
      subst this
      have : l₂ = [] := List.eq_nil_iff_forall_not_mem.mpr (fun y hy => by simpa using (h y).mpr hy)
      subst this; rfl
    | some s =>
      obtain ⟨hs, hall⟩ := (uniqueSource_some_iff l₁ s).mp h1
      exact ((uniqueSource_some_iff l₂ s).mpr ⟨(h s).mp hs, fun y hy => hall y ((h y).mpr hy)⟩).symm

theorem filterMap_mem_congr {α β : Type} (f : α → Option β) {l₁ l₂ : List α} (h : ∀ y, y ∈ l₁ ↔ y ∈ l₂) :
    ∀ z, z ∈ l₁.filterMap f ↔ z ∈ l₂.filterMap f := by
  intro z
  simp only [List.mem_filterMap]
  exact ⟨fun ⟨a, ha, hf⟩ => ⟨a, (h a).mp ha, hf⟩, fun ⟨a, ha, hf⟩ => ⟨a, (h a).mpr ha, hf⟩⟩

theorem any_congr {α : Type} (f : α → Bool) {l₁ l₂ : List α} (h : ∀ y, y ∈ l₁ ↔ y ∈ l₂) : l₁.any f = l₂.any f := by
  rw [Bool.eq_iff_iff]
  simp only [List.any_eq_true]
  exact ⟨fun ⟨a, ha, hf⟩ => ⟨a, (h a).mp ha, hf⟩, fun ⟨a, ha, hf⟩ => ⟨a, (h a).mpr ha, hf⟩⟩

theorem inventedFor_congr (m : Mod) {g₁ g₂ : List Port} (h : ∀ y, y ∈ g₁ ↔ y ∈ g₂) : inventedFor m g₁ = inventedFor m g₂ := by
  unfold inventedFor
  have : (fun y : Port => decide (y ∈ g₁)) = (fun y => decide (y ∈ g₂)) := by
    funext y; exact decide_eq_decide.mpr (h y)
  rw [this]

end Hdl21.PortRefs

namespace Hdl21.PortRefs
open Hdl21.Dfs

theorem findIdx?_spec {α : Type} (p : α → Bool) : ∀ (l : List α) (i : Nat), l.findIdx? p = some i →
    ∃ z, l[i]? = some z ∧ p z = true
  | [], i, h => by simp at h
  | a :: r, i, h => by
    rw [List.findIdx?_cons] at h
    split at h
    · rename_i hp
      injection h with h; subst h
      exact ⟨a, rfl, hp⟩
    · cases hr : r.findIdx? p with
      | none => simp [hr] at h
      | some j =>
        simp only [hr, Option.map_some] at h
        injection h with h; subst h
        obtain ⟨z, hz, hpz⟩ := findIdx?_spec p r j hr
        exact ⟨z, by simpa using hz, hpz⟩

/-- what a successful resolution rests on: a declared signal found in the group, or a signal invented for the group -/
inductive Basis (m : Mod) (p : Port) (v : Nat) : Prop
  | declared (x : Port) : Reach (nbrs m) p x → look m x = some (.sig v) → Basis m p v
  | invented (idx : Nat) (z : Port) : v = m.nsig + idx → m.ports[idx]? = some z → Reach (nbrs m) p z → Basis m p v

theorem inventedFor_spec {m : Mod} {g : List Port} {v : Nat} (h : inventedFor m g = some v) :
    ∃ idx z, v = m.nsig + idx ∧ m.ports[idx]? = some z ∧ z ∈ g := by
  unfold inventedFor at h
  cases hf : m.ports.findIdx? (· ∈ g) with
  | none => simp [hf] at h
  | some idx =>
    simp only [hf, Option.map_some] at h
    injection h with h
    obtain ⟨z, hz, hp⟩ := findIdx?_spec _ _ _ hf
    exact ⟨idx, z, h.symm, hz, by simpa using hp⟩

theorem resolve_basis {m : Mod} {p : Port} {v : Nat} (h : resolvePort m p = some v) : Basis m p v := by
  unfold resolvePort at h
  cases hg : group m p with
  | none => simp [hg] at h
  | some g =>
    simp only [hg] at h
    split at h
    · cases h
    · split at h
      · split at h
        · obtain ⟨idx, z, hv, hz, hzg⟩ := inventedFor_spec h
          exact .invented idx z hv hz ((group_iff hg z).mp hzg)
        · cases h
      · split at h
        · cases h
        · rename_i s hs
          injection h with h; subst h
          obtain ⟨hmem, _⟩ := (uniqueSource_some_iff _ _).mp hs
          obtain ⟨x, hx, hsx⟩ := List.mem_filterMap.mp hmem
          have : look m x = some (.sig s) := by
            unfold srcOf at hsx
            cases hl : look m x with
            | none => simp [hl] at hsx
            | some c =>
              cases c with
              | sig s' => simp only [hl] at hsx; injection hsx with hsx; subst hsx; rfl
              | pref q => simp [hl] at hsx
              | nc i => simp [hl] at hsx
          exact .declared x ((group_iff hg x).mp hx) this
        · obtain ⟨idx, z, hv, hz, hzg⟩ := inventedFor_spec h
          exact .invented idx z hv hz ((group_iff hg z).mp hzg)

/-- ports of one group resolve to the same signal -/
theorem resolve_same_group {m : Mod} (wf : WF m) {p x : Port} {v v' : Nat} (hr : Reach (nbrs m) p x)
    (hp : resolvePort m p = some v) (hx : resolvePort m x = some v') : v = v' := by
  unfold resolvePort at hp hx
  cases hgp : group m p with
  | none => simp [hgp] at hp
  | some gp =>
    cases hgx : group m x with
    | none => simp [hgx] at hx
    | some gx =>
      simp only [hgp] at hp
      simp only [hgx] at hx
      have hxm : x ∈ gp := (group_iff hgp x).mpr hr
      have hsame := group_same wf hgp hgx hxm
      split at hp
      · cases hp
      · split at hx
        · cases hx
        · have hany : gx.any (isNc m) = gp.any (isNc m) := any_congr _ hsame
          have hsrc : uniqueSource (gx.filterMap (srcOf m)) = uniqueSource (gp.filterMap (srcOf m)) :=
            uniqueSource_congr (filterMap_mem_congr _ hsame)
          have hinv : inventedFor m gx = inventedFor m gp := inventedFor_congr m hsame
          rw [hany, hsrc, hinv] at hx
          split at hp
          · -- a group with a no-connect is a single port
            rename_i hnc
            simp only [hnc, if_true] at hx
            split at hp
            · rename_i hall
              have : x = p := by
                have := List.all_eq_true.mp hall x hxm
                simpa using this
              subst this
              split at hx
              · rw [hp] at hx; injection hx
              · cases hx
            · cases hp
          · rename_i hnc
            simp only [hnc, Bool.false_eq_true, if_false] at hx
            rw [hp] at hx
            injection hx

/-- a port wired to a declared signal ends on that signal -/
theorem resolve_sig {m : Mod} {p : Port} {s v : Nat} (hl : look m p = some (.sig s)) (h : resolvePort m p = some v) : v = s := by
  unfold resolvePort at h
  cases hg : group m p with
  | none => simp [hg] at h
  | some g =>
    simp only [hg] at h
    have hpg := group_self hg
    have hsrc : s ∈ g.filterMap (srcOf m) := List.mem_filterMap.mpr ⟨p, hpg, by simp [srcOf, hl]⟩
    split at h
    · cases h
    · split at h
      · rename_i hnc
        split at h
        · rename_i hall
          -- the group is {p}, and p is not a no-connect
          exfalso
          obtain ⟨y, hy, hync⟩ := List.any_eq_true.mp hnc
          have : y = p := by simpa using List.all_eq_true.mp hall y hy
          subst this
          simp [isNc, hl] at hync
        · cases h
      · split at h
        · cases h
        · rename_i s' hs'
          injection h with h; subst h
          exact (((uniqueSource_some_iff _ _).mp hs').2 s hsrc).symm
        · rename_i hnone
          have := (uniqueSource_none_iff _).mp hnone
          rw [this] at hsrc; cases hsrc

end Hdl21.PortRefs

namespace Hdl21.PortRefs
open Hdl21.Dfs

/-- a port on a no-connect that resolves at all is alone in its group -/
theorem resolve_nc_alone {m : Mod} {p : Port} {id v : Nat} (hl : look m p = some (.nc id)) (h : resolvePort m p = some v) :
    ∀ x, Reach (nbrs m) p x → x = p := by
  unfold resolvePort at h
  cases hg : group m p with
  | none => simp [hg] at h
  | some g =>
    simp only [hg] at h
    have hany : g.any (isNc m) = true := List.any_eq_true.mpr ⟨p, group_self hg, by simp [isNc, hl]⟩
    split at h
    · cases h
    · split at h
      · rename_i hall
        intro x hx
        have := List.all_eq_true.mp hall x ((group_iff hg x).mpr hx)
        simpa using this
      · cases h

/-- the label every node carries once the pass is done: a port the signal it ends on, a signal itself -/
def label (m : Mod) : Node → Option Nat
  | .port p => resolvePort m p
  | .sig s => some s

theorem wired_label {m : Mod} (wf : WF m) (hres : ∀ p ∈ m.ports, (resolvePort m p).isSome) :
    ∀ {a b : Node}, Wired m a b → label m a = label m b := by
  intro a b h
  induction h with
  | refl _ => rfl
  | symm _ ih => exact ih.symm
  | trans _ _ ih1 ih2 => exact ih1.trans ih2
  | edge he =>
    cases he with
    | @toSig p s hl =>
      have hp : p ∈ m.ports := wf.keysIn _ (look_mem hl)
      cases hr : resolvePort m p with
      | none => have := hres p hp; simp [hr] at this
      | some v => simp only [label, hr]; rw [resolve_sig hl hr]
    | @toPort p q hl =>
      have hp : p ∈ m.ports := wf.keysIn _ (look_mem hl)
      have hq : q ∈ m.ports := wf.prefIn _ (look_mem hl) q rfl
      cases hrp : resolvePort m p with
      | none => have := hres p hp; simp [hrp] at this
      | some v =>
        cases hrq : resolvePort m q with
        | none => have := hres q hq; simp [hrq] at this
        | some v' =>
          simp only [label, hrp, hrq]
          have hreach : Reach (nbrs m) p q := Reach.single ((mem_nbrs wf).mpr (Or.inl hl))
          rw [resolve_same_group wf hreach hrp hrq]

end Hdl21.PortRefs

namespace Hdl21.PortRefs
open Hdl21.Dfs

/-- what makes the pass raise, said without reference to the pass -/
inductive IllFormed (m : Mod) : Prop
  /-- a port that is neither connected nor referenced -/
  | dangling (p : Port) : p ∈ m.ports → look m p = none → (∀ q, look m q ≠ some (.pref p)) → IllFormed m
  /-- a no-connected port that shares its group with another port (it is referenced, or refers, elsewhere) -/
  | ncShared (p q : Port) : p ∈ m.ports → isNc m p = true → Reach (nbrs m) p q → q ≠ p → IllFormed m
  /-- two different declared signals in one group -/
  | twoSignals (p x y : Port) (s t : Nat) : p ∈ m.ports → Reach (nbrs m) p x → Reach (nbrs m) p y →
      look m x = some (.sig s) → look m y = some (.sig t) → s ≠ t → IllFormed m

theorem findIdx?_isSome {α : Type} (p : α → Bool) : ∀ (l : List α) (x : α), x ∈ l → p x = true → (l.findIdx? p).isSome
  | [], x, h, _ => by cases h
  | a :: r, x, h, hp => by
    rw [List.findIdx?_cons]
    split
    · rfl
    · rcases List.mem_cons.mp h with rfl | h'
      · rename_i hna; exact absurd hp hna
      · have := findIdx?_isSome p r x h' hp
        cases hr : r.findIdx? p with
        | none => simp [hr] at this
        | some j => simp

theorem inventedFor_isSome {m : Mod} {g : List Port} {p : Port} (hp : p ∈ m.ports) (hg : p ∈ g) : (inventedFor m g).isSome := by
  unfold inventedFor
  have := findIdx?_isSome (fun y => decide (y ∈ g)) m.ports p hp (by simpa using hg)
  cases h : m.ports.findIdx? (fun y => decide (y ∈ g)) with
  | none => simp [h] at this
  | some j => simp

theorem back_nil_iff {m : Mod} (wf : WF m) (p : Port) : back m p = [] ↔ ∀ q, look m q ≠ some (.pref p) := by
  constructor
  · intro h q hq
    have : q ∈ back m p := mem_back.mpr (look_mem hq)
    rw [h] at this; cases this
  · intro h
    apply List.eq_nil_iff_forall_not_mem.mpr
    intro q hq
    exact h q (mem_look wf (mem_back.mp hq))

theorem uniqueSource_isNone_iff (l : List Nat) : uniqueSource l = none ↔ ∃ a b, a ∈ l ∧ b ∈ l ∧ a ≠ b := by
  cases l with
  | nil => simp [uniqueSource]
  | cons s r =>
    simp only [uniqueSource]
    split
    · rename_i hall
      simp only [List.all_eq_true, beq_iff_eq] at hall
      constructor
      · intro h; cases h
      · rintro ⟨a, b, ha, hb, hab⟩
        exfalso
        have ea : a = s := by rcases List.mem_cons.mp ha with rfl | h; rfl; exact hall a h
        have eb : b = s := by rcases List.mem_cons.mp hb with rfl | h; rfl; exact hall b h
        exact hab (ea.trans eb.symm)
    · rename_i hall
      constructor
      · intro _
        have hf : r.all (· == s) = false := by simpa using hall
        obtain ⟨y, hy, hne⟩ := List.all_eq_false.mp hf
        exact ⟨y, s, List.mem_cons_of_mem _ hy, List.mem_cons_self .., by simpa using hne⟩
      · intro _; rfl

/-- **The pass raises exactly on the ill-formed modules** (given that group discovery answers). -/
theorem resolve_none_iff {m : Mod} (wf : WF m) (hfuel : ∀ p ∈ m.ports, (group m p).isSome) :
    (∃ p ∈ m.ports, resolvePort m p = none) ↔ IllFormed m := by
  constructor
  · rintro ⟨p, hp, hnone⟩
    unfold resolvePort at hnone
    cases hg : group m p with
    | none => have := hfuel p hp; simp [hg] at this
    | some g =>
      simp only [hg] at hnone
      have hpg := group_self hg
      split at hnone
      · rename_i hc
        exact .dangling p hp hc.1 ((back_nil_iff wf p).mp hc.2)
      · split at hnone
        · rename_i hany
          split at hnone
          · have := inventedFor_isSome (g := g) hp hpg
            rw [hnone] at this; cases this
          · rename_i hall
            -- some member is a no-connect, and not every member is `p`
            obtain ⟨y, hy, hync⟩ := List.any_eq_true.mp hany
            have hex : ∃ z, z ∈ g ∧ z ≠ p := by
              have hf : g.all (· == p) = false := by simpa using hall
              obtain ⟨z, hz, hne⟩ := List.all_eq_false.mp hf
              exact ⟨z, hz, by simpa using hne⟩
            obtain ⟨z, hz, hzne⟩ := hex
            have hry := (group_iff hg y).mp hy
            have hrz := (group_iff hg z).mp hz
            have hyp : y ∈ m.ports := by
              unfold isNc at hync
              cases hl : look m y with
              | none => simp [hl] at hync
              | some c => exact wf.keysIn _ (look_mem hl)
            by_cases hyz : z = y
            · -- then y ≠ p, and p is in y's group
              subst hyz
              exact .ncShared z p hyp hync (reach_symm wf hry) (fun e => hzne e.symm)
            · exact .ncShared y z hyp hync ((reach_symm wf hry).trans hrz) hyz
        · split at hnone
          · rename_i hus
            obtain ⟨a, b, ha, hb, hab⟩ := (uniqueSource_isNone_iff _).mp hus
            obtain ⟨x, hx, hsx⟩ := List.mem_filterMap.mp ha
            obtain ⟨y, hy, hsy⟩ := List.mem_filterMap.mp hb
            have lx : look m x = some (.sig a) := by
              unfold srcOf at hsx
              cases hl : look m x with
              | none => simp [hl] at hsx
              | some c => cases c <;> simp_all
            have ly : look m y = some (.sig b) := by
              unfold srcOf at hsy
              cases hl : look m y with
              | none => simp [hl] at hsy
              | some c => cases c <;> simp_all
            exact .twoSignals p x y a b hp ((group_iff hg x).mp hx) ((group_iff hg y).mp hy) lx ly hab
          · cases hnone
          · have := inventedFor_isSome (g := g) hp hpg
            rw [hnone] at this; cases this
  · intro hill
    cases hill with
    | dangling p hp hl hb =>
      refine ⟨p, hp, ?_⟩
      unfold resolvePort
      cases hg : group m p with
      | none => rfl
      | some g => simp [hl, (back_nil_iff wf p).mpr hb]
    | ncShared p q hp hnc hr hne =>
      refine ⟨p, hp, ?_⟩
      unfold resolvePort
      cases hg : group m p with
      | none => rfl
      | some g =>
        simp only
        have hpg := group_self hg
        have hqg := (group_iff hg q).mpr hr
        have hlook : ¬ (look m p = none ∧ back m p = []) := by
          intro h; unfold isNc at hnc; simp [h.1] at hnc
        rw [if_neg hlook]
        have hany : g.any (isNc m) = true := List.any_eq_true.mpr ⟨p, hpg, hnc⟩
        rw [if_pos hany]
        have hall : ¬ (g.all (· == p) = true) := by
          intro h
          have := List.all_eq_true.mp h q hqg
          exact hne (by simpa using this)
        rw [if_neg hall]
    | twoSignals p x y s t hp hrx hry hlx hly hst =>
      -- resolved or not, some port of the group fails: take `p`
      refine ⟨p, hp, ?_⟩
      unfold resolvePort
      cases hg : group m p with
      | none => rfl
      | some g =>
        simp only
        have hxg := (group_iff hg x).mpr hrx
        have hyg := (group_iff hg y).mpr hry
        split
        · rfl
        · split
          · split
            · rename_i hall
              -- all members are p: then x = y = p, so s = t
              exfalso
              have ex : x = p := by simpa using List.all_eq_true.mp hall x hxg
              have ey : y = p := by simpa using List.all_eq_true.mp hall y hyg
              subst ex; subst ey
              rw [hlx] at hly; injection hly with h; injection h with h; exact hst h
            · rfl
          · have hs : s ∈ g.filterMap (srcOf m) := List.mem_filterMap.mpr ⟨x, hxg, by simp [srcOf, hlx]⟩
            have ht : t ∈ g.filterMap (srcOf m) := List.mem_filterMap.mpr ⟨y, hyg, by simp [srcOf, hly]⟩
            have : uniqueSource (g.filterMap (srcOf m)) = none := (uniqueSource_isNone_iff _).mpr ⟨s, t, hs, ht, hst⟩
            rw [this]

end Hdl21.PortRefs

namespace Hdl21.PortRefs
open Hdl21.Dfs

theorem unvisited_le (U g : List Port) : unvisited U g ≤ U.length := by
  unfold unvisited; exact List.length_filter_le _ _

/-- group discovery answers for every port of the module -/
theorem group_total {m : Mod} (wf : WF m) (p : Port) (hp : p ∈ m.ports) : (group m p).isSome := by
  have hU : ∀ x, x ∈ m.ports → ∀ y, y ∈ nbrs m x → y ∈ m.ports := by
    intro x _ y hy
    rcases (mem_nbrs wf).mp hy with h | h
    · exact wf.prefIn _ (look_mem h) y rfl
    · exact wf.keysIn _ (look_mem h)
  obtain ⟨g, hg⟩ := dfs_total (nbrs m) m.ports hU (fuelOf m) p [] hp (by
    have := unvisited_le m.ports []
    unfold fuelOf; omega)
  unfold group; rw [hg]; rfl

end Hdl21.PortRefs
