import Hdl21Model.Lemmas.Prefix
import Mathlib.Data.Nat.ModEq
import Mathlib.Data.Int.ModEq

namespace Hdl21
open Dec

/-- `10^e mod P` for any integer `e`, as CPython computes it. -/
def expHash (e : ℤ) : ℕ := if e ≥ 0 then powMod (10 % hashP) e.toNat else powMod inv10 (-e).toNat

theorem inv10_spec : (10 * inv10) % hashP = 1 := by decide

theorem powMod_lt (b n : ℕ) : powMod b n < hashP ∨ n = 0 := by
  cases n with
  | zero => right; rfl
  | succ n => left; unfold powMod; exact Nat.mod_lt _ (by decide)

theorem expHash_succ (e : ℤ) : expHash (e + 1) ≡ 10 * expHash e [MOD hashP] := by
  unfold expHash
  by_cases h : e ≥ 0
  · have h1 : e + 1 ≥ 0 := by omega
    rw [if_pos h, if_pos h1]
    have : (e + 1).toNat = e.toNat + 1 := by omega
    rw [this]
    show (powMod (10 % hashP) e.toNat * (10 % hashP)) % hashP ≡ _ [MOD hashP]
    have h10 : 10 % hashP = 10 := by decide
    rw [h10]
    exact (Nat.mod_modEq _ _).trans (by rw [Nat.mul_comm])
  · rw [if_neg h]
    by_cases h1 : e + 1 ≥ 0
    · -- e = -1
      have he : e = -1 := by omega
      subst he
      simp only [Int.reduceNeg, Int.reduceAdd, ge_iff_le, le_refl, ↓reduceIte, Int.toNat_zero, neg_neg, Int.toNat_one]
      show 1 ≡ 10 * ((1 * inv10) % hashP) [MOD hashP]
      unfold Nat.ModEq
      decide
    · rw [if_neg h1]
      have : (-e).toNat = (-(e + 1)).toNat + 1 := by omega
      rw [this]
      show powMod inv10 (-(e + 1)).toNat ≡ 10 * ((powMod inv10 (-(e + 1)).toNat * inv10) % hashP) [MOD hashP]
      generalize powMod inv10 (-(e + 1)).toNat = x
      have h2 : 10 * ((x * inv10) % hashP) ≡ 10 * (x * inv10) [MOD hashP] :=
        Nat.ModEq.mul_left 10 (Nat.mod_modEq _ _)
      have h3 : 10 * (x * inv10) = x * (10 * inv10) := by ring
      have h4 : x * (10 * inv10) ≡ x * 1 [MOD hashP] :=
        Nat.ModEq.mul_left x (by unfold Nat.ModEq; rw [inv10_spec]; decide)
      rw [h3] at h2
      exact ((h2.trans h4).trans (by rw [Nat.mul_one])).symm

theorem expHash_add (e : ℤ) (k : ℕ) : expHash (e + k) ≡ 10 ^ k * expHash e [MOD hashP] := by
  induction k with
  | zero => simp; exact Nat.ModEq.refl _
  | succ k ih =>
    have : e + ((k + 1 : ℕ) : ℤ) = (e + k) + 1 := by push_cast; ring
    rw [this]
    refine (expHash_succ _).trans ?_
    refine (Nat.ModEq.mul_left 10 ih).trans ?_
    rw [pow_succ]; ring_nf; exact Nat.ModEq.refl _

theorem hash_eq_expHash (d : Dec) :
    d.hash = (let h : ℤ := ((d.c.natAbs * expHash d.e) % hashP : ℕ)
              let ans := if d.c ≥ 0 then h else -h
              if ans = -1 then -2 else ans) := by
  unfold Dec.hash expHash; rfl

/-- The core: two representations of one value have congruent hashes. -/
theorem hash_shift (c e : ℤ) (k : ℕ) :
    Dec.hash ⟨c * 10 ^ k, e⟩ = Dec.hash ⟨c, e + k⟩ := by
  rw [hash_eq_expHash, hash_eq_expHash]
  simp only []
  have hsign : (c * 10 ^ k ≥ 0) ↔ (c ≥ 0) := by
    have hp : (0 : ℤ) < 10 ^ k := by positivity
    constructor
    · intro h; by_contra hc
      have : c * 10 ^ k < 0 := Int.mul_neg_of_neg_of_pos (by omega) hp
      omega
    · intro h; exact Int.mul_nonneg h hp.le
  have habs : (c * 10 ^ k).natAbs = c.natAbs * 10 ^ k := by
    rw [Int.natAbs_mul, Int.natAbs_pow]; rfl
  have hmod : (c * 10 ^ k).natAbs * expHash e % hashP = c.natAbs * expHash (e + k) % hashP := by
    rw [habs]
    have := expHash_add e k
    have h2 : c.natAbs * expHash (e + k) ≡ c.natAbs * (10 ^ k * expHash e) [MOD hashP] :=
      Nat.ModEq.mul_left _ this
    unfold Nat.ModEq at h2
    rw [h2]; congr 1; ring
  rw [hmod]
  by_cases hc : c ≥ 0
  · rw [if_pos (hsign.2 hc), if_pos hc]
  · rw [if_neg (fun h => hc (hsign.1 h)), if_neg hc]

/-- Equal values have equal (CPython) hashes. -/
theorem hash_congr (a b : Dec) (h : a.val = b.val) : a.hash = b.hash := by
  -- write the representation with the larger exponent in terms of the smaller one
  have key : ∀ (x y : Dec), x.e ≤ y.e → x.val = y.val → x.hash = y.hash := by
    intro x y hle hv
    have hk : ((y.e - x.e).toNat : ℤ) = y.e - x.e := Int.toNat_of_nonneg (by omega)
    have hc : x.c = y.c * 10 ^ (y.e - x.e).toNat := by
      unfold Dec.val at hv
      have h1 : (10 : ℚ) ^ y.e = (10 : ℚ) ^ x.e * (10 : ℚ) ^ ((y.e - x.e).toNat : ℤ) := by
        rw [hk, ← zpow_add₀ ten_ne]; congr 1; ring
      rw [h1, zpow_natCast] at hv
      have h2 : (x.c : ℚ) * (10 : ℚ) ^ x.e = ((y.c : ℚ) * (10 : ℚ) ^ (y.e - x.e).toNat) * (10 : ℚ) ^ x.e := by
        rw [hv]; ring
      have h3 := mul_right_cancel₀ (ne_of_gt (ten_pos x.e)) h2
      exact_mod_cast h3
    have := hash_shift y.c x.e (y.e - x.e).toNat
    rw [hk] at this
    have hx : x = ⟨y.c * 10 ^ (y.e - x.e).toNat, x.e⟩ := by
      cases x; simp only [Dec.mk.injEq, and_true]; exact hc
    have hy : y = ⟨y.c, x.e + (y.e - x.e)⟩ := by
      cases y; simp only [Dec.mk.injEq, true_and]; omega
    rw [hx, hy]
    simpa using this
  rcases le_total a.e b.e with hle | hle
  · exact key a b hle h
  · exact (key b a hle h.symm).symm

end Hdl21
