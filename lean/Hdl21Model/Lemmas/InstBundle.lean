/-
# Lemmas for the instance-bundle pass (C01, C02)
-/
import Hdl21Model.InstBundle
namespace Hdl21.InstBundle
open Hdl21

theorem elemConns_spec (ty : String) (ms : List String) (m : String) :
    ∀ (conns : List (String × IBConn)) (es : List (String × ElemConn)), elemConns ty ms m conns = .ok es →
      es.map (·.1) = conns.map (·.1) ∧
      ∀ p c e, (p, c) ∈ conns → (p, e) ∈ es → (conns.map (·.1)).Nodup → elemConn ty ms m c = .ok e
  | [], es, h => by
    simp only [elemConns, Except.ok.injEq] at h; subst h
    exact ⟨rfl, fun _ _ _ h => by cases h⟩
  | (p0, c0) :: rest, es, h => by
    unfold elemConns at h
    cases h1 : elemConn ty ms m c0 with
    | error e => simp [h1] at h
    | ok e0 =>
      cases h2 : elemConns ty ms m rest with
      | error e => simp [h1, h2] at h
      | ok r =>
        simp only [h1, h2, Except.ok.injEq] at h
        subst h
        obtain ⟨i1, i2⟩ := elemConns_spec ty ms m rest r h2
        refine ⟨by simp [i1], ?_⟩
        intro p c e hc he hnd
        simp only [List.map_cons, List.nodup_cons] at hnd
        rcases List.mem_cons.mp hc with e1 | e1 <;> rcases List.mem_cons.mp he with e2 | e2
        · injection e1 with a b; injection e2 with a' b'; subst b; subst b'; exact h1
        · injection e1 with a b; subst a
          exact absurd (by rw [← i1]; exact List.mem_map.mpr ⟨(p, e), e2, rfl⟩) hnd.1
        · injection e2 with a b; subst a
          exact absurd (List.mem_map.mpr ⟨(p, c), e1, rfl⟩) hnd.1
        · exact i2 p c e e1 e2 hnd.2

theorem expandMembers_spec (ty : String) (ms : List String) (conns : List (String × IBConn)) :
    ∀ (l : List String) (r : List (String × List (String × ElemConn))), expandMembers ty ms conns l = .ok r →
      r.map (·.1) = l ∧ ∀ m es, (m, es) ∈ r → elemConns ty ms m conns = .ok es
  | [], r, h => by
    simp only [expandMembers, Except.ok.injEq] at h; subst h
    exact ⟨rfl, fun _ _ h => by cases h⟩
  | m0 :: rest, r, h => by
    unfold expandMembers at h
    cases h1 : elemConns ty ms m0 conns with
    | error e => simp [h1] at h
    | ok e0 =>
      cases h2 : expandMembers ty ms conns rest with
      | error e => simp [h1, h2] at h
      | ok r' =>
        simp only [h1, h2, Except.ok.injEq] at h
        subst h
        obtain ⟨i1, i2⟩ := expandMembers_spec ty ms conns rest r' h2
        refine ⟨by simp [i1], ?_⟩
        intro m es hm
        rcases List.mem_cons.mp hm with e | e
        · injection e with a b; subst a; subst b; exact h1
        · exact i2 m es e

end Hdl21.InstBundle
