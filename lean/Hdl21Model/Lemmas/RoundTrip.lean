/-
# Lemmas for the module-level round trip (C11)
-/
import Hdl21Model.RoundTrip
namespace Hdl21.RoundTrip
open Hdl21 Hdl21.Pkg

/-- `import_port_dir` and `export_port_dir` are inverse on every direction of the enumeration (regenerated tables) -/
theorem dir_tables : ∀ d ∈ protoDirs, ∃ hd, lookupS d importDirMap = some hd ∧ lookupS hd exportDirMap = some d := by
  decide

theorem portDirOf_mem : ∀ (ports : List (String × String)) (n d : String), portDirOf ports n = some d → (n, d) ∈ ports
  | [], n, d, h => by simp [portDirOf] at h
  | (s, d0) :: rest, n, d, h => by
    unfold portDirOf at h
    cases hr : portDirOf rest n with
    | some d' =>
      simp only [hr] at h
      injection h with h; subst h
      exact List.mem_cons_of_mem _ (portDirOf_mem rest n d' hr)
    | none =>
      simp only [hr] at h
      split at h
      · rename_i hs; injection h with h; subst h; subst hs; exact List.mem_cons_self ..
      · cases h

theorem portDirOf_none : ∀ (ports : List (String × String)) (n : String), n ∉ ports.map (·.1) → portDirOf ports n = none
  | [], _, _ => rfl
  | (s, d0) :: rest, n, h => by
    simp only [List.map_cons, List.mem_cons, not_or] at h
    unfold portDirOf
    rw [portDirOf_none rest n h.2]
    simp [Ne.symm h.1]

theorem portDirOf_of_mem : ∀ (ports : List (String × String)) (n d : String), (ports.map (·.1)).Nodup → (n, d) ∈ ports →
    portDirOf ports n = some d
  | [], _, _, _, h => by cases h
  | (s, d0) :: rest, n, d, hnd, h => by
    simp only [List.map_cons, List.nodup_cons] at hnd
    rcases List.mem_cons.mp h with h | h
    · injection h with h1 h2; subst h1; subst h2
      unfold portDirOf
      rw [portDirOf_none rest n hnd.1]
      simp
    · unfold portDirOf
      rw [portDirOf_of_mem rest n d hnd.2 h]

/-- the imported signal, when every direction is one of the enumeration -/
def imp (ports : List (String × String)) (sw : String × Nat) : HSig :=
  ⟨sw.1, sw.2, (portDirOf ports sw.1).bind (lookupS · importDirMap)⟩

theorem importSig_eq (ports : List (String × String)) (hd : ∀ q ∈ ports, q.2 ∈ protoDirs) (sw : String × Nat) :
    importSig ports sw = .ok (imp ports sw) := by
  unfold importSig imp
  cases h : portDirOf ports sw.1 with
  | none => rfl
  | some d =>
    have hmem := portDirOf_mem ports sw.1 d h
    obtain ⟨x, hx, _⟩ := dir_tables d (hd _ hmem)
    simp [hx]

theorem importSigList_eq (ports : List (String × String)) (hd : ∀ q ∈ ports, q.2 ∈ protoDirs) :
    ∀ sigs, importSigList ports sigs = .ok (sigs.map (imp ports))
  | [] => rfl
  | sw :: rest => by
    unfold importSigList
    rw [importSig_eq ports hd sw, importSigList_eq ports hd rest]
    rfl

theorem portDirOf_isSome : ∀ (ports : List (String × String)) (n : String),
    (portDirOf ports n).isSome = ports.any (·.1 == n)
  | [], _ => rfl
  | (s, d) :: rest, n => by
    have ih := portDirOf_isSome rest n
    unfold portDirOf
    cases hr : portDirOf rest n with
    | some d' =>
      rw [hr] at ih
      simp only [List.any_cons, ← ih]
      simp
    | none =>
      rw [hr] at ih
      simp only [List.any_cons, ← ih]
      by_cases hs : s = n
      · simp [hs]
      · simp [hs]

theorem imp_isSome (p : PModule) (hd : ∀ q ∈ p.ports, q.2 ∈ protoDirs) (sw : String × Nat) :
    (imp p.ports sw).dir.isSome = isPort p sw.1 := by
  unfold imp isPort
  rw [← portDirOf_isSome]
  cases h : portDirOf p.ports sw.1 with
  | none => rfl
  | some d =>
    have hmem := portDirOf_mem p.ports sw.1 d h
    obtain ⟨x, hx, _⟩ := dir_tables d (hd _ hmem)
    simp [hx]

theorem filter_imp (p : PModule) (hd : ∀ q ∈ p.ports, q.2 ∈ protoDirs) (sigs : List (String × Nat)) :
    (sigs.map (imp p.ports)).filter (·.dir.isSome) = (sigs.filter (fun sw => isPort p sw.1)).map (imp p.ports) ∧
    (sigs.map (imp p.ports)).filter (·.dir.isNone) = (sigs.filter (fun sw => !isPort p sw.1)).map (imp p.ports) := by
  induction sigs with
  | nil => exact ⟨rfl, rfl⟩
  | cons sw rest ih =>
    have h := imp_isSome p hd sw
    have hn : (imp p.ports sw).dir.isNone = !isPort p sw.1 := by
      rw [← h]; cases (imp p.ports sw).dir <;> rfl
    simp only [List.map_cons, List.filter_cons, h, hn]
    constructor
    · cases isPort p sw.1 <;> simp [ih.1]
    · cases isPort p sw.1 <;> simp [ih.2]

theorem map_back (ports : List (String × String)) (l : List (String × Nat)) :
    (l.map (imp ports)).map (fun s => (s.name, s.width)) = l := by
  induction l with
  | nil => rfl
  | cons a r ih => simp [imp, ih]

theorem exportPorts_imp (ports : List (String × String)) (hnd : (ports.map (·.1)).Nodup) (hd : ∀ q ∈ ports, q.2 ∈ protoDirs) :
    ∀ (l : List (String × Nat)) (q : List (String × String)), l.map (·.1) = q.map (·.1) → (∀ x ∈ q, x ∈ ports) →
      exportPorts (l.map (imp ports)) = .ok q
  | [], [], _, _ => rfl
  | [], _ :: _, h, _ => by simp at h
  | _ :: _, [], h, _ => by simp at h
  | (n, w) :: l, (n', d) :: q, h, hq => by
    simp only [List.map_cons, List.cons.injEq] at h
    obtain ⟨h1, h2⟩ := h
    have h1' : n = n' := h1
    subst h1'
    have hmem : (n, d) ∈ ports := hq _ (List.mem_cons_self ..)
    obtain ⟨x, hx1, hx2⟩ := dir_tables d (hd _ hmem)
    have ih := exportPorts_imp ports hnd hd l q h2 (fun x hx => hq x (List.mem_cons_of_mem _ hx))
    have hhead : (imp ports (n, w)).dir.bind (lookupS · exportDirMap) = some d := by
      simp [imp, portDirOf_of_mem ports n d hnd hmem, hx1, hx2]
    rw [List.map_cons, exportPorts, hhead, ih]
    rfl

/-- connections: import then export is the identity, given that it is on every single well-formed target -/
theorem conns_roundtrip (ws : List (String × Nat)) (ports : List String)
    (htr : ∀ t, wfTarget ws t = true → exportTarget (importTarget ws t) = .ok t) :
    ∀ cs, connsOK ports ws cs = true → ∃ hs, importConns ports ws cs = .ok hs ∧ exportConns hs = .ok cs
  | [], _ => ⟨[], rfl, rfl⟩
  | (pn, t) :: rest, h => by
    simp only [connsOK, Bool.and_eq_true, decide_eq_true_eq] at h
    obtain ⟨⟨hp, ht⟩, hr⟩ := h
    obtain ⟨hs, h1, h2⟩ := conns_roundtrip ws ports htr rest hr
    refine ⟨(pn, importTarget ws t) :: hs, ?_, ?_⟩
    · simp [importConns, hp, h1]
    · simp [exportConns, htr t ht, h2]

theorem insts_roundtrip (ctx : PRef → Option (List String)) (ws : List (String × Nat))
    (htr : ∀ t, wfTarget ws t = true → exportTarget (importTarget ws t) = .ok t) :
    ∀ is, is.all (instOK ctx ws) = true → ∃ hs, importInsts ctx ws is = .ok hs ∧ exportInsts hs = .ok is
  | [], _ => ⟨[], rfl, rfl⟩
  | pi :: rest, h => by
    simp only [List.all_cons, Bool.and_eq_true] at h
    obtain ⟨hi, hr⟩ := h
    obtain ⟨hs, h1, h2⟩ := insts_roundtrip ctx ws htr rest hr
    unfold instOK at hi
    cases hc : ctx pi.ref with
    | none => simp [hc] at hi
    | some ports =>
      simp only [hc, Bool.and_eq_true] at hi
      obtain ⟨hpar, hcs⟩ := hi
      obtain ⟨cs, c1, c2⟩ := conns_roundtrip ws ports htr pi.conns hcs
      have hone : importInst ctx ws pi = .ok ⟨pi.name, pi.ref, pi.params, cs⟩ := by
        unfold importInst
        simp only [hc]
        split
        · rename_i hh1 hh2; simp [hh1, hh2] at hpar
        · simp [c1]
      refine ⟨⟨pi.name, pi.ref, pi.params, cs⟩ :: hs, ?_, ?_⟩
      · rw [importInsts, hone, h1]
      · rw [exportInsts]; simp only [c2, h2]

end Hdl21.RoundTrip
