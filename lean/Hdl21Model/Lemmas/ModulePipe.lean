/-
# Lemmas for the module pipeline (ModulePipe.lean): what each stage relates, position by position
-/
import Hdl21Model.ModulePipe
import Hdl21Model.Lemmas.ConnTypes
import Hdl21Model.Lemmas.ExportWF
import Hdl21Model.Lemmas.ResolveTotal
import Hdl21Model.Lemmas.ArrayPass
namespace Hdl21.ModulePipe
open Hdl21 Hdl21.Pkg Hdl21.RoundTrip Hdl21.ExportWF

/-- two lists related position by position (core has no `Forall₂`) -/
inductive All2 {α β} (R : α → β → Prop) : List α → List β → Prop
  | nil : All2 R [] []
  | cons {a b l m} : R a b → All2 R l m → All2 R (a :: l) (b :: m)

/-- the resolver's relation between a written and a resolved connection -/
def ResRel (fuel : Nat) (pc pr : String × SConn) : Prop := pr.1 = pc.1 ∧ resolveSliceable fuel pc.2 = .ok pr.2

def ResInstRel (fuel : Nat) (i r : HInst) : Prop :=
  r.name = i.name ∧ r.ref = i.ref ∧ r.params = i.params ∧ All2 (ResRel fuel) i.conns r.conns

/-- the exporter's relation between a connection and its target -/
def ExpRel (pc : String × SConn) (pt : String × PTarget) : Prop := pt.1 = pc.1 ∧ exportTarget pc.2 = .ok pt.2

def ExpInstRel (i : HInst) (pi : PInst) : Prop :=
  pi.name = i.name ∧ pi.ref = i.ref ∧ pi.params = i.params ∧ All2 ExpRel i.conns pi.conns

theorem resolveConns_spec (fuel : Nat) : ∀ (cs rs : List (String × SConn)), resolveConns fuel cs = .ok rs →
    All2 (ResRel fuel) cs rs
  | [], rs, h => by rw [resolveConns] at h; injection h with h; subst h; exact .nil
  | (pn, c) :: rest, rs, h => by
    rw [resolveConns] at h
    cases h1 : resolveSliceable fuel c with
    | error e => simp [h1] at h
    | ok r =>
      cases h2 : resolveConns fuel rest with
      | error e => simp [h1, h2] at h
      | ok rs' =>
        simp only [h1, h2] at h
        injection h with h; subst h
        exact .cons ⟨rfl, h1⟩ (resolveConns_spec fuel rest rs' h2)

theorem resolveInsts_spec (fuel : Nat) : ∀ (is rs : List HInst), resolveInsts fuel is = .ok rs →
    All2 (ResInstRel fuel) is rs
  | [], rs, h => by rw [resolveInsts] at h; injection h with h; subst h; exact .nil
  | i :: rest, rs, h => by
    rw [resolveInsts] at h
    cases h1 : resolveConns fuel i.conns with
    | error e => simp [h1] at h
    | ok cs =>
      cases h2 : resolveInsts fuel rest with
      | error e => simp [h1, h2] at h
      | ok rs' =>
        simp only [h1, h2] at h
        injection h with h; subst h
        exact .cons ⟨rfl, rfl, rfl, resolveConns_spec fuel _ _ h1⟩ (resolveInsts_spec fuel rest rs' h2)

theorem exportConns_spec : ∀ (cs : List (String × SConn)) (ts : List (String × PTarget)), exportConns cs = .ok ts →
    All2 ExpRel cs ts
  | [], ts, h => by rw [exportConns] at h; injection h with h; subst h; exact .nil
  | (pn, c) :: rest, ts, h => by
    rw [exportConns] at h
    cases h1 : exportTarget c with
    | error e => simp [h1] at h
    | ok t =>
      cases h2 : exportConns rest with
      | error e => simp [h1, h2] at h
      | ok ts' =>
        simp only [h1, h2] at h
        injection h with h; subst h
        exact .cons ⟨rfl, h1⟩ (exportConns_spec rest ts' h2)

theorem exportInsts_spec : ∀ (is : List HInst) (ps : List PInst), exportInsts is = .ok ps → All2 ExpInstRel is ps
  | [], ps, h => by rw [exportInsts] at h; injection h with h; subst h; exact .nil
  | i :: rest, ps, h => by
    rw [exportInsts] at h
    cases h1 : exportConns i.conns with
    | error e => simp [h1] at h
    | ok cs =>
      cases h2 : exportInsts rest with
      | error e => simp [h1, h2] at h
      | ok ps' =>
        simp only [h1, h2] at h
        injection h with h; subst h
        exact .cons ⟨rfl, rfl, rfl, exportConns_spec _ _ h1⟩ (exportInsts_spec rest ps' h2)

/-- what `elabModule` having answered means, stage by stage -/
theorem elabModule_inv {fuel : Nat} {ctx : PRef → Option (List (String × Nat))} {h e : HModule}
    (he : elabModule fuel ctx h = .ok e) :
    orphanage h = true ∧ connTypes ctx h = true ∧ sliceResolver fuel h = .ok e ∧ connTypes ctx e = true ∧ orphanage e = true := by
  unfold elabModule at he
  cases ho : orphanage h with
  | false => simp [ho] at he
  | true =>
    cases hc : connTypes ctx h with
    | false => simp [ho, hc] at he
    | true =>
      cases hs : sliceResolver fuel h with
      | error x => simp [ho, hc, hs] at he
      | ok h' =>
        cases hc' : connTypes ctx h' with
        | false => simp [ho, hc, hs, hc'] at he
        | true =>
          cases ho' : orphanage h' with
          | false => simp [ho, hc, hs, hc', ho'] at he
          | true =>
            simp [ho, hc, hs, hc', ho'] at he
            subst he
            exact ⟨rfl, rfl, rfl, hc', ho'⟩

theorem sliceResolver_inv {fuel : Nat} {h e : HModule} (hs : sliceResolver fuel h = .ok e) :
    e.name = h.name ∧ e.signals = h.signals ∧ e.ports = h.ports ∧ All2 (ResInstRel fuel) h.instances e.instances := by
  unfold sliceResolver at hs
  cases hr : resolveInsts fuel h.instances with
  | error x => simp [hr] at hs
  | ok is =>
    simp only [hr] at hs
    injection hs with hs; subst hs
    exact ⟨rfl, rfl, rfl, resolveInsts_spec fuel _ _ hr⟩

theorem sigList_of_resolved {fuel : Nat} {h e : HModule} (hs : sliceResolver fuel h = .ok e) : sigList e = sigList h := by
  obtain ⟨_, h2, h3, _⟩ := sliceResolver_inv hs
  unfold sigList; rw [h2, h3]

theorem forall2_map_eq {α β γ} {R : α → β → Prop} {f : α → γ} {g : β → γ} (hR : ∀ a b, R a b → g b = f a) :
    ∀ {l : List α} {m : List β}, All2 R l m → m.map g = l.map f
  | _, _, .nil => rfl
  | _, _, .cons h t => by simp [hR _ _ h, forall2_map_eq hR t]

theorem forall2_mem_right {α β} {R : α → β → Prop} : ∀ {l : List α} {m : List β}, All2 R l m →
    ∀ b ∈ m, ∃ a ∈ l, R a b
  | _, _, .nil, b, hb => by cases hb
  | _, _, .cons h t, b, hb => by
    rcases List.mem_cons.mp hb with rfl | hb
    · exact ⟨_, List.mem_cons_self .., h⟩
    · obtain ⟨a, ha, hr⟩ := forall2_mem_right t b hb
      exact ⟨a, List.mem_cons_of_mem _ ha, hr⟩

theorem forall2_mem_left {α β} {R : α → β → Prop} : ∀ {l : List α} {m : List β}, All2 R l m →
    ∀ a ∈ l, ∃ b ∈ m, R a b
  | _, _, .nil, a, ha => by cases ha
  | _, _, .cons h t, a, ha => by
    rcases List.mem_cons.mp ha with rfl | ha
    · exact ⟨_, List.mem_cons_self .., h⟩
    · obtain ⟨b, hb, hr⟩ := forall2_mem_left t a ha
      exact ⟨b, List.mem_cons_of_mem _ hb, hr⟩

theorem forall2_comp {α β γ} {R : α → β → Prop} {S : β → γ → Prop} {T : α → γ → Prop}
    (hT : ∀ a b c, R a b → S b c → T a c) :
    ∀ {l : List α} {m : List β} {n : List γ}, All2 R l m → All2 S m n → All2 T l n
  | _, _, _, .nil, .nil => .nil
  | _, _, _, .cons h t, .cons h' t' => .cons (hT _ _ _ h h') (forall2_comp hT t t')

theorem forall2_imp_mem {α β} {R T : α → β → Prop} :
    ∀ {l : List α} {m : List β}, All2 R l m → (∀ a ∈ l, ∀ b, R a b → T a b) → All2 T l m
  | _, _, .nil, _ => .nil
  | _, _, .cons h t, hT => .cons (hT _ (List.mem_cons_self ..) _ h)
      (forall2_imp_mem t (fun a ha b hr => hT a (List.mem_cons_of_mem _ ha) b hr))

/-- the instance-level facts `connTypes` and `orphanage` give -/
theorem connTypes_inst {ctx : PRef → Option (List (String × Nat))} {h : HModule} (hc : connTypes ctx h = true) :
    ∀ i ∈ h.instances, ∃ ports, ctx i.ref = some ports ∧ ConnTypes.passes ports i.conns = true := by
  intro i hi
  unfold connTypes at hc
  rw [List.all_eq_true] at hc
  have := hc i hi
  cases hx : ctx i.ref with
  | none => simp [hx] at this
  | some ports => exact ⟨ports, rfl, by simpa [hx] using this⟩

theorem orphanage_inst {h : HModule} (ho : orphanage h = true) :
    ∀ i ∈ h.instances, ∀ pc ∈ i.conns, sigsOK (sigList h) pc.2 = true := by
  intro i hi pc hpc
  unfold orphanage at ho
  rw [List.all_eq_true] at ho
  have := ho i hi
  rw [List.all_eq_true] at this
  exact this pc hpc


/-! ### the stages answer when their inputs are in order -/

theorem resolveConns_total (fuel : Nat) : ∀ (cs : List (String × SConn)),
    (∀ pc ∈ cs, ∃ r, resolveSliceable fuel pc.2 = .ok r) → ∃ rs, resolveConns fuel cs = .ok rs
  | [], _ => ⟨[], by rw [resolveConns]⟩
  | (pn, c) :: rest, h => by
    obtain ⟨r, hr⟩ := h (pn, c) (List.mem_cons_self ..)
    obtain ⟨rs, hrs⟩ := resolveConns_total fuel rest (fun pc hpc => h pc (List.mem_cons_of_mem _ hpc))
    exact ⟨(pn, r) :: rs, by rw [resolveConns]; simp only [hr, hrs]⟩

theorem resolveInsts_total (fuel : Nat) : ∀ (is : List HInst),
    (∀ i ∈ is, ∀ pc ∈ i.conns, ∃ r, resolveSliceable fuel pc.2 = .ok r) → ∃ rs, resolveInsts fuel is = .ok rs
  | [], _ => ⟨[], by rw [resolveInsts]⟩
  | i :: rest, h => by
    obtain ⟨cs, hcs⟩ := resolveConns_total fuel i.conns (h i (List.mem_cons_self ..))
    obtain ⟨rs, hrs⟩ := resolveInsts_total fuel rest (fun j hj => h j (List.mem_cons_of_mem _ hj))
    exact ⟨⟨i.name, i.ref, i.params, cs⟩ :: rs, by rw [resolveInsts]; simp only [hcs, hrs]⟩

theorem le_foldl_max : ∀ (l : List Nat) (b x : Nat), x ∈ l ∨ x ≤ b → x ≤ l.foldl max b
  | [], b, x, h => by
    rcases h with h | h
    · cases h
    · exact h
  | y :: ys, b, x, h => by
    rw [List.foldl_cons]
    apply le_foldl_max ys (max b y) x
    rcases h with h | h
    · rcases List.mem_cons.mp h with rfl | h
      · exact Or.inr (Nat.le_max_right ..)
      · exact Or.inl h
    · exact Or.inr (Nat.le_trans h (Nat.le_max_left ..))

theorem needR_le_fuelOf (h : HModule) (i : HInst) (hi : i ∈ h.instances) (pc : String × SConn) (hpc : pc ∈ i.conns) :
    needR pc.2 ≤ fuelOf h := by
  unfold fuelOf
  apply le_foldl_max
  left
  rw [List.mem_flatMap]
  exact ⟨i, hi, List.mem_map.mpr ⟨pc, hpc, rfl⟩⟩


/-! ### instance arrays -/

theorem all2_getElem {α β} {R : α → β → Prop} : ∀ {l : List α} {m : List β}, All2 R l m → ∀ (j : Nat) (a : α), l[j]? = some a →
    ∃ b, m[j]? = some b ∧ R a b
  | _, _, .nil, j, a, h => by simp at h
  | _, _, .cons hr t, j, a, h => by
    cases j with
    | zero => simp at h; subst h; exact ⟨_, by simp, hr⟩
    | succ j => simp at h; simpa using all2_getElem t j a h

theorem elemSConns_spec : ∀ (es : List (String × ArrayPass.AElem)) (cs : List (String × SConn)), elemSConns es = .ok cs →
    All2 (fun pe pc => pc.1 = pe.1 ∧ pe.2.conn = some pc.2) es cs
  | [], cs, h => by rw [elemSConns] at h; injection h with h; subst h; exact .nil
  | (p, e) :: rest, cs, h => by
    rw [elemSConns] at h
    cases hc : e.conn with
    | none => simp [hc] at h
    | some c =>
      cases hr : elemSConns rest with
      | error x => simp [hc, hr] at h
      | ok r =>
        simp only [hc, hr] at h
        injection h with h; subst h
        exact .cons ⟨rfl, hc⟩ (elemSConns_spec rest r hr)

theorem mkElems_spec (a : HArr) (nm : String → Nat → String) : ∀ (k : Nat) (els : List (List (String × ArrayPass.AElem))) (is : List HInst),
    mkElems a nm k els = .ok is → ∀ (j : Nat) es, els[j]? = some es →
      ∃ r, is[j]? = some r ∧ r.name = nm a.name (k + j) ∧ r.ref = a.ref ∧ r.params = a.params ∧ elemSConns es = .ok r.conns
  | k, [], is, h, j, es, hj => by simp at hj
  | k, e0 :: rest, is, h, j, es, hj => by
    rw [mkElems] at h
    cases hc : elemSConns e0 with
    | error x => simp [hc] at h
    | ok cs =>
      cases hr : mkElems a nm (k + 1) rest with
      | error x => simp [hc, hr] at h
      | ok r =>
        simp only [hc, hr] at h
        injection h with h; subst h
        cases j with
        | zero => simp at hj; subst hj; exact ⟨⟨nm a.name k, a.ref, a.params, cs⟩, by simp, rfl, rfl, rfl, hc⟩
        | succ j =>
          simp at hj
          obtain ⟨x, h1, h2, h3, h4, h5⟩ := mkElems_spec a nm (k + 1) rest r hr j es hj
          exact ⟨x, by simpa using h1, by rw [h2]; congr 1; omega, h3, h4, h5⟩

theorem flattenArrays_spec (ctx : PRef → Option (List (String × Nat))) (nm : String → Nat → String) :
    ∀ (arrs : List HArr) (h h' : HModule), flattenArrays ctx nm arrs h = .ok h' →
      h'.name = h.name ∧ h'.signals = h.signals ∧ h'.ports = h.ports ∧ (∀ i ∈ h.instances, i ∈ h'.instances) ∧
      ∀ a ∈ arrs, ∃ els, expandArr ctx nm a = .ok els ∧ ∀ r ∈ els, r ∈ h'.instances
  | [], h, h', hf => by
    rw [flattenArrays] at hf; injection hf with hf; subst hf
    exact ⟨rfl, rfl, rfl, fun _ hi => hi, fun _ ha => by cases ha⟩
  | a :: rest, h, h', hf => by
    rw [flattenArrays] at hf
    cases he : expandArr ctx nm a with
    | error x => simp [he] at hf
    | ok els =>
      simp only [he] at hf
      obtain ⟨h1, h2, h3, h4, h5⟩ := flattenArrays_spec ctx nm rest _ h' hf
      refine ⟨h1, h2, h3, fun i hi => h4 i (List.mem_append_left _ hi), ?_⟩
      intro x hx
      rcases List.mem_cons.mp hx with rfl | hx
      · exact ⟨els, he, fun r hr => h4 r (List.mem_append_right _ hr)⟩
      · exact h5 x hx

theorem lookupP_map (p : String) : ∀ (ports : List (String × Nat)),
    ArrayPass.lookupP p (ports.map fun pw => (pw.1, ArrayPass.Port.sig pw.2)) = (Pkg.lookup p ports).map ArrayPass.Port.sig
  | [] => rfl
  | (a, w) :: rest => by
    simp only [List.map_cons, ArrayPass.lookupP, Pkg.lookup]
    by_cases h : a = p
    · simp [h]
    · simp [h, lookupP_map p rest]


/-! ### the namespace after `ArrayFlattener` -/

theorem mkElems_names (a : HArr) (nm : String → Nat → String) : ∀ (k : Nat) (els : List (List (String × ArrayPass.AElem))) (is : List HInst),
    mkElems a nm k els = .ok is → is.map (·.name) = (List.range els.length).map (fun j => nm a.name (k + j))
  | k, [], is, h => by rw [mkElems] at h; injection h with h; subst h; rfl
  | k, e0 :: rest, is, h => by
    rw [mkElems] at h
    cases hc : elemSConns e0 with
    | error x => simp [hc] at h
    | ok cs =>
      cases hr : mkElems a nm (k + 1) rest with
      | error x => simp [hc, hr] at h
      | ok r =>
        simp only [hc, hr] at h
        injection h with h; subst h
        rw [List.length_cons, List.range_succ_eq_map, List.map_cons, List.map_cons, mkElems_names a nm (k + 1) rest r hr, List.map_map]
        simp only [Nat.add_zero, List.cons.injEq, true_and]
        apply List.map_congr_left
        intro j _
        simp only [Function.comp]
        congr 1; omega

theorem mkElems_conns (a : HArr) (nm : String → Nat → String) : ∀ (k : Nat) (els : List (List (String × ArrayPass.AElem))) (is : List HInst),
    mkElems a nm k els = .ok is → ∀ r ∈ is, ∃ es ∈ els, elemSConns es = .ok r.conns
  | k, [], is, h, r, hr => by rw [mkElems] at h; injection h with h; subst h; cases hr
  | k, e0 :: rest, is, h, r, hr => by
    rw [mkElems] at h
    cases hc : elemSConns e0 with
    | error x => simp [hc] at h
    | ok cs =>
      cases hr' : mkElems a nm (k + 1) rest with
      | error x => simp [hc, hr'] at h
      | ok rs =>
        simp only [hc, hr'] at h
        injection h with h; subst h
        rcases List.mem_cons.mp hr with rfl | hr
        · exact ⟨e0, List.mem_cons_self .., hc⟩
        · obtain ⟨es, hes, h2⟩ := mkElems_conns a nm (k + 1) rest rs hr' r hr
          exact ⟨es, List.mem_cons_of_mem _ hes, h2⟩


end Hdl21.ModulePipe
