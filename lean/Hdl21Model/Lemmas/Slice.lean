import Hdl21Model.Slice
namespace Hdl21

theorem arith_length (f s : Int) (n : Nat) : (arith f s n).length = n := by
  simp [arith]

theorem mem_arith {f s : Int} {n : Nat} {x : Int} :
    x ∈ arith f s n ↔ ∃ k : Nat, k < n ∧ x = f + (k : Int) * s := by
  simp [arith, eq_comm]

theorem arith_zero (f s : Int) : arith f s 0 = [] := rfl

theorem arith_succ (f s : Int) (n : Nat) : arith f s (n + 1) = f :: arith (f + s) s n := by
  unfold arith
  rw [List.range_succ_eq_map, List.map_cons, List.map_map]
  congr 1
  · simp
  · apply List.map_congr_left
    intro a _
    simp only [Function.comp]
    push_cast
    rw [Int.add_mul]; omega

theorem arith_ne_nil {f s : Int} {n : Nat} (h : n ≠ 0) : arith f s n ≠ [] := by
  intro hc
  have := congrArg List.length hc
  simp [arith_length] at this
  exact h this

theorem bits_pos (t b st : Int) (n : Nat) (h : ¬ st < 0) :
    Inner.bits ⟨t, b, st, n⟩ = arith b st n := by
  simp [Inner.bits, h]

theorem bits_neg (t b st : Int) (n : Nat) (h : st < 0) :
    Inner.bits ⟨t + 1, b, st, n⟩ = arith t st n := by
  simp [Inner.bits, h]

/-- Clamped bounds stay inside `[-1, len]`, tighter per step sign. -/
theorem pyClamp_bounds (len step x : Int) (hl : 0 ≤ len) :
    (0 < step → 0 ≤ pyClamp len step x ∧ pyClamp len step x ≤ len) ∧
    (step < 0 → -1 ≤ pyClamp len step x ∧ pyClamp len step x ≤ len - 1) := by
  unfold pyClamp
  constructor <;> intro hs <;> simp only [] <;> split <;> (try split) <;> (try split) <;> omega

theorem pyAdjust_bounds (w : Nat) (a b : Option Int) (step : Int) :
    (0 < step → 0 ≤ (pyAdjust w a b step).1 ∧ (pyAdjust w a b step).2 ≤ w) ∧
    (step < 0 → (pyAdjust w a b step).1 ≤ (w : Int) - 1 ∧ -1 ≤ (pyAdjust w a b step).2) := by
  have hw : (0 : Int) ≤ (w : Int) := Int.natCast_nonneg w
  unfold pyAdjust
  constructor <;> intro hs
  · constructor
    · cases a with
      | none => simp; omega
      | some x => exact ((pyClamp_bounds w step x hw).1 hs).1
    · cases b with
      | none => simp; omega
      | some x => exact ((pyClamp_bounds w step x hw).1 hs).2
  · constructor
    · cases a with
      | none => simp [hs]
      | some x => exact ((pyClamp_bounds w step x hw).2 hs).2
    · cases b with
      | none => simp [hs]
      | some x => exact ((pyClamp_bounds w step x hw).2 hs).1

/-- With a positive step the last selected index stays below `stop`. -/
theorem last_lt_stop {start stop step : Int} (hs : 0 < step) (_hlt : start < stop) :
    start + ((stop - start - 1) / step) * step ≤ stop - 1 := by
  have h := Int.ediv_mul_le (stop - start - 1) (Int.ne_of_gt hs)
  omega

/-- With a negative step the last selected index stays above `stop`. -/
theorem last_gt_stop {start stop step : Int} (hs : step < 0) (_hlt : stop < start) :
    stop + 1 ≤ start - ((start - stop - 1) / (-step)) * (-step) := by
  have h := Int.ediv_mul_le (start - stop - 1) (Int.ne_of_gt (by omega : 0 < -step))
  omega

theorem pyLen_pos_step {start stop step : Int} (hs : 0 < step) (hlt : start < stop) :
    ((pyLen start stop step : Nat) : Int) = (stop - start - 1) / step + 1 := by
  unfold pyLen
  have h0 : 0 ≤ (stop - start - 1) / step := Int.ediv_nonneg (by omega) (by omega)
  rw [if_neg (by omega : ¬ step < 0), if_pos hlt]
  omega

theorem pyLen_neg_step {start stop step : Int} (hs : step < 0) (hlt : stop < start) :
    ((pyLen start stop step : Nat) : Int) = (start - stop - 1) / (-step) + 1 := by
  unfold pyLen
  have h0 : 0 ≤ (start - stop - 1) / (-step) := Int.ediv_nonneg (by omega) (by omega)
  rw [if_pos hs, if_pos hlt]
  omega

theorem pyLen_zero_iff_pos {start stop step : Int} (hs : 0 < step) :
    pyLen start stop step = 0 ↔ ¬ start < stop := by
  unfold pyLen
  rw [if_neg (by omega : ¬ step < 0)]
  constructor
  · intro h hlt
    have h0 : 0 ≤ (stop - start - 1) / step := Int.ediv_nonneg (by omega) (by omega)
    rw [if_pos hlt] at h
    omega
  · intro h; rw [if_neg h]

theorem pyLen_zero_iff_neg {start stop step : Int} (hs : step < 0) :
    pyLen start stop step = 0 ↔ ¬ stop < start := by
  unfold pyLen
  rw [if_pos hs]
  constructor
  · intro h hlt
    have h0 : 0 ≤ (start - stop - 1) / (-step) := Int.ediv_nonneg (by omega) (by omega)
    rw [if_pos hlt] at h
    omega
  · intro h; rw [if_neg h]

end Hdl21
