import Hdl21Model.InstOps

namespace Hdl21.InstOps

theorem lookup_none_iff (l : List (Port × Conn)) (p : Port) :
    lookup l p = none ↔ p ∉ l.map (·.1) := by
  induction l with
  | nil => simp [lookup]
  | cons h t ih =>
    obtain ⟨q, c⟩ := h
    by_cases hq : q = p
    · simp [lookup, hq]
    · simp only [lookup, if_neg hq, List.map_cons, List.mem_cons, not_or]
      constructor
      · intro h; exact ⟨fun e => hq e.symm, ih.mp h⟩
      · intro h; exact ih.mpr h.2

theorem lookup_setAt (l : List (Port × Conn)) (p : Port) (c : Conn) (x : Port) :
    lookup (setAt l p c) x = if x = p then (lookup l p).map (fun _ => c) else lookup l x := by
  induction l with
  | nil => simp [lookup, setAt]
  | cons h t ih =>
    obtain ⟨q, d⟩ := h
    by_cases hq : q = p
    · subst hq
      by_cases hx : x = q
      · subst hx; simp [lookup, setAt]
      · have : ¬ q = x := fun e => hx e.symm
        simp [lookup, setAt, hx, this]
    · by_cases hx : x = p
      · subst hx; simp [lookup, setAt, hq, ih]
      · simp only [setAt, if_neg hq, lookup, ih, if_neg hx]

theorem keys_setAt (l : List (Port × Conn)) (p : Port) (c : Conn) :
    (setAt l p c).map (·.1) = l.map (·.1) := by
  induction l with
  | nil => rfl
  | cons h t ih =>
    obtain ⟨q, d⟩ := h
    by_cases hq : q = p <;> simp [setAt, hq, ih]

theorem keys_eraseKey (l : List (Port × Conn)) (p : Port) :
    (eraseKey l p).map (·.1) = (l.map (·.1)).erase p := by
  induction l with
  | nil => rfl
  | cons h t ih =>
    obtain ⟨q, d⟩ := h
    by_cases hq : q = p
    · simp [eraseKey, hq]
    · simp [eraseKey, hq, ih, List.erase_cons_tail]

theorem lookup_eraseKey (l : List (Port × Conn)) (p x : Port) (hn : (l.map (·.1)).Nodup) :
    lookup (eraseKey l p) x = if x = p then none else lookup l x := by
  induction l with
  | nil => simp [lookup, eraseKey]
  | cons h t ih =>
    obtain ⟨q, d⟩ := h
    simp only [List.map_cons, List.nodup_cons] at hn
    by_cases hq : q = p
    · subst hq
      simp only [eraseKey, if_true]
      by_cases hx : x = q
      · subst hx; simp only [if_true]; exact (lookup_none_iff t x).mpr hn.1
      · have : ¬ q = x := fun e => hx e.symm
        simp [lookup, hx, this]
    · simp only [eraseKey, if_neg hq, lookup]
      by_cases hx : x = p
      · subst hx; simp [hq, ih hn.2]
      · simp [ih hn.2, hx]

theorem lookup_append (l : List (Port × Conn)) (p x : Port) (c : Conn) :
    lookup (l ++ [(p, c)]) x = match lookup l x with
      | some d => some d
      | none => if p = x then some c else none := by
  induction l with
  | nil => simp [lookup]
  | cons h t ih =>
    obtain ⟨q, d⟩ := h
    by_cases hq : q = x <;> simp [lookup, hq, ih]

theorem mem_insertSet (l : List Port) (p x : Port) : x ∈ insertSet l p ↔ x ∈ l ∨ x = p := by
  unfold insertSet
  by_cases h : p ∈ l
  · simp only [if_pos h]; constructor
    · exact Or.inl
    · rintro (h' | h'); exact h'; exact h' ▸ h
  · simp [if_neg h]

theorem nodup_insertSet (l : List Port) (p : Port) (h : l.Nodup) : (insertSet l p).Nodup := by
  unfold insertSet
  by_cases hp : p ∈ l
  · simpa [hp] using h
  · simp only [if_neg hp]
    exact List.nodup_append.mpr ⟨h, by simp, by
      intro a ha b hb; simp at hb; subst hb; exact fun e => hp (e ▸ ha)⟩

theorem inv_init : Inv init :=
  ⟨by simp [init], by simp [init, lookup], by simp [init], by simp [init], by simp [init], by simp [init, lookup]⟩

/-- Under the invariant, the connection found under `p` carries the back-reference that `remove` expects. -/
theorem back_present {s : State} (h : Inv s) {p : Port} {old : Conn} (hl : lookup s.conns p = some old) :
    p ∈ s.back old := (h.back old p).mpr hl

private theorem inv_replace {s : State} (h : Inv s) (p : Port) (c : Conn) : Inv (doReplace s p c).1 := by
  unfold doReplace
  simp only [connref]
  cases hl : lookup s.conns p with
  | none =>
    exact ⟨h.keys, h.back, h.nodup,
      fun x hx => (mem_insertSet _ _ _).mpr (Or.inl (h.allP x hx)),
      fun x hx => by
        rcases (mem_insertSet _ _ _).mp hx with hx | hx
        · exact (mem_insertSet _ _ _).mpr (Or.inl (h.allC x hx))
        · exact (mem_insertSet _ _ _).mpr (Or.inr hx),
      fun x d hx => (mem_insertSet _ _ _).mpr (Or.inl (h.conn_has_ref x d hx))⟩
  | some old =>
    refine ⟨?_, ?_, ?_, ?_, ?_, ?_⟩
    · simp only [keys_setAt]; exact h.keys
    · intro d x
      simp only [lookup_setAt, hl, Option.map_some, backAdd, backRemove]
      by_cases hd : d = c
      · subst hd
        simp only [if_true, mem_insertSet]
        by_cases hx : x = p
        · subst hx; simp
        · simp only [hx, or_false]
          by_cases ho : d = old
          · subst ho; simp only [if_true, List.mem_filter, decide_eq_true_eq, ne_eq, hx, not_false_eq_true, and_true]
            exact h.back d x
          · simp only [if_neg ho]; exact h.back d x
      · simp only [if_neg hd]
        by_cases hx : x = p
        · subst hx
          simp only [if_true]
          by_cases ho : d = old
          · subst ho; simp [Ne.symm hd]
          · simp only [if_neg ho]
            constructor
            · intro hm; have := (h.back d x).mp hm; rw [hl] at this; exact absurd (Option.some.inj this).symm ho
            · intro e; exact absurd (Option.some.inj e).symm hd
        · simp only [if_neg hx]
          by_cases ho : d = old
          · subst ho; simp only [if_true, List.mem_filter, decide_eq_true_eq, ne_eq, hx, not_false_eq_true, and_true]
            exact h.back d x
          · simp only [if_neg ho]; exact h.back d x
    · intro d
      simp only [backAdd, backRemove]
      by_cases hd : d = c
      · subst hd; simp only [if_true]
        apply nodup_insertSet
        by_cases ho : d = old
        · simp only [ho, if_true]; exact (h.nodup old).filter _
        · simp only [if_neg ho]; exact h.nodup d
      · simp only [if_neg hd]
        by_cases ho : d = old
        · simp only [ho, if_true]; exact (h.nodup old).filter _
        · simp only [if_neg ho]; exact h.nodup d
    · exact fun x hx => (mem_insertSet _ _ _).mpr (Or.inl (h.allP x hx))
    · intro x hx
      rcases (mem_insertSet _ _ _).mp hx with hx | hx
      · exact (mem_insertSet _ _ _).mpr (Or.inl (h.allC x hx))
      · exact (mem_insertSet _ _ _).mpr (Or.inr hx)
    · intro x d hx
      simp only [lookup_setAt] at hx
      by_cases hxp : x = p
      · exact (mem_insertSet _ _ _).mpr (Or.inr hxp)
      · simp only [if_neg hxp] at hx
        exact (mem_insertSet _ _ _).mpr (Or.inl (h.conn_has_ref x d hx))

theorem inv_step {s : State} (h : Inv s) (op : Op) : Inv (step s op).1 := by
  cases op with
  | replace p c => exact inv_replace h p c
  | getref p =>
    simp only [step, portref]
    exact ⟨h.keys, h.back, h.nodup,
      fun x hx => by
        rcases (mem_insertSet _ _ _).mp hx with hx | hx
        · exact (mem_insertSet _ _ _).mpr (Or.inl (h.allP x hx))
        · exact (mem_insertSet _ _ _).mpr (Or.inr hx),
      fun x hx => (mem_insertSet _ _ _).mpr (Or.inl (h.allC x hx)),
      h.conn_has_ref⟩
  | connect p c =>
    simp only [step]
    cases hl : lookup s.conns p with
    | some old => exact inv_replace h p c
    | none =>
      have hp : p ∉ s.conns.map (·.1) := (lookup_none_iff _ _).mp hl
      simp only [connref]
      refine ⟨?_, ?_, ?_, ?_, ?_, ?_⟩
      · simp only [List.map_append, List.map_cons, List.map_nil]
        exact List.nodup_append.mpr ⟨h.keys, by simp, by
          intro a ha b hb; simp at hb; subst hb; exact fun e => hp (e ▸ ha)⟩
      · intro d x
        simp only [lookup_append, backAdd]
        by_cases hd : d = c
        · subst hd
          simp only [if_true, mem_insertSet]
          cases hx : lookup s.conns x with
          | some e =>
            have hxp : x ≠ p := fun e' => by rw [e', hl] at hx; cases hx
            simp only [hxp, or_false]
            rw [← hx]; exact h.back d x
          | none =>
            simp only
            constructor
            · rintro (hm | hm)
              · have := (h.back d x).mp hm; rw [hx] at this; cases this
              · simp [hm]
            · intro e; by_cases hpx : p = x
              · exact Or.inr hpx.symm
              · simp [hpx] at e
        · simp only [if_neg hd]
          cases hx : lookup s.conns x with
          | some e => simp only; rw [← hx]; exact h.back d x
          | none =>
            simp only
            constructor
            · intro hm; have := (h.back d x).mp hm; rw [hx] at this; cases this
            · intro e; by_cases hpx : p = x
              · simp only [if_pos hpx] at e; exact absurd (Option.some.inj e).symm hd
              · simp [hpx] at e
      · intro d
        simp only [backAdd]
        by_cases hd : d = c
        · subst hd; simp only [if_true]; exact nodup_insertSet _ _ (h.nodup d)
        · simp only [if_neg hd]; exact h.nodup d
      · exact fun x hx => (mem_insertSet _ _ _).mpr (Or.inl (h.allP x hx))
      · intro x hx
        rcases (mem_insertSet _ _ _).mp hx with hx | hx
        · exact (mem_insertSet _ _ _).mpr (Or.inl (h.allC x hx))
        · exact (mem_insertSet _ _ _).mpr (Or.inr hx)
      · intro x d hx
        simp only [lookup_append] at hx
        cases hx' : lookup s.conns x with
        | some e => exact (mem_insertSet _ _ _).mpr (Or.inl (h.conn_has_ref x e hx'))
        | none =>
          rw [hx'] at hx; simp only at hx
          by_cases hpx : p = x
          · exact (mem_insertSet _ _ _).mpr (Or.inr hpx.symm)
          · simp [hpx] at hx
  | disconnect p =>
    simp only [step]
    cases hl : lookup s.conns p with
    | none => exact h
    | some old =>
      simp only [connref]
      refine ⟨?_, ?_, ?_, ?_, ?_, ?_⟩
      · simp only [keys_eraseKey]; exact h.keys.erase p
      · intro d x
        simp only [lookup_eraseKey _ _ _ h.keys, backRemove]
        by_cases hx : x = p
        · subst hx
          simp only [if_true]
          by_cases ho : d = old
          · subst ho; simp
          · simp only [if_neg ho]
            constructor
            · intro hm; have := (h.back d x).mp hm; rw [hl] at this; exact absurd (Option.some.inj this).symm ho
            · intro e; cases e
        · simp only [if_neg hx]
          by_cases ho : d = old
          · subst ho; simp only [if_true, List.mem_filter, decide_eq_true_eq, ne_eq, hx, not_false_eq_true, and_true]
            exact h.back d x
          · simp only [if_neg ho]; exact h.back d x
      · intro d
        simp only [backRemove]
        by_cases ho : d = old
        · simp only [ho, if_true]; exact (h.nodup old).filter _
        · simp only [if_neg ho]; exact h.nodup d
      · exact fun x hx => (mem_insertSet _ _ _).mpr (Or.inl (h.allP x hx))
      · intro x hx
        rcases (mem_insertSet _ _ _).mp hx with hx | hx
        · exact (mem_insertSet _ _ _).mpr (Or.inl (h.allC x hx))
        · exact (mem_insertSet _ _ _).mpr (Or.inr hx)
      · intro x d hx
        rw [lookup_eraseKey _ _ _ h.keys] at hx
        by_cases hxp : x = p
        · simp [hxp] at hx
        · simp only [if_neg hxp] at hx
          exact (mem_insertSet _ _ _).mpr (Or.inl (h.conn_has_ref x d hx))

theorem inv_run {s : State} (h : Inv s) (ops : List Op) : Inv (run s ops) := by
  induction ops generalizing s with
  | nil => exact h
  | cons op ops ih => exact ih (inv_step h op)

theorem abs_step {s : State} (h : Inv s) (op : Op) : abs (step s op).1 = specStep (abs s) op := by
  funext x
  cases op with
  | getref p => simp [step, portref, abs, specStep]
  | replace p c =>
    simp only [step, doReplace, connref, abs, specStep]
    cases hl : lookup s.conns p with
    | none => by_cases hx : x = p <;> simp [hx, hl]
    | some old => simp only [lookup_setAt, hl]
  | connect p c =>
    simp only [step, doReplace, connref, abs, specStep]
    cases hl : lookup s.conns p with
    | some old =>
      simp only [hl, lookup_setAt, Option.map_some]
    | none =>
      simp only [lookup_append]
      by_cases hx : x = p
      · subst hx; simp [hl]
      · have : ¬ p = x := fun e => hx e.symm
        simp only [if_neg hx, if_neg this]
        cases lookup s.conns x <;> rfl
  | disconnect p =>
    simp only [step, connref, abs, specStep]
    cases hl : lookup s.conns p with
    | none => by_cases hx : x = p <;> simp [hx, hl]
    | some old => simp only [lookup_eraseKey _ _ _ h.keys]

end Hdl21.InstOps
