/-
# Lemmas about the ownership check (Orphanage.lean)
-/
import Hdl21Model.Orphanage
namespace Hdl21.Orphanage
open Hdl21 Hdl21.Pkg

mutual
/-- the recursive check is "every object the connectable is made of is mine" -/
theorem checkConn_eq (me : Nat) : ∀ c : OConn, checkConn me c = (owners c).all (· == some me)
  | .sig _ _ o => by simp [checkConn, owners]
  | .bundle _ o => by simp [checkConn, owners]
  | .slice p _ => by simp only [checkConn, owners]; exact checkConn_eq me p
  | .concat ps => by simp only [checkConn, owners]; exact checkList_eq me ps
  | .noconn => by simp [checkConn, owners]
  | .pref o _ => by simp [checkConn, owners]
  | .bref o _ => by simp [checkConn, owners]
  | .anon fs => by simp only [checkConn, owners]; exact checkFields_eq me fs
theorem checkList_eq (me : Nat) : ∀ ps : List OConn, checkList me ps = (ownersList ps).all (· == some me)
  | [] => by simp [checkList, ownersList]
  | p :: ps => by
    simp only [checkList, ownersList, List.all_append]
    rw [checkConn_eq me p, checkList_eq me ps]
theorem checkFields_eq (me : Nat) : ∀ fs : List (String × OConn), checkFields me fs = (ownersFields fs).all (· == some me)
  | [] => by simp [checkFields, ownersFields]
  | (_, c) :: fs => by
    simp only [checkFields, ownersFields, List.all_append]
    rw [checkConn_eq me c, checkFields_eq me fs]
end

theorem checkConn_iff (me : Nat) (c : OConn) : checkConn me c = true ↔ ∀ o ∈ owners c, o = some me := by
  rw [checkConn_eq]; simp

mutual
/-- a checked connectable that survives resolution names only declared signals — given that what `me` owns is what it declares -/
theorem erase_sigsOK (me : Nat) (ws : List (String × Nat)) :
    ∀ (c : OConn) (s : SConn), (∀ n w, (n, w, some me) ∈ sigObjs c → lookup n ws = some w) →
      checkConn me c = true → erase c = some s → sigsOK ws s = true
  | .sig n w o, s, hc, hk, he => by
    simp only [erase, Option.some.injEq] at he; subst he
    simp only [checkConn, beq_iff_eq] at hk; subst hk
    have := hc n w (by simp [sigObjs])
    simp [sigsOK, this]
  | .slice p i, s, hc, hk, he => by
    simp only [erase, Option.map_eq_some_iff] at he
    obtain ⟨q, hq, rfl⟩ := he
    simp only [sigsOK]
    exact erase_sigsOK me ws p q (fun n w h => hc n w (by simpa [sigObjs] using h)) (by simpa [checkConn] using hk) hq
  | .concat ps, s, hc, hk, he => by
    simp only [erase, Option.map_eq_some_iff] at he
    obtain ⟨qs, hq, rfl⟩ := he
    simp only [sigsOK]
    exact eraseList_sigsOK me ws ps qs (fun n w h => hc n w (by simpa [sigObjs] using h)) (by simpa [checkConn] using hk) hq
  | .bundle _ _, _, _, _, he => by simp [erase] at he
  | .noconn, _, _, _, he => by simp [erase] at he
  | .pref _ _, _, _, _, he => by simp [erase] at he
  | .bref _ _, _, _, _, he => by simp [erase] at he
  | .anon _, _, _, _, he => by simp [erase] at he
theorem eraseList_sigsOK (me : Nat) (ws : List (String × Nat)) :
    ∀ (ps : List OConn) (qs : List SConn), (∀ n w, (n, w, some me) ∈ sigObjsList ps → lookup n ws = some w) →
      checkList me ps = true → eraseList ps = some qs → sigsOKList ws qs = true
  | [], qs, _, _, he => by
    simp only [eraseList, Option.some.injEq] at he; subst he; simp [sigsOKList]
  | p :: ps, qs, hc, hk, he => by
    simp only [eraseList] at he
    cases h1 : erase p with
    | none => simp [h1] at he
    | some q =>
      cases h2 : eraseList ps with
      | none => simp [h1, h2] at he
      | some qs' =>
        simp only [h1, h2, Option.some.injEq] at he; subst he
        simp only [checkList, Bool.and_eq_true] at hk
        simp only [sigsOKList, Bool.and_eq_true]
        exact ⟨erase_sigsOK me ws p q (fun n w h => hc n w (by simp [sigObjsList, h])) hk.1 h1,
               eraseList_sigsOK me ws ps qs' (fun n w h => hc n w (by simp [sigObjsList, h])) hk.2 h2⟩
end

end Hdl21.Orphanage
