/-
# `walk`'s net ids are the connectivity of the hierarchy                                               — C16

Connectivity of a hierarchy with whole-signal connections is the equivalence closure of one kind of edge: the
port `p` of the child instantiated by `i` at path `π` *is* the signal `s` that `i` connects to it
(`(π ++ [i], p) ~ (π, s)`).  Every net has exactly one *root* — a signal of the top module, an internal signal of
some instance, or a port its instantiator left unconnected — and `walk` labels each leaf terminal with the root
of the net it is attached to.  So two terminals get one id iff they are connected.
-/
import Hdl21Model.Flatten
namespace Hdl21.Flatten

variable (mods : Nat → Option FMod) (top : FMod)

/-- `m` is the module found along instance path `π` below `top` -/
inductive At : List Name → FMod → Prop
  | root : At [] top
  | step {π : List Name} {m : FMod} {i : FInst} {idx : Nat} {child : FMod} :
      At π m → i ∈ m.insts → i.target = .mod idx → mods idx = some child → At (π ++ [i.name]) child

/-- the generating edges: a child's port is the net its parent connects to it -/
inductive Edge : NetId → NetId → Prop
  | bind {π : List Name} {m : FMod} {i : FInst} {idx : Nat} {child : FMod} {p s : Name} :
      At mods top π m → i ∈ m.insts → i.target = .mod idx → mods idx = some child → (p, s) ∈ i.conns →
      Edge (π ++ [i.name], p) (π, s)

/-- electrical connectivity between nets of the hierarchy -/
inductive Connected : NetId → NetId → Prop
  | refl (a : NetId) : Connected a a
  | edge {a b : NetId} : Edge mods top a b → Connected a b
  | symm {a b : NetId} : Connected a b → Connected b a
  | trans {a b c : NetId} : Connected a b → Connected b c → Connected a c

/-- `r` is the root of net `(π, s)` -/
inductive Root : NetId → NetId → Prop
  | top {s : Name} : Root ([], s) ([], s)
  | own {π : List Name} {m : FMod} {i : FInst} {idx : Nat} {child : FMod} {s : Name} :
      -- a signal of the child that its instantiator does not bind: internal, or a port left unconnected
      At mods top π m → i ∈ m.insts → i.target = .mod idx → mods idx = some child →
      (∀ s', (s, s') ∉ i.conns) → Root (π ++ [i.name], s) (π ++ [i.name], s)
  | port {π : List Name} {m : FMod} {i : FInst} {idx : Nat} {child : FMod} {p s : Name} {r : NetId} :
      At mods top π m → i ∈ m.insts → i.target = .mod idx → mods idx = some child → (p, s) ∈ i.conns →
      Root (π, s) r → Root (π ++ [i.name], p) r

/-- what the theorems need of the hierarchy: instance names are unique within a module, an instance binds each
    port at most once.  (Both hold of every elaborated Hdl21 module: namespaces and `conns` are dicts.) -/
structure WFH : Prop where
  instNames : ∀ idx m, mods idx = some m → (m.insts.map (·.name)).Nodup
  topNames : (top.insts.map (·.name)).Nodup
  connKeys : ∀ idx m, mods idx = some m → ∀ i ∈ m.insts, (i.conns.map (·.1)).Nodup
  topConnKeys : ∀ i ∈ top.insts, (i.conns.map (·.1)).Nodup

end Hdl21.Flatten

namespace Hdl21.Flatten
variable {mods : Nat → Option FMod} {top : FMod}

theorem at_origin {π : List Name} {m : FMod} (h : At mods top π m) : m = top ∨ ∃ idx, mods idx = some m := by
  cases h with
  | root => exact Or.inl rfl
  | step _ _ _ hm => exact Or.inr ⟨_, hm⟩

theorem at_names (wf : WFH mods top) {π : List Name} {m : FMod} (h : At mods top π m) :
    (m.insts.map (·.name)).Nodup ∧ ∀ i ∈ m.insts, (i.conns.map (·.1)).Nodup := by
  rcases at_origin h with rfl | ⟨idx, hm⟩
  · exact ⟨wf.topNames, wf.topConnKeys⟩
  · exact ⟨wf.instNames idx m hm, wf.connKeys idx m hm⟩

theorem inst_of_name {l : List FInst} (hn : (l.map (·.name)).Nodup) {i j : FInst} (hi : i ∈ l) (hj : j ∈ l)
    (h : i.name = j.name) : i = j := by
  induction l with
  | nil => cases hi
  | cons a r ih =>
    simp only [List.map_cons, List.nodup_cons] at hn
    rcases List.mem_cons.mp hi with rfl | hi'
    · rcases List.mem_cons.mp hj with rfl | hj'
      · rfl
      · exact absurd (List.mem_map.mpr ⟨j, hj', h.symm⟩) hn.1
    · rcases List.mem_cons.mp hj with rfl | hj'
      · exact absurd (List.mem_map.mpr ⟨i, hi', h⟩) hn.1
      · exact ih hn.2 hi' hj'

theorem conn_unique {l : List (Name × Name)} (hn : (l.map (·.1)).Nodup) {p s s' : Name}
    (h : (p, s) ∈ l) (h' : (p, s') ∈ l) : s = s' := by
  induction l with
  | nil => cases h
  | cons a r ih =>
    simp only [List.map_cons, List.nodup_cons] at hn
    rcases List.mem_cons.mp h with rfl | h1
    · rcases List.mem_cons.mp h' with e | h2
      · exact (Prod.mk.inj e).2.symm ▸ rfl
      · exact absurd (List.mem_map.mpr ⟨(p, s'), h2, rfl⟩) hn.1
    · rcases List.mem_cons.mp h' with rfl | h2
      · exact absurd (List.mem_map.mpr ⟨(p, s), h1, rfl⟩) hn.1
      · exact ih hn.2 h1 h2

theorem snoc_inj {α : Type} {a b : List α} {x y : α} (h : a ++ [x] = b ++ [y]) : a = b ∧ x = y := by
  have := List.append_inj' h rfl
  exact ⟨this.1, by simpa using this.2⟩

theorem at_functional (wf : WFH mods top) : ∀ {π : List Name} {m m' : FMod}, At mods top π m → At mods top π m' → m = m' := by
  intro π m m' h
  induction h generalizing m' with
  | root =>
    intro h'
    generalize hπ : ([] : List Name) = ρ at h'
    cases h' with
    | root => rfl
    | step _ _ _ _ => simp at hπ
  | @step π₁ m₁ i idx child h₁ hi ht hm ih =>
    intro h'
    generalize hπ : π₁ ++ [i.name] = ρ at h'
    cases h' with
    | root => simp at hπ
    | @step π₂ m₂ i₂ idx₂ child₂ h₂ hi₂ ht₂ hm₂ =>
      obtain ⟨e1, e2⟩ := snoc_inj hπ
      subst e1
      have := ih h₂
      subst this
      have hii := inst_of_name (at_names wf h₁).1 hi hi₂ e2
      subst hii
      rw [ht] at ht₂
      injection ht₂ with e
      subst e
      rw [hm] at hm₂
      injection hm₂

theorem root_functional (wf : WFH mods top) : ∀ {a r r' : NetId}, Root mods top a r → Root mods top a r' → r = r' := by
  intro a r r' h
  induction h generalizing r' with
  | @top s₀ =>
    intro h'
    generalize ha : (([], s₀) : NetId) = a at h'
    cases h' with
    | top => first | rfl | exact ha
    | own _ _ _ _ _ => injection ha with e _; simp at e
    | port _ _ _ _ _ _ => injection ha with e _; simp at e
  | @own π m i idx child s hat hi ht hm hno =>
    intro h'
    generalize ha : ((π ++ [i.name], s) : NetId) = a at h'
    cases h' with
    | top => injection ha with e _; simp at e
    | own _ _ _ _ _ => first | rfl | exact ha
    | @port π₂ m₂ i₂ idx₂ child₂ p₂ s₂ r₂ hat₂ hi₂ ht₂ hm₂ hc₂ hr₂ =>
      injection ha with e1 e2
      obtain ⟨e3, e4⟩ := snoc_inj e1
      subst e3; subst e2
      have := at_functional wf hat hat₂
      subst this
      have := inst_of_name (at_names wf hat).1 hi hi₂ e4
      subst this
      exact absurd hc₂ (hno s₂)
  | @port π m i idx child p s r hat hi ht hm hc hr ih =>
    intro h'
    generalize ha : ((π ++ [i.name], p) : NetId) = a at h'
    cases h' with
    | top => injection ha with e _; simp at e
    | @own π₂ m₂ i₂ idx₂ child₂ s₂ hat₂ hi₂ ht₂ hm₂ hno₂ =>
      injection ha with e1 e2
      obtain ⟨e3, e4⟩ := snoc_inj e1
      subst e3; subst e2
      have := at_functional wf hat hat₂
      subst this
      have := inst_of_name (at_names wf hat).1 hi hi₂ e4
      subst this
      exact absurd hc (hno₂ s)
    | @port π₂ m₂ i₂ idx₂ child₂ p₂ s₂ r₂ hat₂ hi₂ ht₂ hm₂ hc₂ hr₂ =>
      injection ha with e1 e2
      obtain ⟨e3, e4⟩ := snoc_inj e1
      subst e3; subst e2
      have := at_functional wf hat hat₂
      subst this
      have := inst_of_name (at_names wf hat).1 hi hi₂ e4
      subst this
      have := conn_unique ((at_names wf hat).2 i hi) hc hc₂
      subst this
      exact ih hr₂

theorem root_connected : ∀ {a r : NetId}, Root mods top a r → Connected mods top a r := by
  intro a r h
  induction h with
  | top => exact .refl _
  | own _ _ _ _ _ => exact .refl _
  | port hat hi ht hm hc _ ih => exact .trans (.edge (.bind hat hi ht hm hc)) ih

theorem edge_root (wf : WFH mods top) {a b r : NetId} (he : Edge mods top a b) :
    Root mods top a r ↔ Root mods top b r := by
  cases he with
  | @bind π m i idx child p s hat hi ht hm hc =>
    constructor
    · intro hr
      have hp : Root mods top (π ++ [i.name], p) r → Root mods top (π, s) r := by
        intro hr
        generalize ha : ((π ++ [i.name], p) : NetId) = a at hr
        cases hr with
        | top => injection ha with e _; simp at e
        | @own π₂ m₂ i₂ idx₂ child₂ s₂ hat₂ hi₂ ht₂ hm₂ hno₂ =>
          injection ha with e1 e2
          obtain ⟨e3, e4⟩ := snoc_inj e1
          subst e3; subst e2
          have := at_functional wf hat hat₂
          subst this
          have := inst_of_name (at_names wf hat).1 hi hi₂ e4
          subst this
          exact absurd hc (hno₂ s)
        | @port π₂ m₂ i₂ idx₂ child₂ p₂ s₂ r₂ hat₂ hi₂ ht₂ hm₂ hc₂ hr₂ =>
          injection ha with e1 e2
          obtain ⟨e3, e4⟩ := snoc_inj e1
          subst e3; subst e2
          have := at_functional wf hat hat₂
          subst this
          have := inst_of_name (at_names wf hat).1 hi hi₂ e4
          subst this
          have := conn_unique ((at_names wf hat).2 i hi) hc hc₂
          subst this
          exact hr₂
      exact hp hr
    · intro hr
      exact .port hat hi ht hm hc hr

theorem connected_root (wf : WFH mods top) : ∀ {a b : NetId}, Connected mods top a b →
    ∀ r, Root mods top a r ↔ Root mods top b r := by
  intro a b h
  induction h with
  | refl _ => intro r; exact Iff.rfl
  | edge he => intro r; exact edge_root wf he
  | symm _ ih => intro r; exact (ih r).symm
  | trans _ _ ih1 ih2 => intro r; exact (ih1 r).trans (ih2 r)

/-- Two nets are connected iff they have the same root. -/
theorem connected_iff_same_root (wf : WFH mods top) {a b ra rb : NetId}
    (ha : Root mods top a ra) (hb : Root mods top b rb) : Connected mods top a b ↔ ra = rb := by
  constructor
  · intro h
    exact root_functional wf ((connected_root wf h ra).mp ha) hb
  · intro e
    subst e
    exact .trans (root_connected ha) (.symm (root_connected hb))

end Hdl21.Flatten

namespace Hdl21.Flatten
variable {mods : Nat → Option FMod} {top : FMod}

theorem envGet_some {env : Env} {k : Name} {id : NetId} (h : envGet env k = some id) : (k, id) ∈ env := by
  unfold envGet at h
  cases hf : env.find? (·.1 == k) with
  | none => simp [hf] at h
  | some e =>
    simp only [hf, Option.map_some] at h
    injection h with h
    have hk := List.find?_some hf
    have hm := List.mem_of_find?_eq_some hf
    simp only [beq_iff_eq] at hk
    obtain ⟨a, b⟩ := e
    simp only at hk h
    subst hk; subst h
    exact hm

theorem envGet_none {env : Env} {k : Name} (h : envGet env k = none) : ∀ id, (k, id) ∉ env := by
  unfold envGet at h
  cases hf : env.find? (·.1 == k) with
  | some e => simp [hf] at h
  | none =>
    intro id hm
    have := List.find?_eq_none.mp hf (k, id) hm
    simp at this

theorem bindConns_spec {m : FMod} {π : List Name} {env : Env} : ∀ {l : List (Name × Name)} {nc : List (Name × NetId)},
    bindConns m π env l = some nc →
      (∀ p id, (p, id) ∈ nc → ∃ s, (p, s) ∈ l ∧ bindKey m π env s = some id) ∧
      (∀ p s, (p, s) ∈ l → ∃ id, (p, id) ∈ nc)
  | [], nc, h => by
    simp only [bindConns] at h; injection h with h; subst h
    exact ⟨(fun p id hm => by cases hm), (fun p s hm => by cases hm)⟩
  | (q, key) :: rest, nc, h => by
    simp only [bindConns] at h
    split at h
    · rename_i id r hb hr
      injection h with h; subst h
      obtain ⟨h1, h2⟩ := bindConns_spec hr
      refine ⟨?_, ?_⟩
      · intro p id' hm
        rcases List.mem_cons.mp hm with e | hm'
        · injection e with e1 e2; subst e1; subst e2
          exact ⟨key, List.mem_cons_self .., hb⟩
        · obtain ⟨s, hs, hbs⟩ := h1 p id' hm'
          exact ⟨s, List.mem_cons_of_mem _ hs, hbs⟩
      · intro p s hm
        rcases List.mem_cons.mp hm with e | hm'
        · injection e with e1 e2; subst e1
          exact ⟨id, List.mem_cons_self ..⟩
        · obtain ⟨id', hid⟩ := h2 p s hm'
          exact ⟨id', List.mem_cons_of_mem _ hid⟩
    · cases h

/-- what `walk` knows at a module: every bound name maps to the root of its net, every other name is its own root -/
def EnvOK (mods : Nat → Option FMod) (top : FMod) (π : List Name) (env : Env) : Prop :=
  (∀ key id, envGet env key = some id → Root mods top (π, key) id) ∧
  (∀ key, envGet env key = none → Root mods top (π, key) (π, key))

theorem bindKey_root {m : FMod} {π : List Name} {env : Env} (hok : EnvOK mods top π env) {key : Name} {id : NetId}
    (h : bindKey m π env key = some id) : Root mods top (π, key) id := by
  unfold bindKey at h
  cases hg : envGet env key with
  | some id' => simp only [hg] at h; injection h with h; subst h; exact hok.1 key id' hg
  | none =>
    simp only [hg] at h
    split at h
    · injection h with h; subst h; exact hok.2 key hg
    · cases h

theorem envOK_top : EnvOK mods top [] (top.signals.map (fun s => (s, (([], s) : NetId))) ++ top.ports.map (fun s => (s, (([], s) : NetId)))) := by
  refine ⟨?_, fun key _ => .top⟩
  intro key id h
  have hm := envGet_some h
  rcases List.mem_append.mp hm with hm | hm <;>
  · obtain ⟨s, _, e⟩ := List.mem_map.mp hm
    injection e with e1 e2
    subst e1; subst e2
    exact .top

/-- the environment handed to a child instance -/
theorem envOK_child {π : List Name} {m : FMod} {env : Env} {i : FInst} {idx : Nat} {child : FMod} {nc : Env}
    (hat : At mods top π m) (hi : i ∈ m.insts) (ht : i.target = .mod idx) (hm : mods idx = some child)
    (hok : EnvOK mods top π env) (hb : bindConns m π env i.conns = some nc) :
    EnvOK mods top (π ++ [i.name]) nc := by
  obtain ⟨h1, h2⟩ := bindConns_spec hb
  refine ⟨?_, ?_⟩
  · intro key id hg
    obtain ⟨s, hs, hbs⟩ := h1 key id (envGet_some hg)
    exact .port hat hi ht hm hs (bindKey_root hok hbs)
  · intro key hg
    refine .own hat hi ht hm ?_
    intro s' hs'
    obtain ⟨id, hid⟩ := h2 key s' hs'
    exact envGet_none hg id hid

/-- every leaf terminal `walk` yields is labelled with the root of the net the leaf's instantiator connects to it -/
def Labelled (mods : Nat → Option FMod) (top : FMod) (n : FNode) : Prop :=
  ∃ (π : List Name) (m : FMod) (i : FInst) (k : String), At mods top π m ∧ i ∈ m.insts ∧ i.target = .leaf k ∧
    n.path = π ++ [i.name] ∧
    (∀ p id, (p, id) ∈ n.conns → ∃ s, (p, s) ∈ i.conns ∧ Root mods top (π, s) id) ∧
    (∀ p s, (p, s) ∈ i.conns → ∃ id, (p, id) ∈ n.conns)

theorem walkList_all {f : FInst → Option (List FNode)} {P : FNode → Prop} :
    ∀ {insts : List FInst} {nodes : List FNode}, walkList f insts = some nodes →
      (∀ i ∈ insts, ∀ a, f i = some a → ∀ n ∈ a, P n) → ∀ n ∈ nodes, P n
  | [], nodes, h, _ => by simp only [walkList] at h; injection h with h; subst h; intro n hn; cases hn
  | i :: rest, nodes, h, hf => by
    simp only [walkList] at h
    split at h
    · rename_i a b ha hb
      injection h with h; subst h
      intro n hn
      rcases List.mem_append.mp hn with hn | hn
      · exact hf i (List.mem_cons_self ..) a ha n hn
      · exact walkList_all hb (fun j hj => hf j (List.mem_cons_of_mem _ hj)) n hn
    · cases h

theorem walk_labels (mods : Nat → Option FMod) (top : FMod) : ∀ (fuel : Nat) (m : FMod) (π : List Name) (env : Env) (nodes : List FNode),
    At mods top π m → EnvOK mods top π env → walk mods fuel m π env = some nodes → ∀ n ∈ nodes, Labelled mods top n
  | 0, _, _, _, _, _, _, h => by simp [walk] at h
  | fuel + 1, m, π, env, nodes, hat, hok, h => by
    simp only [walk] at h
    apply walkList_all (P := Labelled mods top) h
    intro i hi a ha n hn
    unfold walkInst at ha
    cases hb : bindConns m π env i.conns with
    | none => simp [hb] at ha
    | some nc =>
      simp only [hb] at ha
      cases ht : i.target with
      | leaf k =>
        simp only [ht] at ha
        injection ha with ha; subst ha
        simp only [List.mem_singleton] at hn; subst hn
        obtain ⟨h1, h2⟩ := bindConns_spec hb
        refine ⟨π, m, i, k, hat, hi, ht, rfl, ?_, ?_⟩
        · intro p id hm
          obtain ⟨s, hs, hbs⟩ := h1 p id hm
          exact ⟨s, hs, bindKey_root hok hbs⟩
        · exact h2
      | mod idx =>
        simp only [ht] at ha
        cases hm : mods idx with
        | none => simp [hm] at ha
        | some child =>
          simp only [hm] at ha
          exact walk_labels mods top fuel child (π ++ [i.name]) nc a (.step hat hi ht hm) (envOK_child hat hi ht hm hok hb) ha n hn

end Hdl21.Flatten
