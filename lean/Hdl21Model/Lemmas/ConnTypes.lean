/-
# ConnTypes.check_instance passes exactly on instances with every port connected once, nothing else, widths equal
-/
import Hdl21Model.ConnTypes
namespace Hdl21.ConnTypes
open Hdl21

theorem pop_spec (k : String) : ∀ (l : List (String × SConn)), (l.map (·.1)).Nodup →
    (match (pop k l).1 with
     | none => k ∉ l.map (·.1)
     | some c => (k, c) ∈ l) ∧
    ((pop k l).2.map (·.1)).Nodup ∧ k ∉ (pop k l).2.map (·.1) ∧
    ∀ x, x ∈ (pop k l).2 ↔ (x ∈ l ∧ x.1 ≠ k)
  | [], _ => by simp [pop]
  | (a, c) :: rest, hnd => by
    simp only [List.map_cons, List.nodup_cons] at hnd
    unfold pop
    by_cases hak : a = k
    · subst hak
      simp only [↓reduceIte]
      refine ⟨List.mem_cons_self .., hnd.2, hnd.1, ?_⟩
      intro x
      constructor
      · intro hx
        refine ⟨List.mem_cons_of_mem _ hx, ?_⟩
        intro e
        exact hnd.1 (e ▸ List.mem_map.mpr ⟨x, hx, rfl⟩)
      · rintro ⟨hx, hne⟩
        rcases List.mem_cons.mp hx with rfl | hx
        · exact absurd rfl hne
        · exact hx
    · simp only [hak, ↓reduceIte]
      obtain ⟨h1, h2, h3, h4⟩ := pop_spec k rest hnd.2
      refine ⟨?_, ?_, ?_, ?_⟩
      · cases hp : (pop k rest).1 with
        | none =>
          simp only [hp] at h1 ⊢
          simp only [List.map_cons, List.mem_cons, not_or]
          exact ⟨fun e => hak e.symm, h1⟩
        | some c' =>
          simp only [hp] at h1 ⊢
          exact List.mem_cons_of_mem _ h1
      · simp only [List.map_cons, List.nodup_cons]
        refine ⟨?_, h2⟩
        intro hin
        obtain ⟨x, hx, hxa⟩ := List.mem_map.mp hin
        exact hnd.1 (hxa ▸ List.mem_map.mpr ⟨x, ((h4 x).mp hx).1, rfl⟩)
      · simp only [List.map_cons, List.mem_cons, not_or]
        exact ⟨fun e => hak e.symm, h3⟩
      · intro x
        simp only [List.mem_cons]
        constructor
        · rintro (rfl | hx)
          · exact ⟨Or.inl rfl, hak⟩
          · exact ⟨Or.inr ((h4 x).mp hx).1, ((h4 x).mp hx).2⟩
        · rintro ⟨rfl | hx, hne⟩
          · exact Or.inl rfl
          · exact Or.inr ((h4 x).mpr ⟨hx, hne⟩)

theorem unique_conn : ∀ (l : List (String × SConn)) (k : String) (c c' : SConn), (l.map (·.1)).Nodup →
    (k, c) ∈ l → (k, c') ∈ l → c' = c
  | [], _, _, _, _, h, _ => by cases h
  | x :: rest, k, c, c', hnd, h1, h2 => by
    simp only [List.map_cons, List.nodup_cons] at hnd
    rcases List.mem_cons.mp h1 with e1 | e1 <;> rcases List.mem_cons.mp h2 with e2 | e2
    · have := e2.trans e1.symm; injection this
    · exact absurd (List.mem_map.mpr ⟨(k, c'), e2, rfl⟩) (by rw [← e1] at hnd; exact hnd.1)
    · exact absurd (List.mem_map.mpr ⟨(k, c), e1, rfl⟩) (by rw [← e2] at hnd; exact hnd.1)
    · exact unique_conn rest k c c' hnd.2 e1 e2

theorem compatible_valid (w : Nat) (c : SConn) : compatible w c = .valid ↔ c.width = .ok w := by
  unfold compatible
  cases h : c.width with
  | error e => simp
  | ok w' =>
    simp only
    by_cases hw : w' = w
    · simp [hw]
    · simp [hw]

/-- **`check_instance` returns iff every port of the target is connected, to something of the port's width, and nothing else
    is connected.** -/
theorem passes_iff : ∀ (io : List (String × Nat)) (conns : List (String × SConn)),
    (io.map (·.1)).Nodup → (conns.map (·.1)).Nodup →
    (passes io conns = true ↔
      (∀ pw ∈ io, ∃ c, (pw.1, c) ∈ conns ∧ c.width = .ok pw.2) ∧ (∀ kc ∈ conns, kc.1 ∈ io.map (·.1)))
  | [], conns, _, _ => by
    unfold passes checkPorts
    constructor
    · intro h
      refine ⟨fun _ hp => (by cases hp), ?_⟩
      intro kc hkc
      rw [List.all_eq_true] at h
      have := h (kc.1, Status.noPort) (List.mem_map.mpr ⟨kc, hkc, rfl⟩)
      simp at this
    · rintro ⟨_, h2⟩
      cases conns with
      | nil => rfl
      | cons kc rest => have := h2 kc (List.mem_cons_self ..); simp at this
  | (p, w) :: io, conns, hio, hc => by
    simp only [List.map_cons, List.nodup_cons] at hio
    obtain ⟨h1, h2, h3, h4⟩ := pop_spec p conns hc
    have ih := passes_iff io (pop p conns).2 hio.2 h2
    unfold passes at ih ⊢
    unfold checkPorts
    cases hp : (pop p conns).1 with
    | none =>
      simp only [hp] at h1
      have : pop p conns = (none, (pop p conns).2) := by rw [← hp]
      rw [this]
      simp only [List.all_cons]
      constructor
      · intro h; simp at h
      · rintro ⟨hall, _⟩
        obtain ⟨c, hcm, _⟩ := hall (p, w) (List.mem_cons_self ..)
        exact absurd (List.mem_map.mpr ⟨(p, c), hcm, rfl⟩) h1
    | some c =>
      simp only [hp] at h1
      have : pop p conns = (some c, (pop p conns).2) := by rw [← hp]
      rw [this]
      simp only [List.all_cons, Bool.and_eq_true, beq_iff_eq, compatible_valid]
      rw [ih]
      constructor
      · rintro ⟨hw, hall, hex⟩
        refine ⟨?_, ?_⟩
        · intro pw hpw
          rcases List.mem_cons.mp hpw with rfl | hpw
          · exact ⟨c, h1, hw⟩
          · obtain ⟨c', hc', hw'⟩ := hall pw hpw
            exact ⟨c', ((h4 _).mp hc').1, hw'⟩
        · intro kc hkc
          by_cases hk : kc.1 = p
          · simp [hk]
          · exact List.mem_cons_of_mem _ (hex kc ((h4 kc).mpr ⟨hkc, hk⟩))
      · rintro ⟨hall, hex⟩
        refine ⟨?_, ?_, ?_⟩
        · obtain ⟨c', hc', hw'⟩ := hall (p, w) (List.mem_cons_self ..)
          -- the connection of `p` is unique
          have : c' = c := unique_conn conns p c c' hc h1 hc'
          rw [← this]; exact hw'
        · intro pw hpw
          obtain ⟨c', hc', hw'⟩ := hall pw (List.mem_cons_of_mem _ hpw)
          have hne : pw.1 ≠ p := fun e => hio.1 (e ▸ List.mem_map.mpr ⟨pw, hpw, rfl⟩)
          exact ⟨c', (h4 _).mpr ⟨hc', hne⟩, hw'⟩
        · intro kc hkc
          have := hex kc ((h4 kc).mp hkc).1
          rcases List.mem_cons.mp this with e | e
          · exact absurd e ((h4 kc).mp hkc).2
          · exact e

end Hdl21.ConnTypes
