import Hdl21Model.Runner
namespace Hdl21.Runner

variable {S : Type}

/-- The `done` set of pass `k` is closed under instantiation: a module is only done once its children are. -/
def DoneClosed (sys : Sys S) (k : Nat) (st : RState S) : Prop :=
  ∀ m, st.done k m = true → ∀ c ∈ sys.children m, st.done k c = true

/-- How the persistent state may change during visits of pass `k`. -/
structure Rel (sys : Sys S) (k : Nat) (st st' : RState S) : Prop where
  closed : DoneClosed sys k st → DoneClosed sys k st'
  done_mono : ∀ j x, st.done j x = true → st'.done j x = true
  done_other : ∀ j x, j ≠ k → st'.done j x = st.done j x
  failed_mono : ∀ x, st.failed x = true → st'.failed x = true
  /-- a newly failed module is not done for this pass -/
  new_failed : ∀ x, st'.failed x = true → st.failed x = false → st'.done k x = false
  /-- done entries are only ever added for modules that are not failed -/
  new_done : ∀ x, st'.done k x = true → st.done k x = false → st'.failed x = false
  /-- failed modules are left alone -/
  failed_frozen : ∀ x, st.failed x = true → st'.σ x = st.σ x ∧ ∀ j, st'.done j x = st.done j x
  /-- modules already done for this pass are not rewritten by it again -/
  done_frozen : ∀ x, st.done k x = true → st'.σ x = st.σ x

theorem Rel.refl (sys : Sys S) (k : Nat) (st : RState S) : Rel sys k st st :=
  ⟨id, fun _ _ h => h, fun _ _ _ => rfl, fun _ h => h,
   fun x a b => (by rw [a] at b; cases b), fun x a b => (by rw [a] at b; cases b),
   fun _ _ => ⟨rfl, fun _ => rfl⟩, fun _ _ => rfl⟩

theorem Rel.trans {sys : Sys S} {k : Nat} {a b c : RState S}
    (h1 : Rel sys k a b) (h2 : Rel sys k b c) : Rel sys k a c := by
  refine ⟨fun h => h2.closed (h1.closed h), fun j x h => h2.done_mono j x (h1.done_mono j x h),
    fun j x hj => (by rw [h2.done_other j x hj, h1.done_other j x hj]),
    fun x h => h2.failed_mono x (h1.failed_mono x h), ?_, ?_, ?_, ?_⟩
  · intro x hc ha
    cases hb : b.failed x with
    | false => exact h2.new_failed x hc hb
    | true =>
      have := h1.new_failed x hb ha
      have fr := (h2.failed_frozen x hb).2 k
      rw [fr]; exact this
  · intro x hc ha
    cases hb : b.done k x with
    | false => exact h2.new_done x hc hb
    | true =>
      have nf := h1.new_done x hb ha
      cases hcf : c.failed x with
      | false => rfl
      | true =>
        have := h2.new_failed x hcf nf
        rw [this] at hc; cases hc
  · intro x ha
    have hb := h1.failed_mono x ha
    obtain ⟨s1, d1⟩ := h1.failed_frozen x ha
    obtain ⟨s2, d2⟩ := h2.failed_frozen x hb
    exact ⟨(by rw [s2, s1]), fun j => (by rw [d2 j, d1 j])⟩
  · intro x ha
    rw [h2.done_frozen x (h1.done_mono k x ha), h1.done_frozen x ha]

/-- The traversal over a module's children. -/
def foldVisit (sys : Sys S) (k fuel : Nat) (cs : List Nat) (acc : RState S × Bool) : RState S × Bool :=
  cs.foldl (fun (acc : RState S × Bool) c => if acc.2 then visit sys k fuel acc.1 c else acc) acc

theorem foldVisit_false (sys : Sys S) (k fuel : Nat) (cs : List Nat) (st : RState S) :
    foldVisit sys k fuel cs (st, false) = (st, false) := by
  induction cs with
  | nil => rfl
  | cons c cs ih => unfold foldVisit at *; simp [List.foldl_cons, ih]

theorem foldVisit_cons (sys : Sys S) (k fuel : Nat) (c : Nat) (cs : List Nat) (st : RState S) :
    foldVisit sys k fuel (c :: cs) (st, true) = foldVisit sys k fuel cs (visit sys k fuel st c) := by
  unfold foldVisit; simp [List.foldl_cons]

/-- Modules numbered `b` and above are untouched. -/
def Above (b : Nat) (st st' : RState S) : Prop :=
  ∀ x, b ≤ x → st'.σ x = st.σ x ∧ (∀ j, st'.done j x = st.done j x) ∧ st'.failed x = st.failed x

theorem Above.refl (b : Nat) (st : RState S) : Above b st st := fun _ _ => ⟨rfl, fun _ => rfl, rfl⟩

theorem Above.trans {b : Nat} {a c d : RState S} (h1 : Above b a c) (h2 : Above b c d) : Above b a d := by
  intro x hx
  obtain ⟨s1, d1, f1⟩ := h1 x hx
  obtain ⟨s2, d2, f2⟩ := h2 x hx
  exact ⟨by rw [s2, s1], fun j => by rw [d2 j, d1 j], by rw [f2, f1]⟩

theorem Above.mono {b b' : Nat} {a c : RState S} (h : Above b a c) (hb : b ≤ b') : Above b' a c :=
  fun x hx => h x (Nat.le_trans hb hx)

/-- A visit of `m` only touches `m` and modules below it (children have smaller numbers). -/
theorem visit_above (sys : Sys S) (hdag : ∀ m c, c ∈ sys.children m → c < m) (k : Nat) :
    ∀ fuel st m, Above (m + 1) st (visit sys k fuel st m).1
  | 0, st, m => by rw [visit]; exact Above.refl _ st
  | fuel + 1, st, m => by
    rw [visit]
    split
    · exact Above.refl _ st
    · split
      · exact Above.refl _ st
      · have fold : ∀ (cs : List Nat) (a : RState S) (b : Bool), (∀ c ∈ cs, c < m) →
            Above m a (foldVisit sys k fuel cs (a, b)).1 := by
          intro cs
          induction cs with
          | nil => intro a b _; exact Above.refl _ a
          | cons c cs ih =>
            intro a b hcs
            cases b with
            | false => rw [foldVisit_false]; exact Above.refl _ a
            | true =>
              rw [foldVisit_cons]
              have h1 := (visit_above sys hdag k fuel a c).mono (Nat.succ_le_of_lt (hcs c (by simp)))
              cases hv : visit sys k fuel a c with
              | mk a1 b1 =>
                rw [hv] at h1
                exact h1.trans (ih a1 b1 (fun x hx => hcs x (by simp [hx])))
        have hf := fold (sys.children m) st true (fun c hc => hdag m c hc)
        have hfold : (List.foldl (fun (acc : RState S × Bool) c => if acc.2 then visit sys k fuel acc.1 c else acc) (st, true) (sys.children m))
            = foldVisit sys k fuel (sys.children m) (st, true) := rfl
        simp only [hfold]
        generalize foldVisit sys k fuel (sys.children m) (st, true) = r at *
        obtain ⟨r1, b1⟩ := r
        simp only [] at hf ⊢
        cases b1 with
        | false => simp only [Bool.not_false, if_true]; exact hf.mono (Nat.le_succ m)
        | true =>
          simp only [Bool.not_true, Bool.false_eq_true, if_false]
          cases sys.apply k r1.σ m with
          | none =>
            simp only []
            intro x hx
            obtain ⟨s1, d1, f1⟩ := hf x (by omega)
            exact ⟨s1, d1, by simp only []; rw [if_neg (by omega)]; exact f1⟩
          | some s =>
            simp only []
            intro x hx
            obtain ⟨s1, d1, f1⟩ := hf x (by omega)
            refine ⟨by simp only []; rw [if_neg (by omega)]; exact s1, fun j => ?_, f1⟩
            simp only []; rw [if_neg (by omega)]; exact d1 j

/-- What a visit establishes when it completes. -/
structure VisitOk (k : Nat) (st' : RState S) (m : Nat) : Prop where
  done : st'.done k m = true
  notfailed : st'.failed m = false

theorem visit_spec (sys : Sys S) (hdag : ∀ m c, c ∈ sys.children m → c < m) (k : Nat) : ∀ fuel st m,
    Rel sys k st (visit sys k fuel st m).1 ∧ ((visit sys k fuel st m).2 = true → VisitOk k (visit sys k fuel st m).1 m)
  | 0, st, m => by rw [visit]; exact ⟨Rel.refl sys k st, fun h => by cases h⟩
  | fuel + 1, st, m => by
    rw [visit]
    split
    · exact ⟨Rel.refl sys k st, fun h => by cases h⟩
    · rename_i hnf
      split
      · rename_i hd
        exact ⟨Rel.refl sys k st, fun _ => ⟨hd, by simpa using hnf⟩⟩
      · rename_i hnd
        -- the fold over the children
        have fold : ∀ (cs : List Nat) (a : RState S), 
            Rel sys k a (foldVisit sys k fuel cs (a, true)).1 ∧
            ((foldVisit sys k fuel cs (a, true)).2 = true → ∀ c ∈ cs, (foldVisit sys k fuel cs (a, true)).1.done k c = true) := by
          intro cs
          induction cs with
          | nil => intro a; exact ⟨Rel.refl sys k a, fun _ c hc => by cases hc⟩
          | cons c cs ih =>
            intro a
            rw [foldVisit_cons]
            obtain ⟨r1, ok1⟩ := visit_spec sys hdag k fuel a c
            cases hv : visit sys k fuel a c with
            | mk a1 b1 =>
              rw [hv] at r1 ok1
              cases b1 with
              | false =>
                rw [foldVisit_false]
                exact ⟨r1, fun h => by cases h⟩
              | true =>
                obtain ⟨r2, ok2⟩ := ih a1
                refine ⟨r1.trans r2, fun h x hx => ?_⟩
                rcases List.mem_cons.1 hx with rfl | hx
                · exact r2.done_mono k _ (ok1 rfl).done
                · exact ok2 h x hx
        obtain ⟨rf, okf⟩ := fold (sys.children m) st
        have hfold : (List.foldl (fun (acc : RState S × Bool) c => if acc.2 then visit sys k fuel acc.1 c else acc) (st, true) (sys.children m))
            = foldVisit sys k fuel (sys.children m) (st, true) := rfl
        simp only [hfold]
        generalize hr : foldVisit sys k fuel (sys.children m) (st, true) = r at *
        obtain ⟨r1, b1⟩ := r
        simp only [] at rf okf ⊢
        cases b1 with
        | false => simp only [Bool.not_false, if_true]; exact ⟨rf, fun h => by cases h⟩
        | true =>
          simp only [Bool.not_true, Bool.false_eq_true, if_false]
          -- `m` itself was not touched while its children were visited
          have habove : Above m st r1 := by
            have fold2 : ∀ (cs : List Nat) (a : RState S) (b : Bool), (∀ c ∈ cs, c < m) →
                Above m a (foldVisit sys k fuel cs (a, b)).1 := by
              intro cs
              induction cs with
              | nil => intro a b _; exact Above.refl _ a
              | cons c cs ih =>
                intro a b hcs
                cases b with
                | false => rw [foldVisit_false]; exact Above.refl _ a
                | true =>
                  rw [foldVisit_cons]
                  have h1 := (visit_above sys hdag k fuel a c).mono (Nat.succ_le_of_lt (hcs c (by simp)))
                  cases hv : visit sys k fuel a c with
                  | mk a1 b1 =>
                    rw [hv] at h1
                    exact h1.trans (ih a1 b1 (fun x hx => hcs x (by simp [hx])))
            have := fold2 (sys.children m) st true (fun c hc => hdag m c hc)
            rw [hr] at this; exact this
          obtain ⟨hσm, hdm, hfm⟩ := habove m (Nat.le_refl m)
          have hm_nf : r1.failed m = false := by rw [hfm]; simpa using hnf
          have hm_nd : r1.done k m = false := by rw [hdm k]; simpa using hnd
          cases happ : sys.apply k r1.σ m with
          | some s =>
            simp only []
            refine ⟨rf.trans ?_, fun _ => ⟨by simp, hm_nf⟩⟩
            refine ⟨?_, ?_, ?_, fun x h => h, ?_, ?_, ?_, ?_⟩
            · intro hc x hx c hcx
              simp only [] at hx ⊢
              by_cases hxm : x = m
              · subst hxm
                have := okf rfl c hcx
                by_cases hcm : c = x
                · simp [hcm]
                · simp [this]
              · have hx' : r1.done k x = true := by simpa [hxm] using hx
                have := hc x hx' c hcx
                by_cases hcm : c = m <;> simp [hcm, this]
            · intro j x h; simp only []; split <;> simp_all
            · intro j x hj; simp only []; rw [if_neg (by intro h; exact hj h.1)]
            · intro x hc ha; simp only [] at hc; rw [ha] at hc; cases hc
            · intro x hc ha
              simp only [] at hc ⊢
              by_cases hxm : x = m
              · subst hxm; exact hm_nf
              · have : r1.done k x = true := by simpa [hxm] using hc
                rw [this] at ha; cases ha
            · intro x ha
              simp only []
              have hxm : x ≠ m := by intro h; subst h; rw [hm_nf] at ha; cases ha
              exact ⟨by rw [if_neg hxm], fun j => by rw [if_neg (by intro h; exact hxm h.2)]⟩
            · intro x ha
              simp only []
              have hxm : x ≠ m := by intro h; subst h; rw [hm_nd] at ha; cases ha
              rw [if_neg hxm]
          | none =>
            simp only []
            refine ⟨rf.trans ?_, fun h => by cases h⟩
            refine ⟨?_, fun j x h => h, fun j x _ => rfl, ?_, ?_, ?_, ?_, fun x _ => rfl⟩
            · intro hc; exact hc
            · intro x h; simp only []; split <;> simp_all
            · intro x hc ha
              simp only [] at hc ⊢
              by_cases hxm : x = m
              · subst hxm; exact hm_nd
              · rw [if_neg hxm] at hc; rw [hc] at ha; cases ha
            · intro x hc ha
              simp only [] at hc ⊢
              by_cases hxm : x = m
              · subst hxm; rw [hm_nd] at hc; cases hc
              · rw [hc] at ha; cases ha
            · intro x ha
              exact ⟨rfl, fun j => rfl⟩

end Hdl21.Runner
