/-
# Nested generator calls: what every call leaves behind (lemmas for C08 / C09)
-/
import Hdl21Model.GenRun
namespace Hdl21.GenRun

theorem lookup_cons_ne {c c' : Call} {m : Mod} {l : List (Call × Mod)} (h : c' ≠ c) :
    lookup c ((c', m) :: l) = lookup c l := by
  simp [lookup, h]

mutual
/-- Frame: a call — returning, failing, circular, with failures caught or not anywhere below it — leaves the pending set
    and the call stack exactly as it found them. -/
theorem runEv_frame (s : Cache) : ∀ e : Ev, (runEv s e).1.pending = s.pending ∧ (runEv s e).1.stack = s.stack
  | .call c nested catches out => by
    unfold runEv
    cases lookup c s.done with
    | some m => exact ⟨rfl, rfl⟩
    | none =>
      simp only
      split
      · exact ⟨rfl, rfl⟩
      · have ih := runBody_frame { s with pending := c :: s.pending, stack := c :: s.stack } catches nested
        simp only at ih
        split
        · simp [ih.1, ih.2]
        · cases out <;> simp [ih.1, ih.2]
theorem runBody_frame (s : Cache) (catches : Bool) :
    ∀ es : List Ev, (runBody s catches es).1.pending = s.pending ∧ (runBody s catches es).1.stack = s.stack
  | [] => by simp [runBody]
  | e :: r => by
    unfold runBody
    have h1 := runEv_frame s e
    have h2 := runBody_frame (runEv s e).1 catches r
    simp only
    split
    · exact ⟨h2.1.trans h1.1, h2.2.trans h1.2⟩
    · split
      · exact ⟨h2.1.trans h1.1, h2.2.trans h1.2⟩
      · exact h1
    · split
      · exact ⟨h2.1.trans h1.1, h2.2.trans h1.2⟩
      · exact h1
end

/-- what propagates out of a body is a failure, never a module -/
theorem runBody_some (s : Cache) (catches : Bool) : ∀ (es : List Ev) (f : Result),
    (runBody s catches es).2 = some f → f = .circular ∨ f = .failed
  | [], f => by simp [runBody]
  | e :: r, f => by
    unfold runBody
    simp only
    split
    · exact runBody_some _ catches r f
    · split
      · exact runBody_some _ catches r f
      · intro h; simp at h; exact Or.inl h.symm
    · split
      · exact runBody_some _ catches r f
      · intro h; simp at h; exact Or.inr h.symm

mutual
/-- While a call is pending nothing is cached for it. -/
theorem runEv_pending_done (s : Cache) (x : Call) (hx : x ∈ s.pending) :
    ∀ e : Ev, lookup x (runEv s e).1.done = lookup x s.done
  | .call c nested catches out => by
    unfold runEv
    cases hl : lookup c s.done with
    | some m => rfl
    | none =>
      simp only
      split
      · rfl
      · rename_i hc
        have hne : c ≠ x := fun h => hc (h ▸ hx)
        have ih := runBody_pending_done { s with pending := c :: s.pending, stack := c :: s.stack } x
          (List.mem_cons_of_mem _ hx) catches nested
        simp only at ih
        split
        · simpa using ih
        · cases out with
          | raises => simpa using ih
          | ok m => simp only; rw [lookup_cons_ne hne]; exact ih
theorem runBody_pending_done (s : Cache) (x : Call) (hx : x ∈ s.pending) (catches : Bool) :
    ∀ es : List Ev, lookup x (runBody s catches es).1.done = lookup x s.done
  | [] => by simp [runBody]
  | e :: r => by
    unfold runBody
    have h1 := runEv_pending_done s x hx e
    have hp : x ∈ (runEv s e).1.pending := by rw [(runEv_frame s e).1]; exact hx
    have h2 := runBody_pending_done (runEv s e).1 x hp catches r
    simp only
    split
    · exact h2.trans h1
    · split
      · exact h2.trans h1
      · exact h1
    · split
      · exact h2.trans h1
      · exact h1
end

mutual
/-- What is cached stays cached, for good, with the same module. -/
theorem runEv_done_mono (s : Cache) (x : Call) (m : Mod) (hx : lookup x s.done = some m) :
    ∀ e : Ev, lookup x (runEv s e).1.done = some m
  | .call c nested catches out => by
    unfold runEv
    cases hl : lookup c s.done with
    | some m' => exact hx
    | none =>
      simp only
      split
      · exact hx
      · have hne : c ≠ x := fun h => by rw [h, hx] at hl; cases hl
        have ih := runBody_done_mono { s with pending := c :: s.pending, stack := c :: s.stack } x m hx catches nested
        split
        · simpa using ih
        · cases out with
          | raises => simpa using ih
          | ok m' => simp only; rw [lookup_cons_ne hne]; exact ih
theorem runBody_done_mono (s : Cache) (x : Call) (m : Mod) (hx : lookup x s.done = some m) (catches : Bool) :
    ∀ es : List Ev, lookup x (runBody s catches es).1.done = some m
  | [] => by simpa [runBody] using hx
  | e :: r => by
    unfold runBody
    have h1 := runEv_done_mono s x m hx e
    have h2 := runBody_done_mono (runEv s e).1 x m h1 catches r
    simp only
    split
    · exact h2
    · split
      · exact h2
      · exact h1
    · split
      · exact h2
      · exact h1
end

theorem cyc_mono_anc {a b : List Call} (hab : ∀ x, x ∈ a → x ∈ b) : ∀ e : Ev, cyc a e = true → cyc b e = true := by
  intro e
  -- by recursion on the event tree, through the mutual pair below
  exact (cyc_mono_aux e a b hab)
where
  cyc_mono_aux : ∀ (e : Ev) (a b : List Call), (∀ x, x ∈ a → x ∈ b) → cyc a e = true → cyc b e = true
    | .call c nested _ _, a, b, hab => by
      unfold cyc
      simp only [Bool.or_eq_true, decide_eq_true_eq]
      rintro (h | h)
      · exact Or.inl (hab c h)
      · refine Or.inr (cycL_mono_aux nested (c :: a) (c :: b) ?_ h)
        intro x hx
        rcases List.mem_cons.mp hx with h1 | h1
        · exact h1 ▸ List.mem_cons_self ..
        · exact List.mem_cons_of_mem _ (hab x h1)
  cycL_mono_aux : ∀ (es : List Ev) (a b : List Call), (∀ x, x ∈ a → x ∈ b) → cycL a es = true → cycL b es = true
    | [], _, _, _ => by simp [cycL]
    | e :: r, a, b, hab => by
      unfold cycL
      simp only [Bool.or_eq_true]
      rintro (h | h)
      · exact Or.inl (cyc_mono_aux e a b hab h)
      · exact Or.inr (cycL_mono_aux r a b hab h)

mutual
/-- "circular dependency" is only ever reported for a call made from inside a call with the same key. -/
theorem runEv_circular (s : Cache) : ∀ e : Ev, (runEv s e).2 = .circular → cyc s.pending e = true
  | .call c nested catches out => by
    unfold runEv cyc
    cases hl : lookup c s.done with
    | some m => simp
    | none =>
      simp only
      split
      · rename_i hc; intro _; simp [hc]
      · have ih := runBody_circular { s with pending := c :: s.pending, stack := c :: s.stack } catches nested
        simp only at ih
        split
        · rename_i f hf
          intro h
          simp only at h
          subst h
          simp [ih hf]
        · cases out <;> simp
theorem runBody_circular (s : Cache) (catches : Bool) :
    ∀ es : List Ev, (runBody s catches es).2 = some .circular → cycL s.pending es = true
  | [] => by simp [runBody]
  | e :: r => by
    unfold runBody cycL
    have h1 := runEv_circular s e
    have h2 := runBody_circular (runEv s e).1 catches r
    rw [(runEv_frame s e).1] at h2
    simp only
    split
    · intro h; simp [h2 h]
    · rename_i hq
      split
      · intro h; simp [h2 h]
      · intro _; simp [h1 hq]
    · split
      · intro h; simp [h2 h]
      · intro h; simp at h
end

end Hdl21.GenRun
