/-
# Lemmas for C06's module-level theorem: exported targets are well-formed; an exported instance has no problems
-/
import Hdl21Model.ExportWF
import Hdl21Model.Lemmas.Export
import Hdl21Model.Lemmas.Conn
import Hdl21Model.Props.C03
namespace Hdl21.ExportWF
open Hdl21 Hdl21.Pkg Hdl21.RoundTrip

theorem dups_nil_of_nodup : ∀ (l : List String), l.Nodup → dups l = []
  | [], _ => rfl
  | x :: xs, h => by
    rw [List.nodup_cons] at h
    unfold dups
    have : xs.contains x = false := by simpa using h.1
    rw [this]
    simpa using dups_nil_of_nodup xs h.2

mutual
theorem targetProblems_nil (ws : List (String × Nat)) : ∀ t, wfTarget ws t = true → targetProblems ws t = []
  | .sig n, h => by
    rw [wfTarget] at h; rw [targetProblems]; simp [h]
  | .slice n top bot, h => by
    rw [wfTarget] at h; rw [targetProblems]
    cases hl : lookup n ws with
    | none => simp [hl] at h
    | some w =>
      simp only [hl, Bool.and_eq_true, decide_eq_true_eq] at h
      simp [h.1, h.2]
  | .concat ps, h => by
    rw [wfTarget] at h; rw [targetProblems]; exact partsProblems_nil ws ps h
theorem partsProblems_nil (ws : List (String × Nat)) : ∀ ps, wfParts ws ps = true → partsProblems ws ps = []
  | [], _ => by rw [partsProblems]
  | p :: rest, h => by
    rw [wfParts, Bool.and_eq_true] at h
    rw [partsProblems, targetProblems_nil ws p h.1, partsProblems_nil ws rest h.2]; rfl
end

theorem wfParts_append (ws : List (String × Nat)) : ∀ (a b : List PTarget), wfParts ws (a ++ b) = (wfParts ws a && wfParts ws b)
  | [], b => by simp [wfParts]
  | x :: a, b => by simp [wfParts, wfParts_append ws a b, Bool.and_assoc]

mutual
/-- whatever the exporter writes for a connectable over declared signals is a well-formed target -/
theorem export_wfTarget (ws : List (String × Nat)) : ∀ (c : SConn) (t : PTarget), sigsOK ws c = true → exportTarget c = .ok t →
    wfTarget ws t = true
  | .sig n w, t, hok, he => by
    rw [exportTarget] at he; injection he with he; subst he
    rw [sigsOK] at hok
    rw [wfTarget]
    have : lookup n ws = some w := by simpa using hok
    simp [this]
  | .slice (.sig n w) idx, t, hok, he => by
    obtain ⟨top, bot, rfl, h1, h2⟩ := Props.C03.exported_bits_in_range n w idx t he
    rw [sigsOK, sigsOK] at hok
    have : lookup n ws = some w := by simpa using hok
    rw [wfTarget]
    simp [this, h1, h2]
  | .slice (.slice _ _) _, t, _, he => by rw [exportTarget] at he; cases he
  | .slice (.concat _) _, t, _, he => by rw [exportTarget] at he; cases he
  | .concat ps, t, hok, he => by
    rw [exportTarget] at he
    simp only [bind, Except.bind] at he
    cases hp : exportParts ps with
    | error e => simp [hp] at he
    | ok ts =>
      simp only [hp] at he
      injection he with he; subst he
      rw [sigsOK] at hok
      rw [wfTarget]
      exact export_wfParts ws ps ts hok hp
theorem export_wfParts (ws : List (String × Nat)) : ∀ (ps : List SConn) (ts : List PTarget), sigsOKList ws ps = true →
    exportParts ps = .ok ts → wfParts ws ts = true
  | [], ts, _, he => by rw [exportParts] at he; injection he with he; subst he; rfl
  | p :: ps, ts, hok, he => by
    rw [sigsOKList, Bool.and_eq_true] at hok
    rw [exportParts] at he
    simp only [bind, Except.bind] at he
    cases hp : exportTarget p with
    | error e => simp [hp] at he
    | ok t =>
      cases hps : exportParts ps with
      | error e => simp [hp, hps] at he
      | ok ts' =>
        simp only [hp, hps] at he
        injection he with he; subst he
        rw [wfParts_append, export_wfParts ws ps ts' hok.2 hps]
        simp [wfParts, export_wfTarget ws p t hok.1 hp]
end


theorem lookup_some_mem : ∀ (l : List (String × Nat)) (k : String) (w : Nat), lookup k l = some w → k ∈ l.map (·.1)
  | [], _, _, h => by simp [lookup] at h
  | (a, b) :: rest, k, w, h => by
    unfold lookup at h
    by_cases hk : a = k
    · simp [hk]
    · rw [if_neg hk] at h
      exact List.mem_cons_of_mem _ (lookup_some_mem rest k w h)

theorem lookup_of_mem_nodup : ∀ (l : List (String × Nat)) (k : String) (w : Nat), (k, w) ∈ l → (lookup k l).isSome = true
  | [], _, _, h => by cases h
  | (a, b) :: rest, k, w, h => by
    unfold lookup
    by_cases hk : a = k
    · simp [hk]
    · rw [if_neg hk]
      rcases List.mem_cons.mp h with h | h
      · injection h with h1 _; exact absurd h1.symm hk
      · exact lookup_of_mem_nodup rest k w h

theorem conn_export (ws : List (String × Nat)) (w : Nat) (c : SConn) (h : connOK ws w c = true) :
    ∃ t, exportTarget c = .ok t ∧ targetProblems ws t = [] ∧ (readTarget ws t).length = w := by
  unfold connOK at h
  simp only [Bool.and_eq_true] at h
  obtain ⟨⟨hok, he⟩, hw⟩ := h
  cases het : exportTarget c with
  | error e => simp [het] at he
  | ok t =>
    cases hwt : c.width with
    | error e => simp [hwt] at hw
    | ok w' =>
      simp only [hwt, beq_iff_eq] at hw
      subst hw
      obtain ⟨bs, hd, hl⟩ := width_denote c w' hwt
      refine ⟨t, rfl, targetProblems_nil ws t (export_wfTarget ws c t hok het), ?_⟩
      rw [export_read ws c t bs hok het hd]
      simp [hl]

theorem conns_export (ws : List (String × Nat)) (ports : List (String × Nat)) :
    ∀ cs : List (String × SConn),
      (cs.all fun pc => match lookup pc.1 ports with | some w => connOK ws w pc.2 | none => false) = true →
      ∃ ts, exportConns cs = .ok ts ∧ ts.map (·.1) = cs.map (·.1) ∧
        ∀ pt ∈ ts, ∃ w, lookup pt.1 ports = some w ∧ targetProblems ws pt.2 = [] ∧ (readTarget ws pt.2).length = w
  | [], _ => ⟨[], rfl, rfl, fun _ h => by cases h⟩
  | (pn, c) :: rest, h => by
    simp only [List.all_cons, Bool.and_eq_true] at h
    obtain ⟨h1, h2⟩ := h
    obtain ⟨ts, e1, e2, e3⟩ := conns_export ws ports rest h2
    cases hl : lookup pn ports with
    | none => simp [hl] at h1
    | some w =>
      simp only [hl] at h1
      obtain ⟨t, ht, hp, hlen⟩ := conn_export ws w c h1
      refine ⟨(pn, t) :: ts, ?_, by simp [e2], ?_⟩
      · simp [exportConns, ht, e1]
      · intro pt hpt
        rcases List.mem_cons.mp hpt with rfl | hpt
        · exact ⟨w, hl, hp, hlen⟩
        · exact e3 pt hpt

/-- one exported instance has no problems -/
theorem inst_no_problems (pkg : Package) (earlier : List PModule) (m : PModule) (pi : PInst) (ports : List (String × Nat))
    (hctx : targetPorts pkg earlier pi.ref = some ports)
    (hnd : (pi.conns.map (·.1)).Nodup)
    (hall : ∀ pt ∈ pi.conns, ∃ w, lookup pt.1 ports = some w ∧ targetProblems m.signals pt.2 = [] ∧ (readTarget m.signals pt.2).length = w)
    (hcov : (ports.all fun pw => (pi.conns.map (·.1)).contains pw.1) = true) :
    instProblems pkg earlier m pi = [] := by
  unfold instProblems
  rw [hctx]
  simp only
  have h1 : dups (pi.conns.map (·.1)) = [] := dups_nil_of_nodup _ hnd
  have h2 : (pi.conns.map (·.1)).filter (fun n => !(ports.map (·.1)).contains n) = [] := by
    rw [List.filter_eq_nil_iff]
    intro n hn
    obtain ⟨pt, hpt, rfl⟩ := List.mem_map.mp hn
    obtain ⟨w, hl, _, _⟩ := hall pt hpt
    have := lookup_some_mem ports pt.1 w hl
    simp [this]
  have h3 : (ports.map (·.1)).filter (fun n => !(pi.conns.map (·.1)).contains n) = [] := by
    rw [List.filter_eq_nil_iff]
    intro n hn
    obtain ⟨pw, hpw, rfl⟩ := List.mem_map.mp hn
    rw [List.all_eq_true] at hcov
    have := hcov pw hpw
    show ¬ ((!(pi.conns.map (·.1)).contains pw.1) = true)
    rw [this]; simp
  rw [h1, h2, h3]
  simp only [List.map_nil, List.nil_append]
  rw [List.flatMap_eq_nil_iff]
  intro pt hpt
  obtain ⟨w, hl, hp, hlen⟩ := hall pt hpt
  obtain ⟨a, b⟩ := pt
  simp only at hl hp hlen
  simp [hp, hl, hlen]


theorem exportPorts_names : ∀ (l : List HSig) (q : List (String × String)), exportPorts l = .ok q → q.map (·.1) = l.map (·.name)
  | [], q, h => by simp [exportPorts] at h; subst h; rfl
  | s :: rest, q, h => by
    unfold exportPorts at h
    cases hd : s.dir.bind (lookupS · exportDirMap) with
    | none => simp [hd] at h
    | some d =>
      cases hr : exportPorts rest with
      | error e => simp [hd, hr] at h
      | ok r =>
        simp only [hd, hr] at h
        injection h with h; subst h
        simp [exportPorts_names rest r hr]

theorem exportPorts_ok : ∀ (l : List HSig), (l.all fun s => (s.dir.bind (lookupS · exportDirMap)).isSome) = true → ∃ q, exportPorts l = .ok q
  | [], _ => ⟨[], rfl⟩
  | s :: rest, h => by
    simp only [List.all_cons, Bool.and_eq_true] at h
    obtain ⟨q, hq⟩ := exportPorts_ok rest h.2
    cases hd : s.dir.bind (lookupS · exportDirMap) with
    | none => simp [hd] at h
    | some d => exact ⟨(s.name, d) :: q, by simp [exportPorts, hd, hq]⟩

theorem lookup_isSome_of_name_mem : ∀ (l : List (String × Nat)) (k : String), k ∈ l.map (·.1) → (lookup k l).isSome = true
  | [], _, h => by cases h
  | (a, b) :: rest, k, h => by
    unfold lookup
    by_cases hk : a = k
    · simp [hk]
    · rw [if_neg hk]
      simp only [List.map_cons, List.mem_cons] at h
      rcases h with h | h
      · exact absurd h.symm hk
      · exact lookup_isSome_of_name_mem rest k h

theorem insts_export (ctx : PRef → Option (List (String × Nat))) (ws : List (String × Nat)) :
    ∀ is : List HInst, (is.all (instOK ctx ws)) = true →
      ∃ ps, exportInsts is = .ok ps ∧ ps.map (·.name) = is.map (·.name) ∧
        ∀ pi ∈ ps, ∃ ports, ctx pi.ref = some ports ∧ (pi.conns.map (·.1)).Nodup ∧
          (∀ pt ∈ pi.conns, ∃ w, lookup pt.1 ports = some w ∧ targetProblems ws pt.2 = [] ∧ (readTarget ws pt.2).length = w) ∧
          (ports.all fun pw => (pi.conns.map (·.1)).contains pw.1) = true
  | [], _ => ⟨[], rfl, rfl, fun _ h => by cases h⟩
  | i :: rest, h => by
    simp only [List.all_cons, Bool.and_eq_true] at h
    obtain ⟨hi, hr⟩ := h
    obtain ⟨ps, e1, e2, e3⟩ := insts_export ctx ws rest hr
    unfold instOK at hi
    cases hc : ctx i.ref with
    | none => simp [hc] at hi
    | some ports =>
      simp only [hc, Bool.and_eq_true, decide_eq_true_eq] at hi
      obtain ⟨⟨hnd, hall⟩, hcov⟩ := hi
      obtain ⟨ts, t1, t2, t3⟩ := conns_export ws ports i.conns hall
      refine ⟨⟨i.name, i.ref, i.params, ts⟩ :: ps, ?_, by simp [e2], ?_⟩
      · rw [exportInsts]; simp only [t1, e1]
      · intro pi hpi
        rcases List.mem_cons.mp hpi with rfl | hpi
        · exact ⟨ports, hc, by rw [t2]; exact hnd, t3, by rw [t2]; exact hcov⟩
        · exact e3 pi hpi

/-! ## the place of the internal signals in the list does not matter -/

theorem lookup_append (k : String) : ∀ (a b : List (String × Nat)),
    lookup k (a ++ b) = match lookup k a with | some w => some w | none => lookup k b
  | [], b => rfl
  | (x, w) :: rest, b => by
    simp only [List.cons_append, lookup]
    by_cases hx : x = k
    · simp [hx]
    · simp only [if_neg hx]; exact lookup_append k rest b

theorem lookup_none_of_not_mem (k : String) : ∀ (a : List (String × Nat)), k ∉ a.map (·.1) → lookup k a = none
  | [], _ => rfl
  | (x, w) :: rest, h => by
    simp only [List.map_cons, List.mem_cons, not_or] at h
    simp only [lookup]
    rw [if_neg (fun e => h.1 e.symm)]
    exact lookup_none_of_not_mem k rest h.2

/-- Names unique across both halves: looking a name up finds the same width whichever half is written first. -/
theorem lookup_append_comm (a b : List (String × Nat)) (hnd : ((a ++ b).map (·.1)).Nodup) (k : String) :
    lookup k (a ++ b) = lookup k (b ++ a) := by
  rw [lookup_append, lookup_append]
  rw [List.map_append] at hnd
  have hdis := (List.nodup_append.mp hnd).2.2
  cases ha : lookup k a with
  | none => cases lookup k b <;> rfl
  | some w =>
    have hka : k ∈ a.map (·.1) := by
      false_or_by_contra
      rename_i hc
      rw [lookup_none_of_not_mem k a hc] at ha
      cases ha
    have hkb : k ∉ b.map (·.1) := fun hb => hdis k hka k hb rfl
    rw [lookup_none_of_not_mem k b hkb]

mutual
theorem sigsOK_congr (ws ws' : List (String × Nat)) (h : ∀ k, lookup k ws = lookup k ws') :
    ∀ c : SConn, sigsOK ws c = sigsOK ws' c
  | .sig n w => by simp only [sigsOK, h]
  | .slice p _ => by simp only [sigsOK]; exact sigsOK_congr ws ws' h p
  | .concat ps => by simp only [sigsOK]; exact sigsOKList_congr ws ws' h ps
theorem sigsOKList_congr (ws ws' : List (String × Nat)) (h : ∀ k, lookup k ws = lookup k ws') :
    ∀ ps : List SConn, sigsOKList ws ps = sigsOKList ws' ps
  | [] => by simp only [sigsOKList]
  | p :: ps => by simp only [sigsOKList]; rw [sigsOK_congr ws ws' h p, sigsOKList_congr ws ws' h ps]
end

theorem instOK_congr (ctx : PRef → Option (List (String × Nat))) (ws ws' : List (String × Nat))
    (h : ∀ k, lookup k ws = lookup k ws') (i : HInst) : instOK ctx ws i = instOK ctx ws' i := by
  have hc : ∀ w c, connOK ws w c = connOK ws' w c := by
    intro w c; unfold connOK; rw [sigsOK_congr ws ws' h c]
  unfold instOK
  simp only [hc]

theorem sigList_lookup_comm (hm : HModule) (hnd : ((hm.signals ++ hm.ports).map (·.name)).Nodup) (k : String) :
    lookup k (sigList hm) = lookup k (sigListPF hm) := by
  unfold sigList sigListPF
  rw [List.map_append, List.map_append]
  apply lookup_append_comm
  rw [← List.map_append, List.map_map]
  exact hnd

end Hdl21.ExportWF
