/-
# The SliceResolver always answers                                                                      — C03 (and C01, C02, C06)

`resolve_sound` / `resolve_flat` / `resolve_keeps` say that whatever `_resolve_sliceable` returns is right.  This file proves that
it *does* return: for every connectable that has a denotation (every index in range, every slice non-empty, at every depth) and
contains no empty concatenation, the resolver — given the fuel `needR c`, a number computed from the expression — answers.
The fuel argument of the model is thereby discharged: `needR` bounds the depth of the Python recursion.
-/
import Hdl21Model.Lemmas.Resolve
namespace Hdl21

theorem noEmptyList_mem : ∀ (ps : List SConn), noEmptyList ps = true → ∀ p ∈ ps, p.noEmpty = true
  | [], _, p, hp => by cases hp
  | x :: xs, h, p, hp => by
    rw [noEmptyList] at h
    simp only [Bool.and_eq_true] at h
    rcases List.mem_cons.mp hp with rfl | hp
    · exact h.1
    · exact noEmptyList_mem xs h.2 p hp

mutual
/-- a connectable with a denotation has the width of that many bits -/
theorem denote_width : (c : SConn) → ∀ bs, c.denote = .ok bs → c.width = .ok bs.length
  | .sig n w, bs, h => by
    rw [denote_sig] at h; injection h with h; subst h
    rw [width_sig, allBits_length]
  | .slice p idx, bs, h => by
    obtain ⟨pbs, inner, hpd, hi, hpick⟩ := slice_denote_inv h
    rw [width_slice, denote_width p pbs hpd]
    simp only [hi]
    rw [pick_length pbs inner.bits bs hpick, bits_eq_arith, arith_length]
  | .concat ps, bs, h => by
    rw [denote_concat] at h
    rw [width_concat]; exact denoteList_width ps bs h
theorem denoteList_width : (ps : List SConn) → ∀ bs, denoteList ps = .ok bs → widthList ps = .ok bs.length
  | [], bs, h => by
    rw [denoteList_nil] at h; injection h with h; subst h
    rw [widthList_nil]; rfl
  | p :: ps, bs, h => by
    rw [denoteList_cons] at h
    cases hp : p.denote with
    | error e => simp [hp] at h
    | ok a =>
      simp only [hp] at h
      cases hps : denoteList ps with
      | error e => simp [hps] at h
      | ok b =>
        simp only [hps] at h
        injection h with h; subst h
        rw [widthList_cons, denote_width p a hp, denoteList_width ps b hps]
        simp
end

theorem wd_of_denote {c : SConn} {bs : List Bit} (h : c.denote = .ok bs) : c.wd = bs.length := by
  unfold SConn.wd; rw [denote_width c bs h]

theorem needP_pos : ∀ (ps : List SConn), 1 ≤ needP ps
  | [] => by rw [needP]; omega
  | p :: ps => by rw [needP]; omega

theorem needR_pos : (c : SConn) → 1 ≤ needR c
  | .sig _ _ => by rw [needR]; omega
  | .slice p idx => by rw [needR]; have := needR_pos p; omega
  | .concat ps => by rw [needR]; omega

theorem needR_mem : ∀ (ps : List SConn) (p : SConn), p ∈ ps → needR p + 1 ≤ needP ps
  | [], p, hp => by cases hp
  | x :: xs, p, hp => by
    rw [needP]
    rcases List.mem_cons.mp hp with rfl | hp
    · have := needP_pos xs; omega
    · have := needR_mem xs p hp; omega

/-- a bit inside a concatenation lies in one of its parts -/
theorem findPart_total : ∀ (ps : List SConn) (idx k : Nat) (bs : List Bit), denoteList ps = .ok bs → idx ≤ k → k - idx < bs.length →
    ∃ part off, findPart ps idx k = .ok (part, off)
  | [], idx, k, bs, hd, _, hk => by
    rw [denoteList_nil] at hd; injection hd with hd; subst hd; simp at hk
  | p :: ps, idx, k, bs, hd, hle, hk => by
    rw [denoteList_cons] at hd
    cases hp : p.denote with
    | error e => simp [hp] at hd
    | ok a =>
      simp only [hp] at hd
      cases hps : denoteList ps with
      | error e => simp [hps] at hd
      | ok b =>
        simp only [hps] at hd
        injection hd with hd; subst hd
        rw [findPart]
        simp only [bind, Except.bind, denote_width p a hp]
        by_cases hlt : a.length + idx > k
        · exact ⟨p, k - idx, by simp [hlt]⟩
        · simp only [hlt, if_false]
          refine findPart_total ps (idx + a.length) k b hps (by omega) ?_
          simp at hk; omega

/-- with `fuel`, every call whose need is within it answers -/
def ResolveTotal (fuel : Nat) : Prop :=
  (∀ parent idx bs, (SConn.slice parent idx).denote = .ok bs → parent.noEmpty = true → needR parent + 2 * bs.length ≤ fuel + 1 →
      ∃ ls, listSlice fuel parent idx = .ok ls) ∧
  (∀ parent inner pbs bs, parent.denote = .ok pbs → InnerWF pbs.length inner → 2 ≤ inner.width → pick pbs inner.bits = .ok bs →
      parent.noEmpty = true → needR parent + 2 * bs.length ≤ fuel + 2 → ∃ ls, consSlice fuel parent inner = .ok ls) ∧
  (∀ c bs, c.denote = .ok bs → c.noEmpty = true → needR c ≤ fuel → ∃ r, resolveSliceable fuel c = .ok r) ∧
  (∀ ps bs, denoteList ps = .ok bs → noEmptyList ps = true → needP ps ≤ fuel → ∃ rs, resolveParts fuel ps = .ok rs)

theorem slice_bits_pos {p : SConn} {idx : Index} {bs : List Bit} (h : (SConn.slice p idx).denote = .ok bs) : 1 ≤ bs.length := by
  obtain ⟨pbs, inner, _, hi, hpick⟩ := slice_denote_inv h
  have wf := sliceInner_wf pbs.length idx inner hi
  rw [pick_length pbs inner.bits bs hpick, bits_eq_arith, arith_length]
  have := wf.n_pos; omega

theorem resolve_total_aux : ∀ fuel, ResolveTotal fuel
  | 0 => by
    refine ⟨?_, ?_, ?_, ?_⟩
    · intro parent idx bs hd _ hn
      have := needR_pos parent; have := slice_bits_pos hd; omega
    · intro parent inner pbs bs _ wf h2 hpick _ hn
      have hl : bs.length = inner.width.toNat := by rw [pick_length pbs inner.bits bs hpick, bits_eq_arith, arith_length]
      have := needR_pos parent; omega
    · intro c bs _ _ hn; have := needR_pos c; omega
    · intro ps bs _ _ hn; have := needP_pos ps; omega
  | fuel + 1 => by
    obtain ⟨ihL, ihC, ihR, ihP⟩ := resolve_total_aux fuel
    refine ⟨?_, ?_, ?_, ?_⟩
    · -- listSlice
      intro parent idx bs hd hne hn
      obtain ⟨pbs, inner0, hpd, hi0, hpick⟩ := slice_denote_inv hd
      have hw := denote_width parent pbs hpd
      have wf := sliceInner_wf pbs.length idx inner0 hi0
      have hbl : bs.length = inner0.width.toNat := by rw [pick_length pbs inner0.bits bs hpick, bits_eq_arith, arith_length]
      have hb1 := slice_bits_pos hd
      rw [listSlice]
      simp only [bind, Except.bind, hw, hi0]
      by_cases hfull : inner0.step > 0 ∧ inner0.width.toNat = pbs.length
      · rw [if_pos hfull]
        obtain ⟨r, hr⟩ := ihR parent pbs hpd hne (by omega)
        exact ⟨[r], by rw [hr]⟩
      · rw [if_neg hfull]
        cases parent with
        | sig n w => exact ⟨_, rfl⟩
        | slice pp pidx =>
          simp only []
          by_cases h1 : inner0.width = 1
          · rw [if_pos h1]
            obtain ⟨ppbs, pin, hppd, hpin, hppick⟩ := slice_denote_inv hpd
            simp only [denote_width pp ppbs hppd, hpin]
            -- the one selected bit, and its position in the grand-parent (as in `resolve_sound`)
            rw [bits_width_one pbs.length inner0 wf h1] at hpick
            obtain ⟨b, r', hb0, hbget, hr', rfl⟩ := pick_cons_ok pbs inner0.bot [] bs hpick
            rw [pick_nil] at hr'; injection hr' with hr'; subst hr'
            have hjlt : inner0.bot.toNat < pbs.length := by
              rcases Nat.lt_or_ge inner0.bot.toNat pbs.length with hh | hh
              · exact hh
              · rw [List.getElem?_eq_none hh] at hbget; cases hbget
            have hplen : pbs.length = pin.bits.length := pick_length ppbs pin.bits pbs hppick
            have hpinlen : pin.bits.length = pin.width.toNat := by rw [bits_eq_arith, arith_length]
            have hkk := bits_getElem pin inner0.bot.toNat (by omega)
            have hcast : ((inner0.bot.toNat : Nat) : Int) = inner0.bot := by omega
            rw [hcast] at hkk
            obtain ⟨hk0, hget, _⟩ := pick_getElem ppbs pin.bits pbs hppick inner0.bot.toNat _ hkk
            rw [hbget] at hget
            have hsl := slice_int_denote pp ppbs (pin.bitAt inner0.bot) b hppd hk0 hget.symm
            have hne' : pp.noEmpty = true := by rw [SConn.noEmpty] at hne; exact hne
            have hwd : (SConn.slice pp pidx).wd = pbs.length := wd_of_denote hpd
            refine ihL pp _ [b] hsl hne' ?_
            rw [needR, hwd] at hn
            simp at hn ⊢; omega
          · rw [if_neg h1]
            have h2 : 2 ≤ inner0.width := by have := wf.n_pos; omega
            exact ihC (.slice pp pidx) inner0 pbs bs hpd wf h2 hpick hne (by omega)
        | concat parts =>
          simp only []
          by_cases h1 : inner0.width = 1
          · rw [if_pos h1]
            rw [bits_width_one pbs.length inner0 wf h1] at hpick
            obtain ⟨b, r', hb0, hbget, hr', rfl⟩ := pick_cons_ok pbs inner0.bot [] bs hpick
            rw [pick_nil] at hr'; injection hr' with hr'; subst hr'
            have hjlt : inner0.bot.toNat < pbs.length := by
              rcases Nat.lt_or_ge inner0.bot.toNat pbs.length with hh | hh
              · exact hh
              · rw [List.getElem?_eq_none hh] at hbget; cases hbget
            rw [denote_concat] at hpd
            obtain ⟨part, off, hf⟩ := findPart_total parts 0 inner0.bot.toNat pbs hpd (by omega) (by omega)
            simp only [hf]
            obtain ⟨pb, hpbd, hpg, hoff⟩ := findPart_sound parts 0 inner0.bot.toNat part off pbs hf (by omega) hpd
            rw [Nat.sub_zero, hbget] at hpg
            have hsl := slice_int_denote part pb (off : Int) b hpbd (by omega) (by simpa using hpg)
            have hmem := findPart_mem parts 0 inner0.bot.toNat part off hf
            have hne' : part.noEmpty = true := by
              rw [SConn.noEmpty] at hne
              simp only [Bool.and_eq_true] at hne
              exact noEmptyList_mem parts hne.2 part hmem
            refine ihL part _ [b] hsl hne' ?_
            have := needR_mem parts part hmem
            rw [needR] at hn
            simp at hn ⊢; omega
          · rw [if_neg h1]
            have h2 : 2 ≤ inner0.width := by have := wf.n_pos; omega
            exact ihC (.concat parts) inner0 pbs bs hpd wf h2 hpick hne (by omega)
    · -- consSlice
      intro parent inner pbs bs hpd wf h2 hpick hne hn
      rw [consSlice]
      obtain ⟨m, hm⟩ : ∃ m : Nat, inner.width = (m : Int) + 2 := ⟨(inner.width - 2).toNat, by omega⟩
      by_cases hneg : inner.step < 0
      · rw [if_pos hneg]
        simp only [bind, Except.bind]
        obtain ⟨s', hs', hbits, hk0, hk1⟩ := tail_neg pbs.length inner wf hneg m hm
        have hlen := pick_length pbs inner.bits bs hpick
        rw [bits_eq_arith, arith_length] at hlen
        rw [hbits] at hpick
        obtain ⟨b, r', _, hbget, hr', rfl⟩ := pick_cons_ok pbs (inner.top - 1) s'.bits bs hpick
        have hsl1 := slice_int_denote parent pbs _ b hpd hk0 hbget
        have hsl2 : (SConn.slice parent (.range (some (inner.top - 1 + inner.step))
            (if inner.bot > 0 then some (inner.bot - 1) else none) (some inner.step))).denote = .ok r' := by
          rw [denote_slice, hpd]; simp only [hs']; exact hr'
        simp only [List.length_cons] at hn hlen
        obtain ⟨first, hfirst⟩ := ihL parent _ [b] hsl1 hne (by simp; omega)
        obtain ⟨rest, hrest⟩ := ihL parent _ r' hsl2 hne (by omega)
        exact ⟨first ++ rest, by rw [hfirst, hrest]⟩
      · rw [if_neg hneg]
        have hpos : 0 < inner.step := by have := wf.step_ne; omega
        simp only [bind, Except.bind]
        obtain ⟨s', hs', hbits, hk0, hk1⟩ := tail_pos pbs.length inner wf hpos m hm
        have hlen := pick_length pbs inner.bits bs hpick
        rw [bits_eq_arith, arith_length] at hlen
        rw [hbits] at hpick
        obtain ⟨b, r', _, hbget, hr', rfl⟩ := pick_cons_ok pbs inner.bot s'.bits bs hpick
        have hsl1 := slice_int_denote parent pbs _ b hpd hk0 hbget
        have hsl2 : (SConn.slice parent (.range (some (inner.bot + inner.step)) (some inner.top) (some inner.step))).denote = .ok r' := by
          rw [denote_slice, hpd]; simp only [hs']; exact hr'
        simp only [List.length_cons] at hn hlen
        obtain ⟨first, hfirst⟩ := ihL parent _ [b] hsl1 hne (by simp; omega)
        obtain ⟨rest, hrest⟩ := ihL parent _ r' hsl2 hne (by omega)
        exact ⟨first ++ rest, by rw [hfirst, hrest]⟩
    · -- resolveSliceable
      intro c bs hd hne hn
      cases c with
      | sig n w => exact ⟨_, by rw [resolveSliceable]⟩
      | slice p idx =>
        rw [resolveSliceable]
        simp only [bind, Except.bind]
        have hne' : p.noEmpty = true := by rw [SConn.noEmpty] at hne; exact hne
        have hwd : (SConn.slice p idx).wd = bs.length := wd_of_denote hd
        obtain ⟨ls, hl⟩ := ihL p idx bs hd hne' (by rw [needR, hwd] at hn; omega)
        rw [hl]
        -- what came back denotes `bs`, which is not empty
        have hden := (resolve_sound fuel).1 p idx ls bs hl hd
        have hb1 := slice_bits_pos hd
        match ls, hden with
        | [], hden => rw [denoteList_nil] at hden; injection hden with hden; subst hden; simp at hb1
        | [x], _ => exact ⟨x, rfl⟩
        | x :: y :: rest, _ => exact ⟨_, rfl⟩
      | concat ps =>
        rw [resolveSliceable]
        rw [SConn.noEmpty] at hne
        simp only [Bool.and_eq_true, Bool.not_eq_true'] at hne
        rw [denote_concat] at hd
        obtain ⟨rs, hrs⟩ := ihP ps bs hd hne.2 (by rw [needR] at hn; omega)
        simp only [hne.1, bind, Except.bind, hrs]
        exact ⟨_, rfl⟩
    · -- resolveParts
      intro ps bs hd hne hn
      cases ps with
      | nil => exact ⟨[], by rw [resolveParts]⟩
      | cons p ps =>
        rw [resolveParts]
        rw [denoteList_cons] at hd
        cases hp : p.denote with
        | error e => simp [hp] at hd
        | ok a =>
          simp only [hp] at hd
          cases hps : denoteList ps with
          | error e => simp [hps] at hd
          | ok b =>
            rw [noEmptyList] at hne
            simp only [Bool.and_eq_true] at hne
            rw [needP] at hn
            obtain ⟨r, hr⟩ := ihR p a hp hne.1 (by omega)
            obtain ⟨rest, hrest⟩ := ihP ps b hps hne.2 (by omega)
            simp only [bind, Except.bind, hr, hrest]
            cases r with
            | concat rs => exact ⟨_, rfl⟩
            | sig n w => exact ⟨_, rfl⟩
            | slice q i => exact ⟨_, rfl⟩

/-! ### … and only for what has a denotation -/

/-- the first two lines of `_list_slice` already ask for the parent's width and the index inside it -/
theorem listSlice_ok_width {fuel : Nat} {parent : SConn} {idx : Index} {ls : List SConn} (h : listSlice fuel parent idx = .ok ls) :
    ∃ w, (SConn.slice parent idx).width = .ok w := by
  cases fuel with
  | zero => rw [listSlice] at h; cases h
  | succ fuel =>
    rw [listSlice] at h
    simp only [bind, Except.bind] at h
    cases hw : parent.width with
    | error e => simp [hw] at h
    | ok pw =>
      cases hi : sliceInner pw idx with
      | error e => simp [hw, hi] at h
      | ok inner => exact ⟨inner.width.toNat, by rw [width_slice, hw]; simp only [hi]⟩

def ResolveOnlyDenoting (fuel : Nat) : Prop :=
  (∀ c r, resolveSliceable fuel c = .ok r → ∃ w, c.width = .ok w) ∧
  (∀ ps rs, resolveParts fuel ps = .ok rs → ∃ w, widthList ps = .ok w)

theorem resolve_only_denoting : ∀ fuel, ResolveOnlyDenoting fuel
  | 0 => by
    refine ⟨?_, ?_⟩
    · intro c r h; rw [resolveSliceable] at h; cases h
    · intro ps rs h; rw [resolveParts] at h; cases h
  | fuel + 1 => by
    obtain ⟨ihR, ihP⟩ := resolve_only_denoting fuel
    refine ⟨?_, ?_⟩
    · intro c r h
      cases c with
      | sig n w => exact ⟨w, width_sig n w⟩
      | slice p idx =>
        rw [resolveSliceable] at h
        simp only [bind, Except.bind] at h
        cases hl : listSlice fuel p idx with
        | error e => simp [hl] at h
        | ok ls => exact listSlice_ok_width hl
      | concat ps =>
        rw [resolveSliceable] at h
        split at h
        · cases h
        · simp only [bind, Except.bind] at h
          cases hp : resolveParts fuel ps with
          | error e => simp [hp] at h
          | ok parts =>
            obtain ⟨w, hw⟩ := ihP ps parts hp
            exact ⟨w, by rw [width_concat]; exact hw⟩
    · intro ps rs h
      cases ps with
      | nil => exact ⟨0, widthList_nil⟩
      | cons p ps =>
        rw [resolveParts] at h
        simp only [bind, Except.bind] at h
        cases hr : resolveSliceable fuel p with
        | error e => simp [hr] at h
        | ok r =>
          cases hrest : resolveParts fuel ps with
          | error e => simp [hr, hrest] at h
          | ok rest =>
            obtain ⟨a, ha⟩ := ihR p r hr
            obtain ⟨b, hb⟩ := ihP ps rest hrest
            exact ⟨a + b, by rw [widthList_cons, ha, hb]⟩

end Hdl21
