import Std.Data.String.ToNat
import Mathlib.Data.List.Perm.Subperm
import Mathlib.Data.List.Nodup
import Hdl21Model.SimExport

namespace Hdl21.SimExport

theorem fmt_injective {a b : Nat} (h : fmt a = fmt b) : a = b := by
  unfold fmt at h
  have := congrArg String.toList h
  simp only [String.toList_append] at this
  exact Nat.repr_injective (String.toList_inj.mp (List.append_cancel_left this))

theorem next_spec (user : List String) : ∀ (fuel k j : Nat), next user fuel k = some j → k ≤ j ∧ fmt j ∉ user
  | 0, _, _, h => by simp [next] at h
  | fuel + 1, k, j, h => by
    simp only [next] at h
    split at h
    · have := next_spec user fuel (k + 1) j h
      exact ⟨by omega, this.2⟩
    · injection h with h; subst h; exact ⟨Nat.le_refl _, by assumption⟩

/-- if the search runs out of fuel, all of `fmt k … fmt (k+fuel-1)` are taken -/
theorem next_none (user : List String) : ∀ (fuel k : Nat), next user fuel k = none →
    ∀ i, i < fuel → fmt (k + i) ∈ user
  | 0, _, _, i, hi => by omega
  | fuel + 1, k, h, i, hi => by
    simp only [next] at h
    split at h
    · rename_i hk
      cases i with
      | zero => simpa using hk
      | succ i =>
        have := next_none user fuel (k + 1) h i (by omega)
        rwa [show k + 1 + i = k + (i + 1) by omega] at this
    · cases h

/-- `next_analysis_name` always finds a name: the designer can have used at most `user.length` of them. -/
theorem next_total (user : List String) (k : Nat) : ∃ j, next user (user.length + 1) k = some j := by
  cases h : next user (user.length + 1) k with
  | some j => exact ⟨j, rfl⟩
  | none =>
    exfalso
    have hall := next_none user _ k h
    let l := (List.range (user.length + 1)).map fun i => fmt (k + i)
    have hnd : l.Nodup := by
      apply List.Nodup.map_on _ List.nodup_range
      intro a _ b _ hab
      have := fmt_injective hab
      omega
    have hsub : l ⊆ user := by
      intro x hx
      obtain ⟨i, hi, rfl⟩ := List.mem_map.mp hx
      exact hall i (List.mem_range.mp hi)
    have := (hnd.subperm hsub).length_le
    simp [l] at this
    omega

theorem assign_append (user : List String) : ∀ (l₁ l₂ : List (Option String)) (k : Nat),
    assign user (l₁ ++ l₂) k =
      match assign user l₁ k with
      | none => none
      | some (n₁, k₁) => (assign user l₂ k₁).map fun (n₂, k₂) => (n₁ ++ n₂, k₂)
  | [], l₂, k => by
    simp only [List.nil_append, assign]
    cases assign user l₂ k with
    | none => rfl
    | some p => obtain ⟨a, b⟩ := p; simp
  | some s :: r, l₂, k => by
    simp only [List.cons_append, assign, assign_append user r l₂ k]
    cases assign user r k with
    | none => rfl
    | some p =>
      obtain ⟨a, b⟩ := p
      simp only [Option.map_some]
      cases assign user l₂ b with
      | none => rfl
      | some q => obtain ⟨c, d⟩ := q; simp
  | none :: r, l₂, k => by
    simp only [List.cons_append, assign]
    cases next user (user.length + 1) k with
    | none => rfl
    | some j =>
      simp only [assign_append user r l₂ (j + 1)]
      cases assign user r (j + 1) with
      | none => rfl
      | some p =>
        obtain ⟨a, b⟩ := p
        simp only [Option.map_some]
        cases assign user l₂ b with
        | none => rfl
        | some q => obtain ⟨c, d⟩ := q; simp

/-- what `assign` produces: designer names where there were some, fresh `Analysis{j}` elsewhere -/
theorem assign_spec (user : List String) : ∀ (l : List (Option String)) (k : Nat) (ns : List String) (k' : Nat),
    assign user l k = some (ns, k') →
      k ≤ k' ∧ ns.length = l.length ∧
      (∀ x ∈ ns, x ∈ l.filterMap id ∨ (∃ j, k ≤ j ∧ j < k' ∧ x = fmt j ∧ x ∉ user)) ∧
      ((l.filterMap id).Nodup → (∀ s ∈ l.filterMap id, s ∈ user) → ns.Nodup) ∧
      (∀ (i : Nat) (s : String), l[i]? = some (some s) → ns[i]? = some s)
  | [], k, ns, k', h => by
    simp only [assign] at h; injection h with h; injection h with h1 h2; subst h1; subst h2
    simp
  | some s :: r, k, ns, k', h => by
    simp only [assign] at h
    cases hr : assign user r k with
    | none => simp [hr] at h
    | some p =>
      obtain ⟨l', k1⟩ := p
      simp only [hr, Option.map_some] at h
      injection h with h; injection h with h1 h2; subst h1; subst h2
      obtain ⟨hk, hlen, hmem, hnd, hkeep⟩ := assign_spec user r k l' k1 hr
      refine ⟨hk, by simp [hlen], ?_, ?_, ?_⟩
      · intro x hx
        rcases List.mem_cons.mp hx with hx | hx
        · left; simp [hx]
        · rcases hmem x hx with h | h
          · left; simp only [List.filterMap_cons, id]; exact List.mem_cons_of_mem _ h
          · right; exact h
      · intro hnd' huser
        simp only [List.filterMap_cons, id] at hnd' huser
        have hnd'' := List.nodup_cons.mp hnd'
        refine List.nodup_cons.mpr ⟨?_, hnd hnd''.2 (fun t ht => huser t (List.mem_cons_of_mem _ ht))⟩
        intro hs
        rcases hmem s hs with h | ⟨j, _, _, _, hnu⟩
        · exact hnd''.1 h
        · exact hnu (huser s (List.mem_cons_self ..))
      · intro i t hi
        cases i with
        | zero => simp at hi; simp [hi]
        | succ i => simp only [List.getElem?_cons_succ] at hi ⊢; exact hkeep i t hi
  | none :: r, k, ns, k', h => by
    simp only [assign] at h
    cases hn : next user (user.length + 1) k with
    | none => simp [hn] at h
    | some j =>
      simp only [hn] at h
      cases hr : assign user r (j + 1) with
      | none => simp [hr] at h
      | some p =>
        obtain ⟨l', k1⟩ := p
        simp only [hr, Option.map_some] at h
        injection h with h; injection h with h1 h2; subst h1; subst h2
        obtain ⟨hkj, hfree⟩ := next_spec user _ k j hn
        obtain ⟨hk, hlen, hmem, hnd, hkeep⟩ := assign_spec user r (j + 1) l' k1 hr
        refine ⟨by omega, by simp [hlen], ?_, ?_, ?_⟩
        · intro x hx
          rcases List.mem_cons.mp hx with hx | hx
          · right; exact ⟨j, hkj, by omega, hx, hx ▸ hfree⟩
          · rcases hmem x hx with h | ⟨j', h1, h2, h3, h4⟩
            · left; simpa using h
            · right; exact ⟨j', by omega, h2, h3, h4⟩
        · intro hnd' huser
          simp only [List.filterMap_cons, id] at hnd' huser
          refine List.nodup_cons.mpr ⟨?_, hnd hnd' huser⟩
          intro hs
          rcases hmem (fmt j) hs with h | ⟨j', h1, _, h3, _⟩
          · exact hfree (huser _ h)
          · have := fmt_injective h3; omega
        · intro i t hi
          cases i with
          | zero => simp at hi
          | succ i => simp only [List.getElem?_cons_succ] at hi ⊢; exact hkeep i t hi

theorem assign_total (user : List String) : ∀ (l : List (Option String)) (k : Nat), ∃ r, assign user l k = some r
  | [], k => ⟨_, rfl⟩
  | some s :: r, k => by
    obtain ⟨p, hp⟩ := assign_total user r k
    exact ⟨(s :: p.1, p.2), by simp only [assign, hp, Option.map_some]⟩
  | none :: r, k => by
    obtain ⟨j, hj⟩ := next_total user k
    obtain ⟨p, hp⟩ := assign_total user r (j + 1)
    exact ⟨(fmt j :: p.1, p.2), by simp only [assign, hj, hp, Option.map_some]⟩

theorem pickName_eq (user : List String) (n : Option String) (k : Nat) :
    pickName user n k = (assign user [n] k).map fun (l, k) => (l.headD "", k) := by
  cases n with
  | some s => simp [pickName, assign]
  | none =>
    simp only [pickName, assign]
    cases next user (user.length + 1) k with
    | none => rfl
    | some j => simp

end Hdl21.SimExport

namespace Hdl21.SimExport

theorem pickName_assign {user : List String} {n : Option String} {k : Nat} {s : String} {k1 : Nat}
    (h : pickName user n k = some (s, k1)) : assign user [n] k = some ([s], k1) := by
  cases n with
  | some t => simp only [pickName] at h; injection h with h; injection h with h1 h2; subst h1; subst h2; simp [assign]
  | none =>
    simp only [pickName] at h
    cases hn : next user (user.length + 1) k with
    | none => simp [hn] at h
    | some j =>
      simp only [hn, Option.map_some] at h
      injection h with h; injection h with h1 h2; subst h1; subst h2
      simp [assign, hn]

theorem pickName_total (user : List String) (n : Option String) (k : Nat) : ∃ r, pickName user n k = some r := by
  cases n with
  | some t => exact ⟨_, rfl⟩
  | none =>
    obtain ⟨j, hj⟩ := next_total user k
    exact ⟨(fmt j, j + 1), by simp [pickName, hj]⟩

/-- one-slot step of `assign`, in the shape the tree cases need -/
theorem assign_cons_of_pick {user : List String} {n : Option String} {k : Nat} {s : String} {k1 : Nat}
    (h : pickName user n k = some (s, k1)) (rest : List (Option String)) :
    assign user (n :: rest) k = (assign user rest k1).map fun (l, k) => (s :: l, k) := by
  have h1 := pickName_assign h
  have := assign_append user [n] rest k
  simp only [List.singleton_append, h1] at this
  rw [this]

mutual
  theorem exportAn_spec (user : List String) : ∀ (a : An) (k : Nat) (a' : An) (k' : Nat),
      exportAn user a k = some (a', k') →
        strip a' = strip a ∧ ∃ ns, assign user (slots a) k = some (ns, k') ∧ slots a' = ns.map some
    | .op n, k, a', k', h => by
      simp only [exportAn] at h
      cases hp : pickName user n k with
      | none => simp [hp] at h
      | some p =>
        obtain ⟨s, k1⟩ := p
        simp only [hp, Option.map_some] at h; injection h with h; injection h with h1 h2; subst h1; subst h2
        exact ⟨rfl, [s], by simpa [slots] using pickName_assign hp, rfl⟩
    | .dc n v sw, k, a', k', h => by
      simp only [exportAn] at h
      cases hp : pickName user n k with
      | none => simp [hp] at h
      | some p =>
        obtain ⟨s, k1⟩ := p
        simp only [hp, Option.map_some] at h; injection h with h; injection h with h1 h2; subst h1; subst h2
        exact ⟨rfl, [s], by simpa [slots] using pickName_assign hp, rfl⟩
    | .ac n a b c, k, a', k', h => by
      simp only [exportAn] at h
      cases hp : pickName user n k with
      | none => simp [hp] at h
      | some p =>
        obtain ⟨s, k1⟩ := p
        simp only [hp, Option.map_some] at h; injection h with h; injection h with h1 h2; subst h1; subst h2
        exact ⟨rfl, [s], by simpa [slots] using pickName_assign hp, rfl⟩
    | .tran n a b, k, a', k', h => by
      simp only [exportAn] at h
      cases hp : pickName user n k with
      | none => simp [hp] at h
      | some p =>
        obtain ⟨s, k1⟩ := p
        simp only [hp, Option.map_some] at h; injection h with h; injection h with h1 h2; subst h1; subst h2
        exact ⟨rfl, [s], by simpa [slots] using pickName_assign hp, rfl⟩
    | .noise n a b c d e f, k, a', k', h => by
      simp only [exportAn] at h
      cases hp : pickName user n k with
      | none => simp [hp] at h
      | some p =>
        obtain ⟨s, k1⟩ := p
        simp only [hp, Option.map_some] at h; injection h with h; injection h with h1 h2; subst h1; subst h2
        exact ⟨rfl, [s], by simpa [slots] using pickName_assign hp, rfl⟩
    | .custom n c, k, a', k', h => by
      simp only [exportAn] at h
      cases hp : pickName user n k with
      | none => simp [hp] at h
      | some p =>
        obtain ⟨s, k1⟩ := p
        simp only [hp, Option.map_some] at h; injection h with h; injection h with h1 h2; subst h1; subst h2
        exact ⟨rfl, [s], by simpa [slots] using pickName_assign hp, rfl⟩
    | .sweep n v sw inner, k, a', k', h => by
      simp only [exportAn] at h
      cases hp : pickName user n k with
      | none => simp [hp] at h
      | some p =>
        obtain ⟨s, k1⟩ := p
        simp only [hp] at h
        cases hi : exportAns user inner k1 with
        | none => simp [hi] at h
        | some q =>
          obtain ⟨inner', k2⟩ := q
          simp only [hi, Option.map_some] at h; injection h with h; injection h with h1 h2; subst h1; subst h2
          obtain ⟨hs, ns, hns, hsl⟩ := exportAns_spec user inner k1 inner' k2 hi
          refine ⟨by simp [strip, hs], s :: ns, ?_, by simp [slots, hsl]⟩
          simp only [slots]
          rw [assign_cons_of_pick hp, hns]; rfl
    | .monte n npts inner, k, a', k', h => by
      simp only [exportAn] at h
      cases hp : pickName user n k with
      | none => simp [hp] at h
      | some p =>
        obtain ⟨s, k1⟩ := p
        simp only [hp] at h
        cases hi : exportAns user inner k1 with
        | none => simp [hi] at h
        | some q =>
          obtain ⟨inner', k2⟩ := q
          simp only [hi, Option.map_some] at h; injection h with h; injection h with h1 h2; subst h1; subst h2
          obtain ⟨hs, ns, hns, hsl⟩ := exportAns_spec user inner k1 inner' k2 hi
          refine ⟨by simp [strip, hs], s :: ns, ?_, by simp [slots, hsl]⟩
          simp only [slots]
          rw [assign_cons_of_pick hp, hns]; rfl
  theorem exportAns_spec (user : List String) : ∀ (l : List An) (k : Nat) (l' : List An) (k' : Nat),
      exportAns user l k = some (l', k') →
        stripL l' = stripL l ∧ ∃ ns, assign user (slotsL l) k = some (ns, k') ∧ slotsL l' = ns.map some
    | [], k, l', k', h => by
      simp only [exportAns] at h; injection h with h; injection h with h1 h2; subst h1; subst h2
      exact ⟨rfl, [], rfl, rfl⟩
    | a :: r, k, l', k', h => by
      simp only [exportAns] at h
      cases ha : exportAn user a k with
      | none => simp [ha] at h
      | some p =>
        obtain ⟨a', k1⟩ := p
        simp only [ha] at h
        cases hr : exportAns user r k1 with
        | none => simp [hr] at h
        | some q =>
          obtain ⟨r', k2⟩ := q
          simp only [hr, Option.map_some] at h; injection h with h; injection h with h1 h2; subst h1; subst h2
          obtain ⟨hs1, n1, hn1, hsl1⟩ := exportAn_spec user a k a' k1 ha
          obtain ⟨hs2, n2, hn2, hsl2⟩ := exportAns_spec user r k1 r' k2 hr
          refine ⟨by simp [stripL, hs1, hs2], n1 ++ n2, ?_, by simp [slotsL, hsl1, hsl2]⟩
          simp only [slotsL]
          rw [assign_append, hn1]
          simp only [hn2, Option.map_some]
end

mutual
  theorem exportAn_total (user : List String) : ∀ (a : An) (k : Nat), (exportAn user a k).isSome = true
    | .op n, k => by obtain ⟨⟨s, k1⟩, hp⟩ := pickName_total user n k; simp [exportAn, hp]
    | .dc n v sw, k => by obtain ⟨⟨s, k1⟩, hp⟩ := pickName_total user n k; simp [exportAn, hp]
    | .ac n a b c, k => by obtain ⟨⟨s, k1⟩, hp⟩ := pickName_total user n k; simp [exportAn, hp]
    | .tran n a b, k => by obtain ⟨⟨s, k1⟩, hp⟩ := pickName_total user n k; simp [exportAn, hp]
    | .noise n a b c d e f, k => by obtain ⟨⟨s, k1⟩, hp⟩ := pickName_total user n k; simp [exportAn, hp]
    | .custom n c, k => by obtain ⟨⟨s, k1⟩, hp⟩ := pickName_total user n k; simp [exportAn, hp]
    | .sweep n v sw inner, k => by
      obtain ⟨⟨s, k1⟩, hp⟩ := pickName_total user n k
      have := exportAns_total user inner k1
      simp only [exportAn, hp]
      cases hi : exportAns user inner k1 with
      | none => simp [hi] at this
      | some q => simp
    | .monte n npts inner, k => by
      obtain ⟨⟨s, k1⟩, hp⟩ := pickName_total user n k
      have := exportAns_total user inner k1
      simp only [exportAn, hp]
      cases hi : exportAns user inner k1 with
      | none => simp [hi] at this
      | some q => simp
  theorem exportAns_total (user : List String) : ∀ (l : List An) (k : Nat), (exportAns user l k).isSome = true
    | [], k => rfl
    | a :: r, k => by
      have h1 := exportAn_total user a k
      simp only [exportAns]
      cases ha : exportAn user a k with
      | none => simp [ha] at h1
      | some p =>
        obtain ⟨a', k1⟩ := p
        have h2 := exportAns_total user r k1
        simp only
        cases hr : exportAns user r k1 with
        | none => simp [hr] at h2
        | some q => simp
end

mutual
  theorem userNames_eq : ∀ (a : An), userNames a = (slots a).filterMap id
    | .op n | .dc n _ _ | .ac n _ _ _ | .tran n _ _ | .noise n _ _ _ _ _ _ | .custom n _ => by
      cases n <;> simp [userNames, slots]
    | .sweep n _ _ inner | .monte n _ inner => by
      cases n <;> simp [userNames, slots, userNamesL_eq inner]
  theorem userNamesL_eq : ∀ (l : List An), userNamesL l = (slotsL l).filterMap id
    | [] => rfl
    | a :: r => by simp [userNamesL, slotsL, userNames_eq a, userNamesL_eq r, List.filterMap_append]
end

end Hdl21.SimExport
