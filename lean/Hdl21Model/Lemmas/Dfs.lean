/-
# Depth-first group discovery computes connected components
  (the shape of hdl21/elab/passes/portrefs.py: `follow` — add the node, then follow each neighbour not yet in the group)

Generic in the node type.  `dfs` is fuel-bounded and answers `none` when the fuel runs out; everything is stated
for the runs that answer.
-/
namespace Hdl21.Dfs

variable {α : Type} [DecidableEq α]

/-- `for q in neighbours: follow(q, group)`, for a given way `f` of following one -/
def dfsList (f : α → List α → Option (List α)) : List α → List α → Option (List α)
  | [], g => some g
  | q :: rest, g =>
    match f q g with
    | none => none
    | some g' => dfsList f rest g'

/-- `follow(p, group)` -/
def dfs (nbrs : α → List α) : Nat → α → List α → Option (List α)
  | 0, _, _ => none
  | fuel + 1, p, g => if p ∈ g then some g else dfsList (dfs nbrs fuel) (nbrs p) (g ++ [p])

/-- reachability through neighbours -/
inductive Reach (nbrs : α → List α) : α → α → Prop
  | refl (a : α) : Reach nbrs a a
  | step {a b c : α} : b ∈ nbrs a → Reach nbrs b c → Reach nbrs a c

omit [DecidableEq α] in
theorem Reach.trans {nbrs : α → List α} {a b c : α} (h1 : Reach nbrs a b) (h2 : Reach nbrs b c) : Reach nbrs a c := by
  induction h1 with
  | refl _ => exact h2
  | step hb _ ih => exact .step hb (ih h2)

omit [DecidableEq α] in
theorem Reach.single {nbrs : α → List α} {a b : α} (h : b ∈ nbrs a) : Reach nbrs a b := .step h (.refl b)

/-- what one call establishes -/
structure Spec (nbrs : α → List α) (p : α) (g g' : List α) : Prop where
  mono : ∀ x, x ∈ g → x ∈ g'
  self : p ∈ g'
  sound : ∀ x, x ∈ g' → x ∈ g ∨ Reach nbrs p x
  closed : ∀ x, x ∈ g' → x ∉ g → ∀ y, y ∈ nbrs x → y ∈ g'

structure SpecList (nbrs : α → List α) (qs : List α) (g g' : List α) : Prop where
  mono : ∀ x, x ∈ g → x ∈ g'
  all : ∀ q, q ∈ qs → q ∈ g'
  sound : ∀ x, x ∈ g' → x ∈ g ∨ ∃ q, q ∈ qs ∧ Reach nbrs q x
  closed : ∀ x, x ∈ g' → x ∉ g → ∀ y, y ∈ nbrs x → y ∈ g'

theorem dfsList_spec (nbrs : α → List α) (f : α → List α → Option (List α))
    (hf : ∀ q g g', f q g = some g' → Spec nbrs q g g') :
    ∀ (qs : List α) (g g' : List α), dfsList f qs g = some g' → SpecList nbrs qs g g'
  | [], g, g', h => by
    simp only [dfsList] at h; injection h with h; subst h
    exact ⟨(fun x hx => hx), (fun q hq => by cases hq), (fun x hx => Or.inl hx), (fun x hx hnx => absurd hx hnx)⟩
  | q :: rest, g, g', h => by
    rw [dfsList] at h
    cases hd : f q g with
    | none => simp [hd] at h
    | some g1 =>
      simp only [hd] at h
      have h1 := hf q g g1 hd
      have h2 := dfsList_spec nbrs f hf rest g1 g' h
      refine ⟨fun x hx => h2.mono x (h1.mono x hx), ?_, ?_, ?_⟩
      · intro q' hq'
        rcases List.mem_cons.mp hq' with rfl | hr
        · exact h2.mono _ h1.self
        · exact h2.all q' hr
      · intro x hx
        rcases h2.sound x hx with hx1 | ⟨q', hq', hr⟩
        · rcases h1.sound x hx1 with hx0 | hr
          · exact Or.inl hx0
          · exact Or.inr ⟨q, List.mem_cons_self .., hr⟩
        · exact Or.inr ⟨q', List.mem_cons_of_mem _ hq', hr⟩
      · intro x hx hnx y hy
        by_cases hx1 : x ∈ g1
        · exact h2.mono y (h1.closed x hx1 hnx y hy)
        · exact h2.closed x hx hx1 y hy

theorem dfs_spec (nbrs : α → List α) : ∀ (fuel : Nat) (p : α) (g g' : List α), dfs nbrs fuel p g = some g' → Spec nbrs p g g'
  | 0, _, _, _, h => by simp [dfs] at h
  | fuel + 1, p, g, g', h => by
    rw [dfs] at h
    split at h
    · rename_i hp
      injection h with h; subst h
      exact ⟨fun x hx => hx, hp, fun x hx => Or.inl hx, fun x hx hnx => absurd hx hnx⟩
    · rename_i hp
      have hl := dfsList_spec nbrs (dfs nbrs fuel) (dfs_spec nbrs fuel) (nbrs p) (g ++ [p]) g' h
      refine ⟨fun x hx => hl.mono x (List.mem_append_left _ hx), hl.mono p (by simp), ?_, ?_⟩
      · intro x hx
        rcases hl.sound x hx with h1 | ⟨q, hq, hr⟩
        · rcases List.mem_append.mp h1 with h2 | h2
          · exact Or.inl h2
          · simp at h2; subst h2; exact Or.inr (.refl x)
        · exact Or.inr (.step hq hr)
      · intro x hx hnx y hy
        by_cases hxp : x = p
        · subst hxp; exact hl.all y hy
        · have : x ∉ g ++ [p] := by
            intro hm
            rcases List.mem_append.mp hm with h2 | h2
            · exact hnx h2
            · simp at h2; exact hxp h2
          exact hl.closed x hx this y hy

/-- **A group discovered from `p` on an empty start is exactly what is reachable from `p`.** -/
theorem dfs_component (nbrs : α → List α) (fuel : Nat) (p : α) (g : List α) (h : dfs nbrs fuel p [] = some g) :
    ∀ x, x ∈ g ↔ Reach nbrs p x := by
  have hs := dfs_spec nbrs fuel p [] g h
  intro x
  constructor
  · intro hx
    rcases hs.sound x hx with h0 | hr
    · cases h0
    · exact hr
  · intro hr
    induction hr with
    | refl _ => exact hs.self
    | step hb _ ih =>
      -- `ih` needs the start of the rest of the path to be in `g`
      rename_i a b c hbc
      exact (by
        have ha : a ∈ g → c ∈ g := by
          intro ha
          have hb' : b ∈ g := hs.closed a ha (by simp) b hb
          -- re-run the induction from `b`
          have : ∀ {u v : α}, Reach nbrs u v → u ∈ g → v ∈ g := by
            intro u v huv
            induction huv with
            | refl _ => exact id
            | step hn _ ih' => intro hu; exact ih' (hs.closed _ hu (by simp) _ hn)
          exact this hbc hb'
        exact ha hs.self)

end Hdl21.Dfs

namespace Hdl21.Dfs
variable {α : Type} [DecidableEq α]

/-- how many nodes of the universe `U` are not yet in the group -/
def unvisited (U g : List α) : Nat := (U.filter (fun x => !decide (x ∈ g))).length

theorem unvisited_cons_in (a : α) (r g : List α) (h : a ∈ g) : unvisited (a :: r) g = unvisited r g := by
  unfold unvisited
  rw [List.filter_cons_of_neg (by simp [h])]

theorem unvisited_cons_out (a : α) (r g : List α) (h : a ∉ g) : unvisited (a :: r) g = unvisited r g + 1 := by
  unfold unvisited
  rw [List.filter_cons_of_pos (by simp [h])]
  rfl

theorem unvisited_mono (U : List α) {g g' : List α} (h : ∀ x, x ∈ g → x ∈ g') : unvisited U g' ≤ unvisited U g := by
  induction U with
  | nil => simp [unvisited]
  | cons a r ih =>
    by_cases ha : a ∈ g
    · rw [unvisited_cons_in a r g ha, unvisited_cons_in a r g' (h a ha)]; exact ih
    · rw [unvisited_cons_out a r g ha]
      by_cases ha' : a ∈ g'
      · rw [unvisited_cons_in a r g' ha']; omega
      · rw [unvisited_cons_out a r g' ha']; omega

theorem unvisited_add (U : List α) (g : List α) (p : α) (hp : p ∈ U) (hg : p ∉ g) : unvisited U (g ++ [p]) < unvisited U g := by
  induction U with
  | nil => cases hp
  | cons a r ih =>
    by_cases hap : a = p
    · subst hap
      rw [unvisited_cons_out a r g hg, unvisited_cons_in a r (g ++ [a]) (by simp)]
      have := unvisited_mono r (g := g) (g' := g ++ [a]) (fun x hx => List.mem_append_left _ hx)
      omega
    · have hpr : p ∈ r := by
        rcases List.mem_cons.mp hp with h | h
        · exact absurd h.symm hap
        · exact h
      have := ih hpr
      by_cases ha : a ∈ g
      · rw [unvisited_cons_in a r g ha, unvisited_cons_in a r (g ++ [p]) (List.mem_append_left _ ha)]; exact this
      · have h1 : a ∉ g ++ [p] := by
          intro hm
          rcases List.mem_append.mp hm with h | h
          · exact ha h
          · simp at h; exact hap h
        rw [unvisited_cons_out a r g ha, unvisited_cons_out a r (g ++ [p]) h1]; omega

/-- **Group discovery always answers**, given fuel beyond the number of nodes it can still add. -/
theorem dfs_total (nbrs : α → List α) (U : List α) (hU : ∀ x, x ∈ U → ∀ y, y ∈ nbrs x → y ∈ U) :
    ∀ (fuel : Nat) (p : α) (g : List α), p ∈ U → unvisited U g < fuel → ∃ g', dfs nbrs fuel p g = some g'
  | 0, _, _, _, h => by omega
  | fuel + 1, p, g, hp, hf => by
    rw [dfs]
    split
    · exact ⟨g, rfl⟩
    · rename_i hpg
      have hlt := unvisited_add U g p hp hpg
      -- the fold over the neighbours: the group only grows, so the fuel stays sufficient
      have fold : ∀ (qs : List α) (g0 : List α), (∀ q, q ∈ qs → q ∈ U) → unvisited U g0 < fuel →
          ∃ g', dfsList (dfs nbrs fuel) qs g0 = some g' := by
        intro qs
        induction qs with
        | nil => intro g0 _ _; exact ⟨g0, rfl⟩
        | cons q rest ih =>
          intro g0 hqs hf0
          obtain ⟨g1, hg1⟩ := dfs_total nbrs U hU fuel q g0 (hqs q (List.mem_cons_self ..)) hf0
          have hmono := (dfs_spec nbrs fuel q g0 g1 hg1).mono
          have hf1 : unvisited U g1 < fuel := Nat.lt_of_le_of_lt (unvisited_mono U hmono) hf0
          obtain ⟨g2, hg2⟩ := ih g1 (fun x hx => hqs x (List.mem_cons_of_mem _ hx)) hf1
          exact ⟨g2, by rw [dfsList, hg1]; exact hg2⟩
      exact fold (nbrs p) (g ++ [p]) (fun q hq => hU p hp q hq) (by omega)

end Hdl21.Dfs

/-! ## The discovered group does not depend on the order in which neighbours are enumerated   (C12) -/
namespace Hdl21.Dfs
variable {α : Type} [DecidableEq α]

omit [DecidableEq α] in
/-- reachability only looks at *which* neighbours a node has -/
theorem Reach.congr {nbrs nbrs' : α → List α} (h : ∀ a x, x ∈ nbrs a → x ∈ nbrs' a) {a b : α}
    (r : Reach nbrs a b) : Reach nbrs' a b := by
  induction r with
  | refl _ => exact .refl _
  | step hb _ ih => exact .step (h _ _ hb) ih

omit [DecidableEq α] in
theorem dfsList_nodup (f : α → List α → Option (List α))
    (hf : ∀ q g g', f q g = some g' → g.Nodup → g'.Nodup) :
    ∀ (qs : List α) (g g' : List α), dfsList f qs g = some g' → g.Nodup → g'.Nodup
  | [], g, g', h, hg => by
    simp only [dfsList] at h; injection h with h; subst h; exact hg
  | q :: rest, g, g', h, hg => by
    rw [dfsList] at h
    cases hd : f q g with
    | none => simp [hd] at h
    | some g1 =>
      simp only [hd] at h
      exact dfsList_nodup f hf rest g1 g' h (hf q g g1 hd hg)

/-- a node enters the group once -/
theorem dfs_nodup (nbrs : α → List α) : ∀ (fuel : Nat) (p : α) (g g' : List α),
    dfs nbrs fuel p g = some g' → g.Nodup → g'.Nodup
  | 0, _, _, _, h, _ => by simp [dfs] at h
  | fuel + 1, p, g, g', h, hg => by
    rw [dfs] at h
    split at h
    · injection h with h; subst h; exact hg
    · rename_i hp
      refine dfsList_nodup (dfs nbrs fuel) (dfs_nodup nbrs fuel) (nbrs p) (g ++ [p]) g' h ?_
      rw [List.nodup_append]
      refine ⟨hg, by simp, ?_⟩
      intro a ha b hb
      simp at hb; subst hb
      intro hab; subst hab; exact hp ha

end Hdl21.Dfs
