import Hdl21Model.Lemmas.Conn
namespace Hdl21

/-- The four mutually recursive resolver functions preserve the denoted bit list (any fuel). -/
def ResolveSound (fuel : Nat) : Prop :=
  (∀ parent idx ls bs, listSlice fuel parent idx = .ok ls →
      (SConn.slice parent idx).denote = .ok bs → denoteList ls = .ok bs) ∧
  (∀ parent inner ls pbs bs, consSlice fuel parent inner = .ok ls → parent.denote = .ok pbs →
      InnerWF pbs.length inner → 2 ≤ inner.width → pick pbs inner.bits = .ok bs → denoteList ls = .ok bs) ∧
  (∀ c r bs, resolveSliceable fuel c = .ok r → c.denote = .ok bs → r.denote = .ok bs) ∧
  (∀ ps rs bs, resolveParts fuel ps = .ok rs → denoteList ps = .ok bs → denoteList rs = .ok bs)

/-- Unpack the denotation of a slice. -/
theorem slice_denote_inv {p : SConn} {idx : Index} {bs : List Bit} (h : (SConn.slice p idx).denote = .ok bs) :
    ∃ pbs inner, p.denote = .ok pbs ∧ sliceInner pbs.length idx = .ok inner ∧ pick pbs inner.bits = .ok bs := by
  rw [denote_slice] at h
  cases hp : p.denote with
  | error e => simp [hp] at h
  | ok pbs =>
    simp only [hp] at h
    cases hi : sliceInner pbs.length idx with
    | error e => simp [hi] at h
    | ok inner =>
      simp only [hi] at h
      exact ⟨pbs, inner, rfl, hi, h⟩

/-- Splicing concatenation entries one level does not change the denoted bits. -/
theorem denoteList_splice : ∀ (ls : List SConn) (bs : List Bit), denoteList ls = .ok bs → denoteList (splice ls) = .ok bs
  | [], bs, h => by rw [splice]; exact h
  | x :: rest, bs, h => by
    rw [denoteList_cons] at h
    cases hx : x.denote with
    | error e => simp [hx] at h
    | ok xa =>
      simp only [hx] at h
      cases hr : denoteList rest with
      | error e => simp [hr] at h
      | ok rb =>
        simp only [hr] at h
        injection h with h; subst h
        have ihr := denoteList_splice rest rb hr
        cases x with
        | concat ps =>
          rw [splice]
          rw [denote_concat] at hx
          exact denoteList_append ps (splice rest) xa rb hx ihr
        | sig n w => rw [splice, denoteList_cons, hx, ihr]
        | slice p i => rw [splice, denoteList_cons, hx, ihr]

theorem resolve_sound : ∀ fuel, ResolveSound fuel
  | 0 => by
    refine ⟨?_, ?_, ?_, ?_⟩
    · intro parent idx ls bs h; rw [listSlice] at h; cases h
    · intro parent inner ls pbs bs h; rw [consSlice] at h; cases h
    · intro c r bs h; rw [resolveSliceable] at h; cases h
    · intro ps rs bs h; rw [resolveParts] at h; cases h
  | fuel + 1 => by
    obtain ⟨ihL, ihC, ihR, ihP⟩ := resolve_sound fuel
    refine ⟨?_, ?_, ?_, ?_⟩
    · -- listSlice
      intro parent idx ls bs h hd
      obtain ⟨pbs, inner0, hpd, hi0, hpick⟩ := slice_denote_inv hd
      rw [listSlice] at h
      simp only [bind, Except.bind] at h
      cases hw : parent.width with
      | error e => simp [hw] at h
      | ok pw =>
        have hlen : pbs.length = pw := denote_length_of_width hw hpd
        simp only [hw] at h
        rw [← hlen, hi0] at h
        simp only [] at h
        have wf := sliceInner_wf pbs.length idx inner0 hi0
        split at h
        · -- full width, forward: the parent itself
          rename_i hfull
          cases hr : resolveSliceable fuel parent with
          | error e => simp [hr] at h
          | ok r =>
            simp only [hr] at h
            injection h with h; subst h
            have hbits := bits_full pbs.length inner0 wf hfull.1 hfull.2
            rw [hbits, pick_all] at hpick
            injection hpick with hpick; subst hpick
            exact denoteList_singleton r pbs (ihR parent r pbs hr hpd)
        · cases parent with
          | sig n w =>
            simp only [] at h
            injection h with h; subst h
            exact denoteList_singleton _ bs hd
          | slice pp pidx =>
            simp only [] at h
            split at h
            · -- one bit of a slice: reach through to the grand-parent
              rename_i h1
              obtain ⟨ppbs, pin, hppd, hpin, hppick⟩ := slice_denote_inv hpd
              cases hpw : pp.width with
              | error e => simp [hpw] at h
              | ok ppw =>
                have hpplen : ppbs.length = ppw := denote_length_of_width hpw hppd
                simp only [hpw] at h
                rw [← hpplen, hpin] at h
                simp only [] at h
                -- the one selected bit
                rw [bits_width_one pbs.length inner0 wf h1] at hpick
                obtain ⟨b, r', hb0, hbget, hr', rfl⟩ := pick_cons_ok pbs inner0.bot [] bs hpick
                rw [pick_nil] at hr'; injection hr' with hr'; subst hr'
                -- position in the grand-parent
                have hjlt : inner0.bot.toNat < pbs.length := by
                  rcases Nat.lt_or_ge inner0.bot.toNat pbs.length with hh | hh
                  · exact hh
                  · rw [List.getElem?_eq_none hh] at hbget; cases hbget
                have hplen : pbs.length = pin.bits.length := pick_length ppbs pin.bits pbs hppick
                have hpinlen : pin.bits.length = pin.width.toNat := by rw [bits_eq_arith, arith_length]
                have hkk := bits_getElem pin inner0.bot.toNat (by omega)
                have hcast : ((inner0.bot.toNat : Nat) : Int) = inner0.bot := by omega
                rw [hcast] at hkk
                obtain ⟨hk0, hget, _⟩ := pick_getElem ppbs pin.bits pbs hppick inner0.bot.toNat _ hkk
                rw [hbget] at hget
                have hsl := slice_int_denote pp ppbs (pin.bitAt inner0.bot) b hppd hk0 hget.symm
                exact ihL pp _ ls [b] h hsl
            · -- several bits: first + rest
              rename_i hne1
              have h2 : 2 ≤ inner0.width := by have := wf.n_pos; omega
              exact ihC (.slice pp pidx) inner0 ls pbs bs h hpd wf h2 hpick
          | concat parts =>
            simp only [] at h
            split at h
            · rename_i h1
              cases hf : findPart parts 0 inner0.bot.toNat with
              | error e => simp [hf] at h
              | ok res =>
                obtain ⟨part, off⟩ := res
                simp only [hf] at h
                rw [bits_width_one pbs.length inner0 wf h1] at hpick
                obtain ⟨b, r', hb0, hbget, hr', rfl⟩ := pick_cons_ok pbs inner0.bot [] bs hpick
                rw [pick_nil] at hr'; injection hr' with hr'; subst hr'
                rw [denote_concat] at hpd
                obtain ⟨pb, hpbd, hpg, hoff⟩ := findPart_sound parts 0 inner0.bot.toNat part off pbs hf (by omega) hpd
                rw [Nat.sub_zero, hbget] at hpg
                have hsl := slice_int_denote part pb (off : Int) b hpbd (by omega) (by simpa using hpg)
                exact ihL part _ ls [b] h hsl
            · rename_i hne1
              have h2 : 2 ≤ inner0.width := by have := wf.n_pos; omega
              exact ihC (.concat parts) inner0 ls pbs bs h hpd wf h2 hpick
    · -- consSlice
      intro parent inner ls pbs bs h hpd wf h2 hpick
      rw [consSlice] at h
      obtain ⟨m, hm⟩ : ∃ m : Nat, inner.width = (m : Int) + 2 := ⟨(inner.width - 2).toNat, by omega⟩
      split at h
      · rename_i hneg
        simp only [bind, Except.bind] at h
        obtain ⟨s', hs', hbits, hk0, hk1⟩ := tail_neg pbs.length inner wf hneg m hm
        rw [hbits] at hpick
        obtain ⟨b, r', _, hbget, hr', rfl⟩ := pick_cons_ok pbs (inner.top - 1) s'.bits bs hpick
        cases hfirst : listSlice fuel parent (.int (inner.top - 1)) with
        | error e => simp [hfirst] at h
        | ok first =>
          simp only [hfirst] at h
          cases hrest : listSlice fuel parent (.range (some (inner.top - 1 + inner.step))
              (if inner.bot > 0 then some (inner.bot - 1) else none) (some inner.step)) with
          | error e => simp [hrest] at h
          | ok rest =>
            simp only [hrest] at h
            injection h with h; subst h
            have d1 := ihL parent _ first [b] hfirst (slice_int_denote parent pbs _ b hpd hk0 hbget)
            have hsl : (SConn.slice parent (.range (some (inner.top - 1 + inner.step))
                (if inner.bot > 0 then some (inner.bot - 1) else none) (some inner.step))).denote = .ok r' := by
              rw [denote_slice, hpd]; simp only [hs']; exact hr'
            have d2 := ihL parent _ rest r' hrest hsl
            simpa using denoteList_append first rest [b] r' d1 d2
      · rename_i hnn
        have hpos : 0 < inner.step := by have := wf.step_ne; omega
        simp only [bind, Except.bind] at h
        obtain ⟨s', hs', hbits, hk0, hk1⟩ := tail_pos pbs.length inner wf hpos m hm
        rw [hbits] at hpick
        obtain ⟨b, r', _, hbget, hr', rfl⟩ := pick_cons_ok pbs inner.bot s'.bits bs hpick
        cases hfirst : listSlice fuel parent (.int inner.bot) with
        | error e => simp [hfirst] at h
        | ok first =>
          simp only [hfirst] at h
          cases hrest : listSlice fuel parent (.range (some (inner.bot + inner.step)) (some inner.top) (some inner.step)) with
          | error e => simp [hrest] at h
          | ok rest =>
            simp only [hrest] at h
            injection h with h; subst h
            have d1 := ihL parent _ first [b] hfirst (slice_int_denote parent pbs _ b hpd hk0 hbget)
            have hsl : (SConn.slice parent (.range (some (inner.bot + inner.step)) (some inner.top) (some inner.step))).denote = .ok r' := by
              rw [denote_slice, hpd]; simp only [hs']; exact hr'
            have d2 := ihL parent _ rest r' hrest hsl
            simpa using denoteList_append first rest [b] r' d1 d2
    · -- resolveSliceable
      intro c r bs h hd
      cases c with
      | sig n w =>
        rw [resolveSliceable] at h
        injection h with h; subst h; exact hd
      | slice p idx =>
        rw [resolveSliceable] at h
        simp only [bind, Except.bind] at h
        cases hl : listSlice fuel p idx with
        | error e => simp [hl] at h
        | ok ls =>
          simp only [hl] at h
          have dl := ihL p idx ls bs hl hd
          match ls, h, dl with
          | [], h, _ => cases h
          | [x], h, dl =>
            injection h with h; subst h
            rw [denoteList_cons, denoteList_nil] at dl
            cases hx : x.denote with
            | error e => simp [hx] at dl
            | ok xb => simp [hx] at dl; rw [dl]
          | x :: y :: rest, h, dl =>
            injection h with h; subst h
            rw [denote_concat]; exact denoteList_splice _ bs dl
      | concat ps =>
        rw [resolveSliceable] at h
        split at h
        · cases h
        · simp only [bind, Except.bind] at h
          cases hp : resolveParts fuel ps with
          | error e => simp [hp] at h
          | ok parts =>
            simp only [hp] at h
            injection h with h; subst h
            rw [denote_concat] at hd ⊢
            exact ihP ps parts bs hp hd
    · -- resolveParts
      intro ps rs bs h hd
      cases ps with
      | nil =>
        rw [resolveParts] at h
        injection h with h; subst h; exact hd
      | cons p ps =>
        rw [resolveParts] at h
        simp only [bind, Except.bind] at h
        cases hr : resolveSliceable fuel p with
        | error e => simp [hr] at h
        | ok r =>
          simp only [hr] at h
          cases hrest : resolveParts fuel ps with
          | error e => simp [hrest] at h
          | ok rest =>
            simp only [hrest] at h
            rw [denoteList_cons] at hd
            cases hpd : p.denote with
            | error e => simp [hpd] at hd
            | ok pa =>
              simp only [hpd] at hd
              cases hpsd : denoteList ps with
              | error e => simp [hpsd] at hd
              | ok pb =>
                simp only [hpsd] at hd
                injection hd with hd; subst hd
                have dr := ihR p r pa hr hpd
                have drest := ihP ps rest pb hrest hpsd
                cases r with
                | concat rsub =>
                  simp only [] at h
                  injection h with h; subst h
                  rw [denote_concat] at dr
                  exact denoteList_append rsub rest pa pb dr drest
                | sig n w =>
                  simp only [] at h
                  injection h with h; subst h
                  rw [denoteList_cons, dr, drest]
                | slice q qi =>
                  simp only [] at h
                  injection h with h; subst h
                  rw [denoteList_cons, dr, drest]

end Hdl21

namespace Hdl21

theorem exportableList_iff (ps : List SConn) :
    SConn.exportable.exportableList ps = true ↔ ∀ x ∈ ps, x.exportable = true := by
  induction ps with
  | nil => simp [SConn.exportable.exportableList]
  | cons p ps ih => simp [SConn.exportable.exportableList, ih]

theorem exportable_concat (ps : List SConn) :
    (SConn.concat ps).exportable = true ↔ ∀ x ∈ ps, x.exportable = true := by
  rw [SConn.exportable]; exact exportableList_iff ps

/-- A predicate that holds of a concatenation iff it holds of its parts survives splicing. -/
theorem splice_all (P : SConn → Prop) (hc : ∀ ps, P (.concat ps) ↔ ∀ x ∈ ps, P x) :
    ∀ (ls : List SConn), (∀ x ∈ ls, P x) → ∀ x ∈ splice ls, P x
  | [], _ => by intro x hx; rw [splice] at hx; cases hx
  | .concat ps :: rest, h => by
    intro x hx
    rw [splice] at hx
    rcases List.mem_append.1 hx with hx | hx
    · exact (hc ps).1 (h _ (by simp)) x hx
    · exact splice_all P hc rest (fun y hy => h y (by simp [hy])) x hx
  | .sig n w :: rest, h => by
    intro x hx
    rw [splice] at hx
    rcases List.mem_cons.1 hx with hx | hx
    · rw [hx]; exact h _ (by simp)
    · exact splice_all P hc rest (fun y hy => h y (by simp [hy])) x hx
  | .slice p i :: rest, h => by
    intro x hx
    rw [splice] at hx
    rcases List.mem_cons.1 hx with hx | hx
    · rw [hx]; exact h _ (by simp)
    · exact splice_all P hc rest (fun y hy => h y (by simp [hy])) x hx

/-- Everything the resolver returns is made of signals and slices taken directly from signals. -/
def ResolveFlat (fuel : Nat) : Prop :=
  (∀ parent idx ls, listSlice fuel parent idx = .ok ls → ∀ x ∈ ls, x.exportable = true) ∧
  (∀ parent inner ls, consSlice fuel parent inner = .ok ls → ∀ x ∈ ls, x.exportable = true) ∧
  (∀ c r, resolveSliceable fuel c = .ok r → r.exportable = true) ∧
  (∀ ps rs, resolveParts fuel ps = .ok rs → ∀ x ∈ rs, x.exportable = true)

theorem resolve_flat : ∀ fuel, ResolveFlat fuel
  | 0 => by
    refine ⟨?_, ?_, ?_, ?_⟩
    · intro parent idx ls h; rw [listSlice] at h; cases h
    · intro parent inner ls h; rw [consSlice] at h; cases h
    · intro c r h; rw [resolveSliceable] at h; cases h
    · intro ps rs h; rw [resolveParts] at h; cases h
  | fuel + 1 => by
    obtain ⟨ihL, ihC, ihR, ihP⟩ := resolve_flat fuel
    refine ⟨?_, ?_, ?_, ?_⟩
    · intro parent idx ls h
      rw [listSlice] at h
      simp only [bind, Except.bind] at h
      cases hw : parent.width with
      | error e => simp [hw] at h
      | ok pw =>
        simp only [hw] at h
        cases hi : sliceInner pw idx with
        | error e => simp [hi] at h
        | ok inner =>
          simp only [hi] at h
          split at h
          · cases hr : resolveSliceable fuel parent with
            | error e => simp [hr] at h
            | ok r =>
              simp only [hr] at h
              injection h with h; subst h
              intro x hx; simp at hx; rw [hx]; exact ihR parent r hr
          · cases parent with
            | sig n w =>
              simp only [] at h
              injection h with h; subst h
              intro x hx; simp at hx; rw [hx, SConn.exportable]
            | slice pp pidx =>
              simp only [] at h
              split at h
              · cases hpw : pp.width with
                | error e => simp [hpw] at h
                | ok ppw =>
                  simp only [hpw] at h
                  cases hpin : sliceInner ppw pidx with
                  | error e => simp [hpin] at h
                  | ok pin =>
                    simp only [hpin] at h
                    exact ihL pp _ ls h
              · exact ihC _ inner ls h
            | concat parts =>
              simp only [] at h
              split at h
              · cases hf : findPart parts 0 inner.bot.toNat with
                | error e => simp [hf] at h
                | ok res =>
                  simp only [hf] at h
                  exact ihL _ _ ls h
              · exact ihC _ inner ls h
    · intro parent inner ls h
      rw [consSlice] at h
      split at h <;> simp only [bind, Except.bind] at h
      · cases hfirst : listSlice fuel parent (.int (inner.top - 1)) with
        | error e => simp [hfirst] at h
        | ok first =>
          simp only [hfirst] at h
          cases hrest : listSlice fuel parent (.range (some (inner.top - 1 + inner.step))
              (if inner.bot > 0 then some (inner.bot - 1) else none) (some inner.step)) with
          | error e => simp [hrest] at h
          | ok rest =>
            simp only [hrest] at h
            injection h with h; subst h
            intro x hx
            rcases List.mem_append.1 hx with hx | hx
            · exact ihL _ _ first hfirst x hx
            · exact ihL _ _ rest hrest x hx
      · cases hfirst : listSlice fuel parent (.int inner.bot) with
        | error e => simp [hfirst] at h
        | ok first =>
          simp only [hfirst] at h
          cases hrest : listSlice fuel parent (.range (some (inner.bot + inner.step)) (some inner.top) (some inner.step)) with
          | error e => simp [hrest] at h
          | ok rest =>
            simp only [hrest] at h
            injection h with h; subst h
            intro x hx
            rcases List.mem_append.1 hx with hx | hx
            · exact ihL _ _ first hfirst x hx
            · exact ihL _ _ rest hrest x hx
    · intro c r h
      cases c with
      | sig n w =>
        rw [resolveSliceable] at h
        injection h with h; subst h; rw [SConn.exportable]
      | slice p idx =>
        rw [resolveSliceable] at h
        simp only [bind, Except.bind] at h
        cases hl : listSlice fuel p idx with
        | error e => simp [hl] at h
        | ok ls =>
          simp only [hl] at h
          have fl := ihL p idx ls hl
          match ls, h, fl with
          | [], h, _ => cases h
          | [x], h, fl => injection h with h; rw [← h]; exact fl x (by simp)
          | x :: y :: rest, h, fl =>
            injection h with h; subst h
            exact (exportable_concat _).2 (splice_all (fun c => c.exportable = true) (fun ps => exportable_concat ps) _ fl)
      | concat ps =>
        rw [resolveSliceable] at h
        split at h
        · cases h
        · simp only [bind, Except.bind] at h
          cases hp : resolveParts fuel ps with
          | error e => simp [hp] at h
          | ok parts =>
            simp only [hp] at h
            injection h with h; subst h
            exact (exportable_concat _).2 (ihP ps parts hp)
    · intro ps rs h
      cases ps with
      | nil => rw [resolveParts] at h; injection h with h; subst h; intro x hx; cases hx
      | cons p ps =>
        rw [resolveParts] at h
        simp only [bind, Except.bind] at h
        cases hr : resolveSliceable fuel p with
        | error e => simp [hr] at h
        | ok r =>
          simp only [hr] at h
          cases hrest : resolveParts fuel ps with
          | error e => simp [hrest] at h
          | ok rest =>
            simp only [hrest] at h
            have fr := ihR p r hr
            have frest := ihP ps rest hrest
            cases r with
            | concat rsub =>
              simp only [] at h
              injection h with h; subst h
              intro x hx
              rcases List.mem_append.1 hx with hx | hx
              · exact (exportable_concat rsub).1 fr x hx
              · exact frest x hx
            | sig n w =>
              simp only [] at h
              injection h with h; subst h
              intro x hx
              rcases List.mem_cons.1 hx with hx | hx
              · subst hx; exact fr
              · exact frest x hx
            | slice q qi =>
              simp only [] at h
              injection h with h; subst h
              intro x hx
              rcases List.mem_cons.1 hx with hx | hx
              · subst hx; exact fr
              · exact frest x hx

end Hdl21

namespace Hdl21

theorem findPart_mem : ∀ (ps : List SConn) (idx k : Nat) (part : SConn) (off : Nat),
    findPart ps idx k = .ok (part, off) → part ∈ ps
  | [], idx, k, part, off, h => by rw [findPart] at h; cases h
  | p :: ps, idx, k, part, off, h => by
    rw [findPart] at h
    simp only [bind, Except.bind] at h
    cases hw : p.width with
    | error e => simp [hw] at h
    | ok w =>
      simp only [hw] at h
      split at h
      · injection h with h; injection h with h1 _; subst h1; simp
      · exact List.mem_cons_of_mem _ (findPart_mem ps _ k part off h)

/-- A predicate that only looks at the signals at the leaves of a connectable. -/
structure LeafPred (P : SConn → Prop) : Prop where
  slice : ∀ p idx, P (.slice p idx) ↔ P p
  concat : ∀ ps, P (.concat ps) ↔ ∀ x ∈ ps, P x

def ResolveKeeps (P : SConn → Prop) (fuel : Nat) : Prop :=
  (∀ parent idx ls, listSlice fuel parent idx = .ok ls → P parent → ∀ x ∈ ls, P x) ∧
  (∀ parent inner ls, consSlice fuel parent inner = .ok ls → P parent → ∀ x ∈ ls, P x) ∧
  (∀ c r, resolveSliceable fuel c = .ok r → P c → P r) ∧
  (∀ ps rs, resolveParts fuel ps = .ok rs → (∀ x ∈ ps, P x) → ∀ x ∈ rs, P x)

/-- The resolver only re-arranges the signals it was given: every leaf predicate is preserved. -/
theorem resolve_keeps (P : SConn → Prop) (lp : LeafPred P) : ∀ fuel, ResolveKeeps P fuel
  | 0 => by
    refine ⟨?_, ?_, ?_, ?_⟩
    · intro parent idx ls h; rw [listSlice] at h; cases h
    · intro parent inner ls h; rw [consSlice] at h; cases h
    · intro c r h; rw [resolveSliceable] at h; cases h
    · intro ps rs h; rw [resolveParts] at h; cases h
  | fuel + 1 => by
    obtain ⟨ihL, ihC, ihR, ihP⟩ := resolve_keeps P lp fuel
    refine ⟨?_, ?_, ?_, ?_⟩
    · intro parent idx ls h hP
      rw [listSlice] at h
      simp only [bind, Except.bind] at h
      cases hw : parent.width with
      | error e => simp [hw] at h
      | ok pw =>
        simp only [hw] at h
        cases hi : sliceInner pw idx with
        | error e => simp [hi] at h
        | ok inner =>
          simp only [hi] at h
          split at h
          · cases hr : resolveSliceable fuel parent with
            | error e => simp [hr] at h
            | ok r =>
              simp only [hr] at h
              injection h with h; subst h
              intro x hx; simp at hx; rw [hx]; exact ihR parent r hr hP
          · cases parent with
            | sig n w =>
              simp only [] at h
              injection h with h; subst h
              intro x hx; simp at hx; rw [hx]; exact (lp.slice _ _).2 hP
            | slice pp pidx =>
              have hPP : P pp := (lp.slice pp pidx).1 hP
              simp only [] at h
              split at h
              · cases hpw : pp.width with
                | error e => simp [hpw] at h
                | ok ppw =>
                  simp only [hpw] at h
                  cases hpin : sliceInner ppw pidx with
                  | error e => simp [hpin] at h
                  | ok pin =>
                    simp only [hpin] at h
                    exact ihL pp _ ls h hPP
              · exact ihC _ inner ls h hP
            | concat parts =>
              simp only [] at h
              split at h
              · cases hf : findPart parts 0 inner.bot.toNat with
                | error e => simp [hf] at h
                | ok res =>
                  obtain ⟨part, off⟩ := res
                  simp only [hf] at h
                  have hm := findPart_mem parts 0 _ part off hf
                  exact ihL _ _ ls h ((lp.concat parts).1 hP part hm)
              · exact ihC _ inner ls h hP
    · intro parent inner ls h hP
      rw [consSlice] at h
      split at h <;> simp only [bind, Except.bind] at h
      · cases hfirst : listSlice fuel parent (.int (inner.top - 1)) with
        | error e => simp [hfirst] at h
        | ok first =>
          simp only [hfirst] at h
          cases hrest : listSlice fuel parent (.range (some (inner.top - 1 + inner.step))
              (if inner.bot > 0 then some (inner.bot - 1) else none) (some inner.step)) with
          | error e => simp [hrest] at h
          | ok rest =>
            simp only [hrest] at h
            injection h with h; subst h
            intro x hx
            rcases List.mem_append.1 hx with hx | hx
            · exact ihL _ _ first hfirst hP x hx
            · exact ihL _ _ rest hrest hP x hx
      · cases hfirst : listSlice fuel parent (.int inner.bot) with
        | error e => simp [hfirst] at h
        | ok first =>
          simp only [hfirst] at h
          cases hrest : listSlice fuel parent (.range (some (inner.bot + inner.step)) (some inner.top) (some inner.step)) with
          | error e => simp [hrest] at h
          | ok rest =>
            simp only [hrest] at h
            injection h with h; subst h
            intro x hx
            rcases List.mem_append.1 hx with hx | hx
            · exact ihL _ _ first hfirst hP x hx
            · exact ihL _ _ rest hrest hP x hx
    · intro c r h hP
      cases c with
      | sig n w =>
        rw [resolveSliceable] at h
        injection h with h; subst h; exact hP
      | slice p idx =>
        rw [resolveSliceable] at h
        simp only [bind, Except.bind] at h
        cases hl : listSlice fuel p idx with
        | error e => simp [hl] at h
        | ok ls =>
          simp only [hl] at h
          have fl := ihL p idx ls hl ((lp.slice p idx).1 hP)
          match ls, h, fl with
          | [], h, _ => cases h
          | [x], h, fl => injection h with h; rw [← h]; exact fl x (by simp)
          | x :: y :: rest, h, fl =>
            injection h with h; subst h
            exact (lp.concat _).2 (splice_all P lp.concat _ fl)
      | concat ps =>
        rw [resolveSliceable] at h
        split at h
        · cases h
        · simp only [bind, Except.bind] at h
          cases hp : resolveParts fuel ps with
          | error e => simp [hp] at h
          | ok parts =>
            simp only [hp] at h
            injection h with h; subst h
            exact (lp.concat _).2 (ihP ps parts hp ((lp.concat ps).1 hP))
    · intro ps rs h hP
      cases ps with
      | nil => rw [resolveParts] at h; injection h with h; subst h; intro x hx; cases hx
      | cons p ps =>
        rw [resolveParts] at h
        simp only [bind, Except.bind] at h
        cases hr : resolveSliceable fuel p with
        | error e => simp [hr] at h
        | ok r =>
          simp only [hr] at h
          cases hrest : resolveParts fuel ps with
          | error e => simp [hrest] at h
          | ok rest =>
            simp only [hrest] at h
            have fr := ihR p r hr (hP p (by simp))
            have frest := ihP ps rest hrest (fun x hx => hP x (List.mem_cons_of_mem _ hx))
            cases r with
            | concat rsub =>
              simp only [] at h
              injection h with h; subst h
              intro x hx
              rcases List.mem_append.1 hx with hx | hx
              · exact (lp.concat rsub).1 fr x hx
              · exact frest x hx
            | sig n w =>
              simp only [] at h
              injection h with h; subst h
              intro x hx
              rcases List.mem_cons.1 hx with hx | hx
              · rw [hx]; exact fr
              · exact frest x hx
            | slice q qi =>
              simp only [] at h
              injection h with h; subst h
              intro x hx
              rcases List.mem_cons.1 hx with hx | hx
              · rw [hx]; exact fr
              · exact frest x hx

end Hdl21
