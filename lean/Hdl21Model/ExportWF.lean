/-
# What elaboration hands to the exporter, and what the exporter makes of it                                         — C06

`EWF ctx h`: the state of an elaborated `hdl21.Module` the checking passes leave behind — one object per name, no zero-width
signal, directed ports, every instance of something defined (`ctx`: its ports with their widths), every port of that target
connected exactly once, to a resolved connectable over the module's own signals that can be exported and is as wide as the port.
-/
import Hdl21Model.RoundTrip
namespace Hdl21.ExportWF
open Hdl21 Hdl21.Pkg Hdl21.RoundTrip

def sigList (h : HModule) : List (String × Nat) := (h.signals ++ h.ports).map fun s => (s.name, s.width)

/-- a connection as elaboration leaves it: over declared signals, exportable, as wide as the port -/
def connOK (ws : List (String × Nat)) (w : Nat) (c : SConn) : Bool :=
  sigsOK ws c && (match exportTarget c with | .ok _ => true | .error _ => false) &&
  (match c.width with | .ok w' => w' == w | .error _ => false)

def instOK (ctx : PRef → Option (List (String × Nat))) (ws : List (String × Nat)) (i : HInst) : Bool :=
  match ctx i.ref with
  | none => false
  | some ports =>
    decide ((i.conns.map (·.1)).Nodup) &&
    i.conns.all (fun pc => match lookup pc.1 ports with | some w => connOK ws w pc.2 | none => false) &&
    ports.all (fun pw => (i.conns.map (·.1)).contains pw.1)

def EWF (ctx : PRef → Option (List (String × Nat))) (h : HModule) : Bool :=
  decide (((h.signals ++ h.ports).map (·.name)).Nodup) &&
  (h.signals ++ h.ports).all (fun s => decide (0 < s.width)) &&
  h.ports.all (fun s => (s.dir.bind (lookupS · exportDirMap)).isSome) &&
  decide ((h.instances.map (·.name)).Nodup) &&
  h.instances.all (instOK ctx (sigList h))

/-- the other layout of the signal list an exporter may choose: ports, in port order, first -/
def sigListPF (h : HModule) : List (String × Nat) := (h.ports ++ h.signals).map fun s => (s.name, s.width)

end Hdl21.ExportWF
