/-
# Instance arrays become scalar instances (hdl21/elab/passes/arrays.py:ArrayFlattener)            — C01, C02, C05

`n * M(…)(…)`: one instance of `M` per `k < n`, named through `flatname([array, k], avoid = the module's live namespace)` (the
array's own name is taken out of the namespace first), each with every connection of the array:
  * a bundle instance                  →  the same bundle instance for every element (no look at the port);
  * a Signal / Slice / Concat of width `cw` on a port of width `w`:
        `cw = w`       →  the connection itself, the same for every element;
        `cw = n * w`   →  element `k` gets `conn[k*w : (k+1)*w]`;
        otherwise      →  refused;
    a port name the target does not have, or one that is not a Signal, is refused;
  * an unresolved port reference       →  `RuntimeError`;
  * anything else                      →  refused.
`n < 1` is refused.
-/
import Hdl21Model.Conn
import Hdl21Model.Names
namespace Hdl21.ArrayPass
open Hdl21

inductive AConn
  | bundle (name : String)
  | sig (c : SConn)
  | portref
  | other
  deriving Repr

/-- what the array's target has under a port name -/
inductive Port
  | sig (w : Nat)
  | bundle
  deriving Repr

/-- what one element's instance is connected to on one port -/
inductive AElem
  | bundle (name : String)
  | whole (c : SConn)
  | part (c : SConn) (lo hi : Nat)
  deriving Repr

/-- the connectable an element is left with (`conn[lo:hi]` is a `Slice` for `SliceResolver` to resolve) -/
def AElem.conn : AElem → Option SConn
  | .bundle _ => none
  | .whole c => some c
  | .part c lo hi => some (.slice c (.range (some (lo : Int)) (some (hi : Int)) none))

def lookupP (p : String) : List (String × Port) → Option Port
  | [] => none
  | (a, x) :: rest => if a = p then some x else lookupP p rest

def elem (ports : List (String × Port)) (n k : Nat) (p : String) : AConn → Except String AElem
  | .bundle b => .ok (.bundle b)
  | .sig c =>
    match lookupP p ports with
    | none => .error "Connection to invalid Port"
    | some .bundle => .error "Invalid Port"
    | some (.sig w) =>
      match c.width with
      | .error _ => .error "width"
      | .ok cw =>
        if w = cw then .ok (.whole c)
        else if w * n = cw then .ok (.part c (k * w) ((k + 1) * w))
        else .error "Invalid connection"
  | .portref => .error "RuntimeError"
  | .other => .error "Invalid connection to"

def elemConns (ports : List (String × Port)) (n k : Nat) : List (String × AConn) → Except String (List (String × AElem))
  | [] => .ok []
  | (p, c) :: rest =>
    match elem ports n k p c, elemConns ports n k rest with
    | .ok e, .ok r => .ok ((p, e) :: r)
    | .error e, _ => .error e
    | _, .error e => .error e

def elements (ports : List (String × Port)) (n : Nat) (conns : List (String × AConn)) : List Nat → Except String (List (List (String × AElem)))
  | [] => .ok []
  | k :: rest =>
    match elemConns ports n k conns, elements ports n conns rest with
    | .ok e, .ok r => .ok (e :: r)
    | .error e, _ => .error e
    | _, .error e => .error e

/-- the pass on one array: per element, its connections -/
def expand (ports : List (String × Port)) (n : Nat) (conns : List (String × AConn)) : Except String (List (List (String × AElem))) :=
  if n < 1 then .error "Invalid InstanceArray with size" else elements ports n conns (List.range n)

/-- the names of the elements, against the live namespace `ns` (from which the array's own name has been removed) -/
def names (ns : List Names.Name) (array : String) (n : Nat) : Option (List Names.Name × List Names.Name) :=
  Names.inventAll ns 511 ((List.range n).map fun k => [array.toList, (toString k).toList])

end Hdl21.ArrayPass
