/-
# Connection checking of one instance (hdl21/elab/passes/conntypes.py:ConnTypes.check_instance)           — C02, C06

As run after flattening (`ConnTypesRepeat`): every port of the target is a scalar signal of some width, every connection a
connectable with a width.  The pass walks the target's ports, *pops* the connection of each from a copy of `inst.conns`
(missing: `Unconnected`; width differs: `InvalidType`), and whatever is left in the copy afterwards is a connection to a port
that does not exist (`NoPort`).  It raises iff any status is not `Valid`.
-/
import Hdl21Model.Conn
namespace Hdl21.ConnTypes
open Hdl21

inductive Status
  | valid
  | unconnected
  | noPort
  | invalidType
  deriving DecidableEq, Repr

/-- `conns.pop(portname, None)` on a dict given as an association list with distinct keys -/
def pop (k : String) : List (String × SConn) → Option SConn × List (String × SConn)
  | [] => (none, [])
  | (a, c) :: rest =>
    if a = k then (some c, rest)
    else
      let r := pop k rest
      (r.1, (a, c) :: r.2)

/-- `check_signals_compatible`: both widths are defined and equal -/
def compatible (w : Nat) (c : SConn) : Status :=
  match c.width with
  | .ok w' => if w' = w then .valid else .invalidType
  | .error _ => .invalidType

def checkPorts : List (String × Nat) → List (String × SConn) → List (String × Status)
  | [], rest => rest.map fun kc => (kc.1, Status.noPort)
  | (p, w) :: io, conns =>
    match pop p conns with
    | (none, rest) => (p, .unconnected) :: checkPorts io rest
    | (some c, rest) => (p, compatible w c) :: checkPorts io rest

/-- `check_instance` returns (does not `fail`) -/
def passes (io : List (String × Nat)) (conns : List (String × SConn)) : Bool :=
  (checkPorts io conns).all fun s => s.2 == Status.valid

end Hdl21.ConnTypes
