import Hdl21Model.Slice
import Hdl21Model.Conn
import Hdl21Model.Lemmas.Slice
import Hdl21Model.Lemmas.Conn
import Hdl21Model.Props.C03
