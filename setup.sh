#!/bin/bash
# MANIFEST.setup_cmd: build the Lean library (models + theorems) and the driver, offline.
set -e
cd "$(dirname "$0")"
/venv/bin/python -c "import sys; sys.path.insert(0,'harness'); import gen_tables; f=gen_tables.main(); print(f); sys.exit(1 if f else 0)"
cd lean
lake build drv Hdl21Model 2>&1 | tail -5
test -x .lake/build/bin/drv
echo '{"prop":"C03","op":"slice_inner","w":4,"idx":{"i":1}}' | .lake/build/bin/drv | grep -q '"bits":\[1\]'
echo setup-ok
